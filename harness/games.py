"""Structured input generators (harness side): superadditive / SAM games, knowledge sets, values."""
from __future__ import annotations

import itertools
from fractions import Fraction


def popcount(x: int) -> int:
    return bin(x).count("1")


def ids_by_size(n: int) -> list[int]:
    return sorted(range(2 ** n), key=popcount)


def proper_splits(s: int):
    """Non-empty proper submasks a of s (each unordered split appears twice)."""
    a = (s - 1) & s
    while a:
        yield a
        a = (a - 1) & s


def minimal_ids(n: int) -> list[int]:
    return [0, 2 ** n - 1] + [1 << i for i in range(n)]


def optional_ids(n: int) -> list[int]:
    m = set(minimal_ids(n))
    return [i for i in range(2 ** n) if i not in m]


def rand_value(rng, kind: str):
    """A value of the given class: 'int', 'dyadic' (<= 10 fractional bits), 'float'."""
    if kind == "int":
        return rng.randint(0, 12)
    if kind == "dyadic":
        return Fraction(rng.randint(0, 12 * 64), 64)
    return rng.random() * 10


def sa_closure_game(rng, n: int, kind: str = "int", neg_singletons: bool = True, slack_p: float = 0.6):
    """Superadditive game by closure over size: v(S) = max over splits + non-negative slack.
    Singletons may be negative; v(empty) = 0.  Values are ints / dyadics (exact stream) or floats."""
    v = [0] * (2 ** n)
    for s in ids_by_size(n):
        if s == 0:
            continue
        if popcount(s) == 1:
            x = rand_value(rng, kind)
            if neg_singletons and rng.random() < 0.4:
                x = -x
            v[s] = x
            continue
        base = max(v[a] + v[s ^ a] for a in proper_splits(s))
        v[s] = base + (rand_value(rng, kind) if rng.random() < slack_p else 0)
    if kind == "float":
        # float sums round: re-close so that the float game is superadditive exactly
        v = [float(x) for x in v]
        for s in ids_by_size(n):
            if popcount(s) >= 2:
                v[s] = max([v[s]] + [v[a] + v[s ^ a] for a in proper_splits(s)])
    return v


def sa_zero_rich_game(rng, n: int):
    """Superadditive integer game with many exact zeros and mixed signs: singletons in -2..2, interior = best split + (0|0|0|1|2)."""
    v = [0] * (2 ** n)
    for s in ids_by_size(n):
        if s == 0:
            continue
        if popcount(s) == 1:
            v[s] = rng.randint(-2, 2)
            continue
        base = max(v[a] + v[s ^ a] for a in proper_splits(s))
        # a coalition whose parts are worth less than nothing is often worth exactly nothing
        v[s] = 0 if (base < 0 and rng.random() < 0.6) else base + rng.choice([0, 0, 0, 1, 2])
    return v


def unanimity_game(rng, n: int, terms: int = 4):
    """Sum of unanimity games with non-negative integer coefficients (convex, hence SA)."""
    v = [0] * (2 ** n)
    for _ in range(terms):
        t = rng.randrange(1, 2 ** n)
        c = rng.randint(1, 6)
        for s in range(2 ** n):
            if s & t == t:
                v[s] += c
    return v


def sam_game(rng, n: int, kind: str = "int"):
    """Superadditive + monotone non-increasing: v = -f, f monotone non-decreasing, subadditive, f(0)=0."""
    f = [0] * (2 ** n)
    for s in ids_by_size(n):
        if s == 0:
            continue
        if popcount(s) == 1:
            f[s] = rng.randint(1, 8) if kind == "int" else Fraction(rng.randint(1, 8 * 16), 16)
            continue
        lo = max(f[a] for a in proper_splits(s))
        hi = min(f[a] + f[s ^ a] for a in proper_splits(s))
        assert lo <= hi
        if kind == "int":
            f[s] = rng.randint(int(lo), int(hi))
        else:
            k = rng.randint(0, 16)
            f[s] = lo + (hi - lo) * Fraction(k, 16)
    return [-x for x in f]


def is_sa(v, n: int, tol=0) -> bool:
    for s in range(2 ** n):
        for a in proper_splits(s):
            if v[a] + v[s ^ a] > v[s] + tol:
                return False
    return True


def is_mono_dec(v, n: int, tol=0) -> bool:
    for s in range(2 ** n):
        for i in range(n):
            if not (s >> i) & 1:
                if v[s | (1 << i)] > v[s] + tol:
                    return False
    return True


def all_knowledge_sets(n: int):
    opt = optional_ids(n)
    base = minimal_ids(n)
    for r in range(len(opt) + 1):
        for c in itertools.combinations(opt, r):
            yield sorted(base + list(c))


def random_knowledge(rng, n: int):
    opt = optional_ids(n)
    mode = rng.random()
    if mode < 0.15:
        k = 0
    elif mode < 0.3:
        k = len(opt) - rng.randint(0, 2)
    else:
        k = rng.randint(0, len(opt))
    k = max(0, min(len(opt), k))
    return sorted(minimal_ids(n) + rng.sample(opt, k))

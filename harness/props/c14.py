"""C14 - regret minimiser: constructible at every size; strategies valid distributions.

Correspondence with theories/Regret.v (extracted):
  * construction: for every configuration the implementation's tables (meta_rank_to_id, meta_id_to_rank where
    defined, number_of_regret_minimizers, array shapes, player-id map) are compared with the model under the four
    modelled schemes {ByCount, ById} x {limit unclamped, clamped}; the scheme the code follows is *detected*;
    a scheme for which only a `..._refuted` theorem exists is a violation whose replay is the theorem's witness
    re-run on the implementation.
  * iterations: one-step lock-step.  The implementation's float32 state is converted exactly to Q, the model
    computes the strategies of that state and one iteration; the implementation's strategies / next state must
    agree (1e-5 / 1e-4*scale).
  * oracle (independent of the model) on the implementation after every iteration, at every decision node:
    distribution, support, orthogonality, plus non-negativity, used-action regret <= 0, no NaN; save -> load ->
    continue bitwise equal to continue-without-saving.
"""
from __future__ import annotations

import copy
import json
import tempfile
from pathlib import Path

import numpy as np

from common import qtok, tokq, run_driver, run_driver_parallel

KEY_CTOR = "C14:constructor:id_to_rank-undersized"
KEY_NAN = "C14:limit-above-coalitions:nan-strategy"

RULE = ("construction cases = (n, limit, plus) for n=3 x limits 1..5 (+7, 60 thorough), n=4 x limits 1..11 (+12, 40 thorough), "
        "n=5 x limits 1..3, each compared with the model under the 4 schemes (table sized by count / by id) x (limit "
        "unclamped / clamped); iteration cases = one lock-step step = (configuration, plain/plus, float32 state reached by "
        "the history so far, non-negative terminal vector [int / dyadic / float / sparse / zero / big], used_actions list "
        "[bottom layer = sets of size limit, shuffled, with filtered singletons, occasionally a subset]); "
        "distinct_nontrivial = distinct (n, limit, plus, history index, step) whose terminal vector is non-zero and whose "
        "state change is non-zero, plus distinct constructed configurations.")
TRUSTED = ["model of regret.py: theories/Regret.v (hand-written, loop for loop, float32 replaced by Q with Qred at cell writes); "
           "tie = construction correspondence + one-step lock-step on every run",
           "numpy fancy indexing / in-place += semantics and scipy.special.comb (modelled: rg_write_all, rg_binom), validated by correspondence only",
           "itertools.combinations / chain (modelled: rg_combs, spec proved in RegretProofs.v), validated by correspondence only",
           "np.save / np.load / json of params (modelled as identity on the saved triple); validated by the bitwise save/load oracle"]
ASSUMPTIONS = ["terminal values are non-negative; used_actions name meta-coalitions of the tree (viable coalitions, no grand coalition)",
               "float32 state compared with the exact model at 1e-4*scale after ONE step from the implementation's own state (no accumulation); "
               "strategies at 1e-5; discrete decisions (sum == 0, > 0) are taken on identical inputs on both sides",
               "n = 5 is run for limits 1..3 only (the property's quantifier); the repaired id->rank table has up to 2^24.8 int64 slots "
               "(224 MB virtual, lazily committed; measured max RSS 181 MB)"]

VARIANTS = [("count", 0), ("count", 1), ("id", 0), ("id", 1)]


def nc_of(n):
    return 2 ** n - n - 2


def popcount(x):
    return bin(int(x)).count("1")


# ------------------------------------------------------------------ implementation access
def impl_construct(n, lim, plus=False):
    from incomplete_cooperative.regret import GameRegretMinimizer
    try:
        return "ok", GameRegretMinimizer(n, lim, plus)
    except IndexError as e:
        return "index_error", str(e)
    except ValueError as e:
        return "value_error", str(e)


def impl_descr(m):
    r2i = [int(x) for x in m.meta_rank_to_id]
    i2r = m.meta_id_to_rank
    at = [int(i2r[i]) if 0 <= i < len(i2r) else "x" for i in r2i]
    return {"lim": int(m.limit_of_revealed), "V": len(r2i), "tlen": int(len(i2r)), "nrm": int(m.number_of_regret_minimizers),
            "r2i": r2i, "i2r_at": at, "pmap": [int(x) for x in m.coalitions_to_player_ids],
            "shapes": [list(m.cumulative_regret.shape), list(m.cumulative_strategy.shape)],
            "i2r_nonzero": int(np.count_nonzero(i2r)), "iteration": int(m.iteration),
            "arrays_zero": bool(not m.cumulative_regret.any() and not m.cumulative_strategy.any())}


def model_construct_lines(n, lim, plus):
    return [f"rg_construct {p} {c} {n} {lim} {int(plus)}" for (p, c) in VARIANTS]


def parse_model_construct(out):
    if not out.startswith("ok"):
        return {"status": out.strip()}
    head, r2i, at, pmap = [x.split() for x in out.split("|")]
    return {"status": "ok", "lim": int(head[1]), "V": int(head[2]), "tlen": int(head[3]), "nrm": int(head[4]),
            "r2i": [int(x) for x in r2i], "i2r_at": [int(x) if x != "x" else "x" for x in at], "pmap": [int(x) for x in pmap]}


def construct_matches(n, st, d, md):
    """Does the implementation's construction outcome equal the model's under one scheme?"""
    if st != "ok" or md["status"] != "ok":
        return st == md["status"]
    nc = nc_of(n)
    return (d["V"] == md["V"] and d["tlen"] == md["tlen"] and d["nrm"] == md["nrm"] and d["r2i"] == md["r2i"]
            and d["i2r_at"] == md["i2r_at"] and d["pmap"] == md["pmap"]
            and d["shapes"] == [[md["nrm"], nc], [md["nrm"], nc]]
            and d["i2r_nonzero"] == md["V"] - 1 and d["iteration"] == 0 and d["arrays_zero"])


def oracle_construct(n, lim, st, d):
    """The property itself on the constructor's output (independent of the model)."""
    if st != "ok":
        return [f"GameRegretMinimizer({n}, {lim}) raises {st}"]
    nc = nc_of(n)
    fails = []
    r2i = d["r2i"]
    if len(set(r2i)) != len(r2i):
        fails.append("ranking has duplicates")
    sizes = [popcount(x) for x in r2i]
    if sizes != sorted(sizes):
        fails.append("ranking not ordered by set size")
    L = min(lim, nc)
    if nc <= 10:
        want = {x for x in range(2 ** nc) if popcount(x) <= L}
        if set(r2i) != want:
            fails.append("ranking is not the set of all coalition sets of size <= limit")
    else:
        import math
        if len(r2i) != sum(math.comb(nc, k) for k in range(L + 1)) or any(x >= 2 ** nc or popcount(x) > L for x in r2i):
            fails.append("ranking is not the set of all coalition sets of size <= limit")
    if d["i2r_at"] != list(range(len(r2i))):
        fails.append("id->rank is not the inverse of rank->id")
    return fails


# ------------------------------------------------------------------ nodes, used_actions, terminal vectors
class Cfg:
    """Static data of one constructed configuration, read off the implementation object."""

    def __init__(self, n, lim, plus, m):
        self.n, self.lim, self.plus = n, lim, plus
        self.nc = nc_of(n)
        self.r2i = [int(x) for x in m.meta_rank_to_id]
        self.nrm = int(m.number_of_regret_minimizers)
        pmap = [int(x) for x in m.coalitions_to_player_ids]
        self.pid_to_coal = {p: c for c, p in enumerate(pmap) if p >= 0}
        self.viable = sorted(self.pid_to_coal.values())
        self.singletons = [2 ** i for i in range(n)]
        self.decision = self.r2i[:self.nrm]
        self.bottom = self.r2i[self.nrm:]

    def pids(self, node):
        return [a for a in range(self.nc) if node >> a & 1]

    def coalitions_of(self, node):
        return [self.pid_to_coal[a] for a in self.pids(node)]


def gen_terminal(rng, k):
    kind = rng.choice(["int", "dyadic", "float", "float", "sparse", "zero", "big"])
    if kind == "int":
        v = [float(rng.randint(0, 10)) for _ in range(k)]
    elif kind == "dyadic":
        v = [rng.randint(0, 160) / 16.0 for _ in range(k)]
    elif kind == "float":
        v = [rng.random() * rng.choice([1.0, 1.0, 100.0]) for _ in range(k)]
    elif kind == "sparse":
        v = [0.0] * k
        for _ in range(max(1, k // 8)):
            if k:
                v[rng.randrange(k)] = float(rng.choice([1, 1, 2, 0.5]))
    elif kind == "zero":
        v = [0.0] * k
    else:
        v = [float(rng.randint(0, 10 ** 4)) for _ in range(k)]
    return kind, v


def gen_used(rng, cfg):
    """used_actions as lists of coalition ids: one list per bottom node (the sets of size `limit`)."""
    nodes = list(cfg.bottom)
    if rng.random() < 0.5:
        rng.shuffle(nodes)
    if nodes and rng.random() < 0.15:
        nodes = nodes[:max(1, len(nodes) - rng.randint(1, max(1, len(nodes) // 3)))]
    used = []
    for node in nodes:
        cs = cfg.coalitions_of(node)
        rng.shuffle(cs)
        if rng.random() < 0.1:
            cs.insert(rng.randrange(len(cs) + 1), rng.choice(cfg.singletons))   # filtered by get_metacoalition_id
        used.append(cs)
    return used


def gen_step(rng, cfg):
    used = gen_used(rng, cfg)
    kind, term = gen_terminal(rng, len(used))
    return {"terminal": term, "used": used, "kind": kind}


def impl_iterate(m, step):
    from incomplete_cooperative.coalitions import Coalition
    m.regret_min_iteration(np.array(step["terminal"], dtype=float), [[Coalition(c) for c in cs] for cs in step["used"]])


def snapshot(m):
    return m.cumulative_regret.copy(), m.cumulative_strategy.copy(), int(m.iteration)


def impl_strategies(m, cfg):
    return [np.asarray(m.regret_matching_strategy(int(node)), dtype=float) for node in cfg.decision]


def impl_averages(m, cfg):
    from incomplete_cooperative.coalitions import Coalition
    return [np.asarray(m.get_average_strategy([Coalition(c) for c in cfg.coalitions_of(node)]), dtype=float)
            for node in cfg.decision]


# ------------------------------------------------------------------ the oracle on the implementation
def oracle_state(m, cfg, prev=None, prev_sigma=None, delta=None, scale=1.0):
    """Property predicates on the implementation's current state (every decision node). Returns failure strings."""
    fails = []
    reg, strat = m.cumulative_regret, m.cumulative_strategy
    if np.isnan(reg).any() or np.isnan(strat).any() or np.isinf(reg).any() or np.isinf(strat).any():
        fails.append("nan: cumulative arrays contain NaN/inf")
    try:
        sig = impl_strategies(m, cfg)
        avg = impl_averages(m, cfg)
    except Exception as e:  # noqa: BLE001
        return fails + [f"strategy query raises {type(e).__name__}: {e}"]
    tol = 1e-4 * max(1.0, scale)
    for rank, node in enumerate(cfg.decision):
        used = cfg.pids(node)
        s = sig[rank]
        if not np.all(np.isfinite(s)):
            fails.append(f"nan: strategy at node {node} is {s.tolist()}")
            continue
        if len(s) != cfg.nc or (s < 0).any() or abs(s.sum() - 1) > 1e-5:
            fails.append(f"strategy at node {node} is not a distribution: {s.tolist()}")
        if any(s[a] != 0 for a in used):
            fails.append(f"strategy at node {node} puts mass on an already revealed coalition: {s.tolist()}")
        a_ = avg[rank]
        if not np.all(np.isfinite(a_)):
            fails.append(f"nan: average strategy at node {node} is {a_.tolist()}")
            continue
        allowed = set(cfg.viable) - set(cfg.coalitions_of(node))
        if len(a_) != 2 ** cfg.n or (a_ < 0).any() or abs(a_.sum() - 1) > 1e-5:
            fails.append(f"average strategy at node {node} is not a distribution: {a_.tolist()}")
        if any(a_[c] != 0 for c in range(len(a_)) if c not in allowed):
            fails.append(f"average strategy at node {node} is supported outside the viable unrevealed coalitions")
        if used and (reg[rank, used] > tol).any():
            fails.append(f"cumulative regret of an already revealed coalition is positive at node {node}: {reg[rank].tolist()}")
        if (strat[rank] < 0).any() or (used and (strat[rank, used] != 0).any()):
            fails.append(f"cumulative strategy negative or on a revealed coalition at node {node}")
        if len(fails) > 8:
            break
    if cfg.plus and (reg < 0).any():
        fails.append("plus variant: negative cumulative regret")
    if delta is not None and prev_sigma is not None:
        for rank, node in enumerate(cfg.decision):
            if np.all(np.isfinite(prev_sigma[rank])) and np.all(np.isfinite(delta[rank])):
                dot = float(np.dot(prev_sigma[rank], delta[rank].astype(float)))
                if abs(dot) > tol:
                    fails.append(f"regret added at node {node} is not orthogonal to the strategy played: <sigma,delta>={dot}")
                    break
    return fails


def unclipped_delta(m_before, step):
    """Regret added by one iteration before any plus-clipping: same object state, plus switched off on a deep copy."""
    c = copy.copy(m_before)            # shallow: the (large, read-only) tables are shared, the mutable arrays are copied
    c.cumulative_regret = m_before.cumulative_regret.copy()
    c.cumulative_strategy = m_before.cumulative_strategy.copy()
    c.plus = False
    old = c.cumulative_regret.copy()
    impl_iterate(c, step)
    return c.cumulative_regret - old


# ------------------------------------------------------------------ model step
def step_line(variant, do_iter, cfg, stored_lim, state, step, pasts):
    reg, strat, it = state
    R, C = reg.shape
    toks = ["rg_step", variant[0], str(variant[1]), str(int(do_iter)), str(cfg.n), str(stored_lim), str(int(cfg.plus)), str(it),
            str(R), str(C)]
    toks += [qtok(float(x)) for x in reg.ravel()]
    toks += [qtok(float(x)) for x in strat.ravel()]
    term = step["terminal"] if step else []
    used = step["used"] if step else []
    toks.append(str(len(term)))
    toks += [qtok(x) for x in term]
    toks.append(str(len(used)))
    for cs in used:
        toks.append(str(len(cs)))
        toks += [str(c) for c in cs]
    toks.append(str(len(pasts)))
    for cs in pasts:
        toks.append(str(len(cs)))
        toks += [str(c) for c in cs]
    return " ".join(toks)


def parse_section(sec, tag):
    t = sec.split()
    assert t and t[0] == tag, (tag, sec[:40])
    if len(t) == 2 and t[1] in ("nan", "index_error", "value_error"):
        return t[1]
    return [float(tokq(x)) for x in t[1:]]


def parse_step(out, npast, do_iter):
    if out.startswith("load_"):
        return {"load": out.strip()}
    secs = [s.strip() for s in out.split("|")]
    res = {"S": parse_section(secs[0], "S"), "A": parse_section(secs[1], "A"),
           "Q": [parse_section(secs[2 + i], "Q") for i in range(npast)]}
    if do_iter:
        n = secs[2 + npast].split()
        if n[1] != "ok":
            res["N"] = n[1]
        else:
            res["N"] = "ok"
            res["iter"] = int(n[2])
            res["regret"] = [float(tokq(x)) for x in secs[3 + npast].split()]
            res["strat"] = [float(tokq(x)) for x in secs[4 + npast].split()]
    return res


def flat_close(a, b, tol):
    a = np.asarray(a, dtype=float).ravel()
    b = np.asarray(b, dtype=float).ravel()
    if a.shape != b.shape:
        return f"shape {a.shape} vs {b.shape}"
    if not np.all(np.isfinite(a)):
        return "implementation value not finite"
    d = np.abs(a - b)
    if d.size and d.max() > tol:
        i = int(d.argmax())
        return f"index {i}: impl {a[i]!r} model {b[i]!r} (tol {tol:g})"
    return None


# ------------------------------------------------------------------ one history (lock-step + oracle + save/load)
def run_history(ctx, variant, n, lim, plus, steps, save_at, record):
    """Runs one iteration history on the implementation; returns (oracle_failures, mismatches, replay)."""
    from incomplete_cooperative.regret import GameRegretMinimizer
    st, m = impl_construct(n, lim, plus)
    replay = {"kind": "history", "n": n, "lim": lim, "plus": plus, "save_at": save_at,
              "steps": [{"terminal": s["terminal"], "used": s["used"]} for s in steps]}
    if st != "ok":
        return [f"constructor raises {st}"], [], replay
    cfg = Cfg(n, lim, plus, m)
    stored_lim = int(m.limit_of_revealed)
    rng = ctx.rng
    fails, mism = [], []
    lines, checks = [], []
    twin = None
    f0 = oracle_state(m, cfg)
    if f0:
        fails += [f"before any iteration: {x}" for x in f0[:3]]
    for k, step in enumerate(steps + [None]):
        if fails:
            break
        state = snapshot(m)
        scale = max([1.0] + [abs(float(x)) for x in (step["terminal"] if step else [])]
                    + [float(np.abs(state[0]).max(initial=0)), float(np.abs(state[1]).max(initial=0))])
        finite = bool(np.isfinite(state[0]).all() and np.isfinite(state[1]).all())
        pasts = [[]]
        for _ in range(2):
            if cfg.decision:
                cs = cfg.coalitions_of(rng.choice(cfg.decision))
                rng.shuffle(cs)
                if rng.random() < 0.3:
                    cs.append(rng.choice(cfg.singletons))
                pasts.append(cs)
        try:
            sig = impl_strategies(m, cfg)
            avg = impl_averages(m, cfg)
            from incomplete_cooperative.coalitions import Coalition
            qavg = [np.asarray(m.get_average_strategy([Coalition(c) for c in p]), dtype=float) for p in pasts]
        except Exception as e:  # noqa: BLE001
            fails.append(f"strategy query raises {type(e).__name__}: {e}")
            break
        # the exact-rational model of one iteration on float32-derived states gets very slow for the largest trees (n = 4 with
        # limits 7, 8: 848 / 968 nodes took many minutes per step): those steps are judged by the oracle only
        model_affordable = state[0].shape[0] <= 640
        if not model_affordable:
            ctx.count("lock_step_skipped_model_too_slow", f"{state[0].shape[0]}x{state[0].shape[1]}")
        finite = finite and model_affordable
        if finite:
            lines.append(step_line(variant, step is not None, cfg, stored_lim, state, step, pasts))
        if step is None:
            if finite:
                checks.append({"k": k, "cfg": cfg, "sig": sig, "avg": avg, "qavg": qavg, "pasts": pasts, "next": None, "scale": scale})
            break
        if save_at == k:
            # the checkpoint directory stays on disk while the loaded copy is used (as in a real session)
            saved_dir = Path(tempfile.mkdtemp(dir=str(ctx.work)))
            m.save(saved_dir)
            saved_state = (np.array(m.cumulative_regret, copy=True), np.array(m.cumulative_strategy, copy=True), m.iteration)
            twin = GameRegretMinimizer.load(saved_dir)
            if not (np.array_equal(twin.cumulative_regret, m.cumulative_regret) and np.array_equal(twin.cumulative_strategy, m.cumulative_strategy)
                    and twin.iteration == m.iteration and twin.plus == m.plus
                    and np.array_equal(twin.meta_rank_to_id, m.meta_rank_to_id)
                    and twin.number_of_regret_minimizers == m.number_of_regret_minimizers
                    and twin.cumulative_regret.dtype == m.cumulative_regret.dtype):
                fails.append(f"save/load at iteration {k}: the loaded minimiser differs from the saved one")
        # ordinary "latest + best" checkpointing: two directories written one after the other at the same iteration, again and
        # again; whatever directory was just written must load as the CURRENT state
        if record and k <= 3:
            if k == 0:
                ck_dirs = (Path(tempfile.mkdtemp(dir=str(ctx.work))), Path(tempfile.mkdtemp(dir=str(ctx.work))))
                run_history.ck_dirs = ck_dirs
            for d_ in run_history.ck_dirs:
                m.save(d_)
                back = GameRegretMinimizer.load(d_)
                if not (np.array_equal(back.cumulative_regret, m.cumulative_regret, equal_nan=True)
                        and np.array_equal(back.cumulative_strategy, m.cumulative_strategy, equal_nan=True) and back.iteration == m.iteration):
                    fails.append(f"checkpointing into two directories in turn: after save(dir) at iteration {m.iteration} (dir {'latest' if d_ is run_history.ck_dirs[0] else 'best'}, "
                                 f"written before at earlier iterations), load(dir) gives iteration {back.iteration} / other tables")
                    break
        delta = unclipped_delta(m, step) if plus else None
        try:
            impl_iterate(m, step)
            if twin is not None:
                impl_iterate(twin, step)
        except Exception as e:  # noqa: BLE001
            fails.append(f"regret_min_iteration raises {type(e).__name__}: {e} at step {k}")
            break
        if delta is None:
            delta = m.cumulative_regret - state[0]
        if twin is not None and not (np.array_equal(twin.cumulative_regret, m.cumulative_regret, equal_nan=True)
                                     and np.array_equal(twin.cumulative_strategy, m.cumulative_strategy, equal_nan=True)
                                     and twin.iteration == m.iteration):
            fails.append(f"saved-then-loaded minimiser diverges from the original at step {k} (saved at {save_at})")
        if twin is not None and save_at == k:
            # using a loaded copy must not change the checkpoint: loading it again gives the saved state
            again = GameRegretMinimizer.load(saved_dir)
            if not (np.array_equal(again.cumulative_regret, saved_state[0], equal_nan=True)
                    and np.array_equal(again.cumulative_strategy, saved_state[1], equal_nan=True) and again.iteration == saved_state[2]):
                fails.append(f"iterating a loaded minimiser changed the saved checkpoint (saved at iteration {k}): a second load differs from what was saved")
            del again
        nxt = snapshot(m)
        if finite:
            checks.append({"k": k, "cfg": cfg, "sig": sig, "avg": avg, "qavg": qavg, "pasts": pasts, "next": nxt, "scale": scale})
        f = oracle_state(m, cfg, prev=state, prev_sigma=sig, delta=delta, scale=scale)
        if f:
            fails += [f"after iteration {k + 1}: {x}" for x in f[:3]]
        ctx.evaluations += 1
        changed = bool((nxt[0] != state[0]).any() or (nxt[1] != state[1]).any())
        if any(x != 0 for x in step["terminal"]) and changed:
            ctx.nontrivial.add(("step", n, lim, plus, record, k))
        ctx.count("terminal_kind", step["kind"])
    return fails, (lines, checks), replay


def compare_model(lines, checks, outs):
    """Model outputs against what the implementation did; returns mismatch descriptions."""
    mism = []
    for line, chk, out in zip(lines, checks, outs):
        cfg = chk["cfg"]
        res = parse_step(out, len(chk["pasts"]), chk["next"] is not None)
        where = f"step {chk['k']}"
        if "load" in res:
            mism.append(f"{where}: model cannot load the implementation's state: {res['load']}")
            continue
        # strategies of the current state
        if isinstance(res["S"], str):
            if all(np.all(np.isfinite(s)) for s in chk["sig"]):
                mism.append(f"{where}: model strategies = {res['S']} but the implementation's are finite")
        else:
            e = flat_close(np.concatenate(chk["sig"]) if chk["sig"] else [], res["S"], 1e-5)
            if e:
                mism.append(f"{where}: current strategy differs, {e}")
        if isinstance(res["A"], str):
            if all(np.all(np.isfinite(s)) for s in chk["avg"]):
                mism.append(f"{where}: model average strategies = {res['A']} but the implementation's are finite")
        else:
            # model gives player-id space; the implementation coalition space
            A = np.asarray(res["A"], dtype=float).reshape(len(cfg.decision), cfg.nc) if cfg.decision else np.zeros((0, cfg.nc))
            impl_pid = np.array([[a[cfg.pid_to_coal[p]] for p in range(cfg.nc)] for a in chk["avg"]]) if chk["avg"] else np.zeros((0, cfg.nc))
            e = flat_close(impl_pid, A, 1e-5)
            if e:
                mism.append(f"{where}: average strategy differs, {e}")
        for q_impl, q_model, p in zip(chk["qavg"], res["Q"], chk["pasts"]):
            if isinstance(q_model, str):
                if np.all(np.isfinite(q_impl)):
                    mism.append(f"{where}: get_average_strategy({p}) model = {q_model}, implementation finite")
            else:
                e = flat_close(q_impl, q_model, 1e-5)
                if e:
                    mism.append(f"{where}: get_average_strategy({p}) differs, {e}")
        if chk["next"] is not None:
            reg, strat, it = chk["next"]
            if res["N"] != "ok":
                if np.isfinite(reg).all() and np.isfinite(strat).all():
                    mism.append(f"{where}: model iteration = {res['N']} but the implementation's next state is finite")
            else:
                tol = 1e-4 * chk["scale"]
                e = flat_close(reg, res["regret"], tol)
                if e:
                    mism.append(f"{where}: cumulative_regret after the iteration differs, {e}")
                e = flat_close(strat, res["strat"], tol * (it if cfg.plus else 1))
                if e:
                    mism.append(f"{where}: cumulative_strategy after the iteration differs, {e}")
                if res["iter"] != it:
                    mism.append(f"{where}: iteration counter impl {it} model {res['iter']}")
    return mism


def run_model(lines, jobs=14):
    """The extracted model on all step lines; lines are dealt round-robin so that the expensive configurations
    (which are adjacent in the plan) are spread over the workers."""
    if len(lines) < 2 * jobs:
        return run_driver(lines)
    from concurrent.futures import ThreadPoolExecutor
    parts = [lines[j::jobs] for j in range(jobs)]
    with ThreadPoolExecutor(max_workers=jobs) as ex:
        outs = list(ex.map(run_driver, parts))
    res = [None] * len(lines)
    for j, o in enumerate(outs):
        res[j::jobs] = o
    return res


# ------------------------------------------------------------------ in-Coq shard (removes extraction + driver from the trusted base for it)
def _qlit(x):
    from fractions import Fraction
    f = x if isinstance(x, Fraction) else Fraction(x)
    return f"({f.numerator} # {f.denominator})"


def _vlit(v):
    return f"(rg_mkvariant {'ByCount' if v[0] == 'count' else 'ById'} {'true' if v[1] else 'false'})"


def _mat(rows):
    return "[" + "; ".join("[" + "; ".join(_qlit(x) for x in r) + "]" for r in rows) + "]"


def coq_shard(ctx, construct_cases, step_cases):
    """construct_cases: (variant, n, lim, driver output line); step_cases: (driver input line, driver output line).
    Writes Examples stating that the model evaluated by vm_compute inside Coq equals what the extracted driver printed."""
    import subprocess
    from common import COQ
    out = ["From ICG Require Import Prelude Bits Regret.", "Open Scope Q_scope."]
    k = 0
    for (v, n, lim, line) in construct_cases:
        md = parse_model_construct(line)
        lhs = (f"match rg_construct {_vlit(v)} {n}%nat {lim}%nat false with RgOk s => inl (rg_lim s, length (rg_r2i s), rg_tlen (rg_tab s), "
               "rg_nrm s, rg_r2i s, rg_pmap s) | RgIndexError => inr 1%nat | RgValueError => inr 2%nat | RgNaN => inr 3%nat end")
        if md["status"] == "ok":
            rhs = (f"inl ({md['lim']}%nat, {md['V']}%nat, {md['tlen']}%N, {md['nrm']}%nat, [" + "; ".join(f"{x}%N" for x in md["r2i"]) + "], ["
                   + "; ".join(f"({x})%Z" for x in md["pmap"]) + "])")
        else:
            rhs = "inr %d%%nat" % {"index_error": 1, "value_error": 2, "nan": 3}[md["status"]]
        out.append(f"Example shard_c{k} : {lhs} = {rhs}. Proof. vm_compute. reflexivity. Qed.")
        k += 1
    for (line, res) in step_cases:
        t = line.split()
        pol, clamp, do_iter, n, lim, plus, it, R, C = t[1], int(t[2]), int(t[3]), int(t[4]), int(t[5]), int(t[6]), int(t[7]), int(t[8]), int(t[9])
        pos = 10
        vals = [tokq(x) for x in t[pos:pos + 2 * R * C]]
        pos += 2 * R * C
        reg = [vals[r * C:(r + 1) * C] for r in range(R)]
        st = [vals[R * C + r * C:R * C + (r + 1) * C] for r in range(R)]
        T = int(t[pos]); pos += 1
        term = [tokq(x) for x in t[pos:pos + T]]; pos += T
        U = int(t[pos]); pos += 1
        used = []
        for _ in range(U):
            kk = int(t[pos]); pos += 1
            used.append([int(x) for x in t[pos:pos + kk]]); pos += kk
        if not do_iter:
            continue
        secs = [x.strip() for x in res.split("|")]
        ni = next(i for i, x in enumerate(secs) if x.startswith("N "))
        nn = secs[ni].split()
        lhs = (f"match rg_bind (rg_load {_vlit((pol, clamp))} (rg_mksaved {it}%nat {n}%nat {lim}%nat {'true' if plus else 'false'} {_mat(reg)} {_mat(st)})) "
               f"(fun s0 => rg_iteration s0 [{'; '.join(_qlit(x) for x in term)}] [" + "; ".join("[" + "; ".join(f"{c}%N" for c in cs) + "]" for cs in used)
               + "]) with RgOk s => inl (rg_iter s, rg_regret s, rg_strat s) | RgIndexError => inr 1%nat | RgValueError => inr 2%nat | RgNaN => inr 3%nat end")
        if nn[1] == "ok":
            r2 = [tokq(x) for x in secs[ni + 1].split()]
            s2 = [tokq(x) for x in secs[ni + 2].split()]
            rhs = (f"inl ({int(nn[2])}%nat, {_mat([r2[r * C:(r + 1) * C] for r in range(R)])}, {_mat([s2[r * C:(r + 1) * C] for r in range(R)])})")
        else:
            rhs = "inr %d%%nat" % {"index_error": 1, "value_error": 2, "nan": 3}[nn[1]]
        out.append(f"Example shard_s{k} : {lhs} = {rhs}. Proof. vm_compute. reflexivity. Qed.")
        k += 1
    f = ctx.work / "cases_C14.v"
    f.write_text("\n".join(out) + "\n")
    p = subprocess.run(["timeout", "600", "coqc", "-Q", str(COQ / "theories"), "ICG", str(f)], capture_output=True, text=True, cwd=str(ctx.work))
    return k, p.returncode == 0, (p.stdout + p.stderr)[-1500:]


# ------------------------------------------------------------------ plans
def construction_configs(ctx):
    cf = [(3, l) for l in range(1, 6)] + [(4, l) for l in range(1, 12)] + [(5, l) for l in (1, 2, 3)]
    if not ctx.quick:
        cf += [(3, 7), (3, 60), (4, 12), (4, 40)]
    return cf


def history_plan(ctx):
    """(n, lim, number of histories per plain/plus, max length)"""
    if ctx.quick:
        return [(3, 1, 3, 6), (3, 2, 4, 8), (3, 3, 3, 6), (3, 4, 2, 4),
                (4, 1, 2, 5), (4, 2, 2, 5), (4, 3, 1, 4), (4, 5, 1, 3), (4, 10, 1, 2), (4, 11, 1, 2),
                (5, 1, 1, 4), (5, 2, 1, 3), (5, 3, 1, 2)]
    return [(3, 1, 12, 30), (3, 2, 16, 30), (3, 3, 12, 30), (3, 4, 6, 30), (3, 5, 3, 10), (3, 60, 2, 6),
            (4, 1, 6, 30), (4, 2, 6, 30), (4, 3, 4, 20), (4, 4, 3, 12), (4, 5, 2, 8), (4, 6, 2, 6), (4, 7, 1, 5),
            (4, 8, 1, 4), (4, 9, 1, 4), (4, 10, 1, 4), (4, 11, 1, 4), (4, 12, 1, 3),
            (5, 1, 4, 30), (5, 2, 3, 12), (5, 3, 2, 5)]


# ------------------------------------------------------------------ run
def run(ctx, proof):
    reported = {}

    def report(what, replay, found_input=True, key=None):
        k = key if key is not None else what[:60]
        reported[k] = reported.get(k, 0) + 1
        if reported[k] == 1:
            ctx.violation(what, replay, found_input=found_input, key=key)

    # ---- 1. construction correspondence and scheme detection
    cfgs = construction_configs(ctx)
    lines = []
    for (n, lim) in cfgs:
        lines += model_construct_lines(n, lim, False)
    outs = run_driver(lines)
    construct_outs = outs
    candidates = set(VARIANTS)
    first_empty = None
    ctor_fail = []
    constructed = []
    table = {}
    for idx, (n, lim) in enumerate(cfgs):
        st, m = impl_construct(n, lim, False)
        d = impl_descr(m) if st == "ok" else None
        ctx.evaluations += 1
        ctx.count("construct", f"n={n}")
        ok_variants = set()
        for vi, v in enumerate(VARIANTS):
            md = parse_model_construct(outs[idx * 4 + vi])
            if construct_matches(n, st, d, md):
                ok_variants.add(v)
        table[(n, lim)] = (st, sorted(ok_variants))
        if candidates and not (candidates & ok_variants) and first_empty is None:
            first_empty = (n, lim, st, None if d is None else {k: d[k] for k in ("lim", "V", "tlen", "nrm", "shapes")})
        candidates &= ok_variants
        fails = oracle_construct(n, lim, st, d)
        if st != "ok":
            ctor_fail.append((n, lim, m))
        elif fails:
            report(f"constructor oracle fails for GameRegretMinimizer({n}, {lim}): {fails}",
                   {"kind": "construct", "n": n, "lim": lim, "plus": False, "failures": fails})
        else:
            constructed.append((n, lim))
            ctx.nontrivial.add(("construct", n, lim))
        if st == "ok":
            ctx.sample({"construct": [n, lim], "V": d["V"], "table_len": d["tlen"], "nrm": d["nrm"], "stored_limit": d["lim"]}, limit=3)
        del m
    ctx.coverage["construction_outcomes"] = {f"{n},{lim}": v[0] for (n, lim), v in table.items()}
    variant = None
    if candidates:
        variant = sorted(candidates)[-1] if len(candidates) > 1 else next(iter(candidates))
        ctx.coverage["detected_scheme"] = {"table": "ByCount" if variant[0] == "count" else "ById",
                                           "limit": "clamped" if variant[1] else "unclamped",
                                           "ambiguous_between": sorted(candidates) if len(candidates) > 1 else None}
    else:
        ctx.coverage["detected_scheme"] = None
        report("construction correspondence broken: the implementation matches none of the modelled schemes "
               f"(ByCount/ById x unclamped/clamped); first configuration without a matching scheme: {first_empty}",
               {"relation": "GameRegretMinimizer.__init__ tables = rg_construct (Regret.v) under one scheme", "first_disagreement": first_empty},
               found_input=False)

    # refuted schemes: the witness of the refutation theorem is re-run on the implementation
    if variant is not None and variant[0] == "count":
        st, msg = impl_construct(3, 1, False)
        also = [[n, lim] for (n, lim, _) in ctor_fail]
        if st != "ok":
            report("scheme ByCount detected (id->rank table has one slot per viable set): only constructor_ByCount_refuted exists for it; "
                   f"witness GameRegretMinimizer(3, 1) raises {st}: {msg}; constructor fails for {len(also)} of {len(cfgs)} configurations",
                   {"kind": "construct", "n": 3, "lim": 1, "plus": False, "expected": "constructs", "observed": f"{st}: {msg}",
                    "theorem": "constructor_ByCount_refuted", "also_failing": also}, key=KEY_CTOR)
        else:
            report("scheme ByCount detected but the refutation witness (3,1) constructs", {"kind": "construct", "n": 3, "lim": 1, "plus": False},
                   found_input=False)
    for (n, lim, msg) in ctor_fail:
        if variant is None or variant[0] != "count":
            report(f"GameRegretMinimizer({n}, {lim}) cannot be constructed: {msg}",
                   {"kind": "construct", "n": n, "lim": lim, "plus": False, "expected": "constructs", "observed": str(msg)})
    if variant is not None and variant[1] == 0:
        rep = {"kind": "history", "n": 3, "lim": 4, "plus": False, "save_at": None, "steps": [{"terminal": [], "used": []}], "keep_going": True,
               "theorem": "rm_unclamped_refuted", "expected": "every strategy is a probability distribution"}
        f = replay_history(ctx, rep)
        if f:
            report("scheme 'unclamped limit' detected (the full coalition set counts as a decision node when limit > number of coalitions): "
                   f"only rm_unclamped_refuted exists for it; witness GameRegretMinimizer(3, 4) + one iteration: {f[:1] + f[-1:]}",
                   dict(rep, observed=f[:6]), key=KEY_NAN)
        else:
            report("scheme 'unclamped limit' detected but the refutation witness (3,4) shows no failure", rep, found_input=False)

    # ---- 2. iteration histories
    if variant is None:
        variant = ("id", 1)     # compare against the scheme the positive theorems are about
    all_lines, all_checks, owners = [], [], []
    hist_replays = []
    import time as _time
    timing = {}
    for (n, lim, reps, maxlen) in history_plan(ctx):
        _t0 = _time.time()
        st, m = impl_construct(n, lim, False)
        if st != "ok":
            ctx.count("history_skipped_unconstructible", f"{n},{lim}", 2 * reps)
            continue
        cfg0 = Cfg(n, lim, False, m)
        del m
        for plus in (False, True):
            for r in range(reps):
                length = ctx.rng.randint(1, maxlen)
                steps = [gen_step(ctx.rng, cfg0) for _ in range(length)]
                save_at = ctx.rng.randrange(length) if ctx.rng.random() < 0.6 else None
                fails, (ls, cs), replay = run_history(ctx, variant, n, lim, plus, steps, save_at, r)
                ctx.count("history", f"n={n},lim={lim},{'plus' if plus else 'plain'}")
                ctx.count("history_length", length)
                if fails:
                    nan = any("nan" in x for x in fails)
                    if nan and variant[1] == 0 and lim > nc_of(n):
                        report(f"NaN strategies with limit above the number of coalitions: {fails[:2]}", dict(replay, observed=fails[:4]), key=KEY_NAN)
                    else:
                        report(f"property oracle fails on the implementation (n={n}, limit={lim}, plus={plus}): {fails[:3]}",
                               dict(replay, observed=fails[:6]))
                owners += [len(hist_replays)] * len(ls)
                hist_replays.append(replay)
                all_lines += ls
                all_checks += cs
                if len(ctx.samples) < 6 and steps:
                    ctx.sample({"history": [n, lim, plus], "length": length, "first_terminal": steps[0]["terminal"][:6],
                                "first_used": steps[0]["used"][:3], "save_at": save_at})
        timing[f"impl+oracle n={n},lim={lim}"] = round(_time.time() - _t0, 1)
    _t0 = _time.time()
    outs = run_model(all_lines) if all_lines else []
    timing["model driver (all steps, 14 jobs)"] = round(_time.time() - _t0, 1)
    ctx.coverage["timing_s"] = timing
    mism = []
    for i, (line, chk, out) in enumerate(zip(all_lines, all_checks, outs)):
        for x in compare_model([line], [chk], [out]):
            mism.append((owners[i], x))
    ctx.coverage["lockstep_steps_compared"] = len(all_lines)
    ctx.coverage["model_implementation_mismatches"] = len(mism)
    ctx.coverage["violations_by_key"] = dict(reported)
    if mism and not any(v["found_input"] and v.get("key") is None for v in ctx.violations):
        # search: the oracle already ran on every step of every history; rerun longer histories on the first disagreeing configuration
        own, detail = mism[0]
        rep = hist_replays[own]
        found = None
        st, m = impl_construct(rep["n"], rep["lim"], False)
        if st == "ok":
            cfg0 = Cfg(rep["n"], rep["lim"], False, m)
            for _ in range(20 if ctx.quick else 100):
                steps = [gen_step(ctx.rng, cfg0) for _ in range(ctx.rng.randint(1, 12))]
                r2 = {"kind": "history", "n": rep["n"], "lim": rep["lim"], "plus": rep["plus"], "save_at": 0, "steps": steps}
                f = replay_history(ctx, r2)
                if f:
                    found = (r2, f)
                    break
        if found:
            report(f"property oracle fails on the implementation (found while searching around a model/implementation disagreement): {found[1][:3]}",
                   dict(found[0], observed=found[1][:6]))
        else:
            report(f"correspondence 'one regret_min_iteration from the implementation's state = rg_iteration (Regret.v)' no longer holds: {detail} "
                   f"({len(mism)} disagreeing steps)",
                   {"relation": "lock-step: strategies of the state and next state after one iteration", "first_disagreement": rep,
                    "detail": detail, "disagreeing_steps": len(mism), "scheme": list(variant)}, found_input=False)
    # ---- 3. in-Coq evaluation shard
    if True:
        ccases = [(VARIANTS[vi], n, lim, construct_outs[idx * 4 + vi]) for idx, (n, lim) in enumerate(cfgs) if n <= (3 if ctx.quick else 4) and lim <= 12
                  for vi in range(4)]
        scases = [(l, o) for (l, o) in zip(all_lines, outs) if l.split()[4] == "3"][:(12 if ctx.quick else 80)]
        nsh, ok, log = coq_shard(ctx, ccases, scases)
        ctx.coverage["coq_vm_compute_shard"] = {"cases": nsh, "identical_to_extracted_model": ok}
        if not ok:
            report("in-Coq evaluation (vm_compute) of the model disagrees with the extracted OCaml model on the shard",
                   {"relation": "extraction: coqc vm_compute = ocaml driver", "log": log}, found_input=False)
    ctx.coverage["exhaustive"] = False
    ctx.coverage["configurations_constructed"] = len(constructed)
    ctx.coverage["memory_note"] = ("n=5 with a by-id table: len 2^24+1 .. 2^24.8 int64 (128-224 MB virtual, zero pages lazily committed; "
                                   "max RSS measured 68/110/181 MB for limits 1/2/3); model never materialises the table")


# ------------------------------------------------------------------ replay
def replay_history(ctx, rep):
    """Re-run a history on the implementation with the oracle only; returns the failures."""
    from incomplete_cooperative.regret import GameRegretMinimizer
    st, m = impl_construct(rep["n"], rep["lim"], rep["plus"])
    if st != "ok":
        return [f"constructor raises {st}: {m}"]
    cfg = Cfg(rep["n"], rep["lim"], rep["plus"], m)
    fails = [f"before any iteration: {x}" for x in oracle_state(m, cfg)]
    twin = None
    for k, step in enumerate(rep["steps"]):
        if fails and not rep.get("keep_going"):
            break
        state = snapshot(m)
        scale = max([1.0] + [abs(float(x)) for x in step["terminal"]] + [float(np.abs(state[0]).max(initial=0)), float(np.abs(state[1]).max(initial=0))])
        sig = impl_strategies(m, cfg)
        if rep.get("save_at") == k:
            with tempfile.TemporaryDirectory() as td:
                m.save(Path(td))
                twin = GameRegretMinimizer.load(Path(td))
        delta = unclipped_delta(m, step) if rep["plus"] else None
        try:
            impl_iterate(m, step)
            if twin is not None:
                impl_iterate(twin, step)
        except Exception as e:  # noqa: BLE001
            fails.append(f"regret_min_iteration raises {type(e).__name__}: {e} at step {k}")
            break
        if delta is None:
            delta = m.cumulative_regret - state[0]
        if twin is not None and not (np.array_equal(twin.cumulative_regret, m.cumulative_regret, equal_nan=True)
                                     and np.array_equal(twin.cumulative_strategy, m.cumulative_strategy, equal_nan=True)
                                     and twin.iteration == m.iteration):
            fails.append(f"saved-then-loaded minimiser diverges from the original at step {k}")
        fails += [f"after iteration {k + 1}: {x}" for x in oracle_state(m, cfg, prev=state, prev_sigma=sig, delta=delta, scale=scale)[:3]]
    return fails


def replay(ctx, rep):
    if rep.get("kind") == "construct":
        st, m = impl_construct(rep["n"], rep["lim"], rep.get("plus", False))
        fails = oracle_construct(rep["n"], rep["lim"], st, impl_descr(m) if st == "ok" else None)
        if st != "ok":
            fails.append(str(m))
    elif rep.get("kind") == "history":
        fails = replay_history(ctx, rep)
    else:
        print("replay: nothing to re-run on the implementation (a correspondence / proof failure without failing input):")
        print(json.dumps(rep, indent=1, default=str)[:2000])
        return 2
    if fails:
        print("REPRODUCED property=C14:", *fails[:6], sep="\n  ")
        return 1
    print("not reproduced: the oracle passes on this input")
    return 0

"""C01 - soundness of the superadditive bounds (both computers)."""
import boundslib as bl
import campaign

RULE = ("cases = (superadditive game: closure-int / closure-dyadic / unanimity [exact stream, compared bit-for-bit], "
        "closure-float / repository generators [float stream, 1e-9]) x knowledge set K containing the minimal information "
        "(all K for n<=3 quick, n<=4 thorough; size-stratified samples above) x computer in {superadditive, superadditive_cached} "
        "x optional arbitrary stale numbers in unknown rows; plus reveal/un-reveal/bulk-reset/compute histories. "
        "distinct_nontrivial = distinct (computer, n, K, game) whose output has at least one non-degenerate interval.")
TRUSTED = ["model of bounds.py: theories/Bounds.v (hand-written, loop for loop); tie = correspondence on every run",
           "numpy indexing/reduction semantics (np.max/np.min over fancy-indexed arrays) validated by correspondence only"]
ASSUMPTIONS = ["hidden game superadditive (generator-checked exactly), knowledge contains empty/singletons/grand",
               "float stream compared within 1e-9 relative; exact stream bit-for-bit"]
COMPS = ["superadditive", "superadditive_cached"]


def oracle(c, tab):
    return bl.oracle_sound(c["n"], c["v"], c["K"], tab, exact=(c["stream"] == "exact"))


ORACLES = [("C01 soundness oracle (value in [lower,upper], lower<=upper, known rows exact)", oracle)]


def run(ctx, proof):
    if ctx.quick:
        plan = [(2, 3, "all"), (3, 6, "all"), (4, 4, 12), (5, 2, 6), (6, 1, 2)]
        hplan = [(3, 30, 12), (4, 20, 16), (5, 6, 16), (9, 1, 8)]
    else:
        plan = [(2, 10, "all"), (3, 40, "all"), (4, 3, "all"), (4, 30, 40), (5, 20, 30), (6, 6, 10)]
        hplan = [(3, 300, 30), (4, 200, 30), (5, 60, 30), (9, 4, 12), (10, 1, 8)]
    cases = campaign.make_cases(ctx, COMPS, "sa", plan)
    mism = campaign.run_cases(ctx, cases, ORACLES)
    mism += campaign.run_histories(ctx, COMPS, "sa", hplan, ORACLES)
    # beyond 8 players (dtype / table-size limits of the memoised structure): the soundness oracle on the implementation alone
    import games
    big = [(9, 2), (10, 1)] if ctx.quick else [(9, 10), (10, 4), (11, 1)]
    for (n, cnt) in big:
        for _ in range(cnt):
            v, src = campaign.repo_generator_game(ctx.rng, n, campaign.SAM_GENS if ctx.rng.random() < 0.7 else campaign.SA_GENS)
            K = games.random_knowledge(ctx.rng, n) if ctx.rng.random() < 0.5 else \
                sorted(games.minimal_ids(n) + ctx.rng.sample(games.optional_ids(n), ctx.rng.randint(0, 12)))
            for comp in (COMPS if n <= 9 else ["superadditive_cached"]):
                st, tab = bl.impl_compute(comp, n, v, K)
                ctx.evaluations += 1
                ctx.count("n", n)
                if st != "ok":
                    ctx.violation(f"{comp} raised on a superadditive game with the minimal information known (n={n}, {src})",
                                  {"comp": comp, "n": n, "generator": src, "K": K})
                    continue
                fails = bl.oracle_sound(n, v, K, tab, exact=False)
                if fails:
                    ctx.violation(f"C01 soundness oracle fails on the implementation at n={n} ({comp}, {src}): {fails[:3]}",
                                  {"comp": comp, "n": n, "generator": src + " (GENERATORS[name](n, default_rng(seed)))", "K": K,
                                   "failures": str(fails[:5])})
                elif any((not k) and lo != hi for k, lo, hi in tab):
                    ctx.nontrivial.add((comp, n, tuple(K), src))
    import coqshard
    coqshard.cross_check(ctx, cases, limit=8 if ctx.quick else 40)
    campaign.report_mismatches(ctx, mism, ORACLES, "compute_bounds (impl) = compute (Bounds.v model) on the same table")
    ctx.coverage["exhaustive"] = False
    ctx.coverage["knowledge_sets_exhaustive_for_n"] = [2, 3] if ctx.quick else [2, 3, 4]

"""C08 - bounds depend only on current knowledge: idempotent, order-free, undoable."""
import itertools

import numpy as np

import boundslib as bl
import campaign
import games
import opslib

from incomplete_cooperative.bounds import BOUNDS
from incomplete_cooperative.coalitions import Coalition

RULE = ("histories over {set_known_values, reveal, un-reveal, compute} with true or arbitrary values, for EVERY registered "
        "computer (BOUNDS registry) and hidden games of any class (superadditive, SAM, arbitrary integer): "
        "(a) route independence: all orderings of reveals reaching each K for n=3, sampled pairs of routes for n=4,5 "
        "(tables compared bitwise on the implementation alone); (b) idempotence; (c) reveal+compute+un-reveal+compute restores "
        "the table bitwise; (d) stale unknown rows (scalar setters) never change the result; (e) the same histories on the model. "
        "distinct_nontrivial = distinct (computer, n, K, game, route pair) with a non-degenerate interval.")
TRUSTED = ["models: theories/Bounds.v, theories/GameOps.v; tie = correspondence on histories"]
ASSUMPTIONS = ["computations that raise (knowledge without the minimal information) are compared by status only"]


def table_after(comp, n, v, route, stale=None):
    """route: list of coalition ids revealed in order (minimal information first via set_known_values)."""
    g = bl.IncompleteCooperativeGame(n, bl.computer_fn(comp))
    m = games.minimal_ids(n)
    g.set_known_values([float(v[i]) for i in m], [Coalition(i) for i in m])
    g.compute_bounds()
    for i in route:
        g.reveal_value(float(v[i]), Coalition(i))
        g.compute_bounds()
    return g


def any_game(rng, n, klass):
    if klass == "sa":
        return games.sa_closure_game(rng, n, rng.choice(["int", "dyadic"]))
    if klass == "sam":
        return games.sam_game(rng, n, "int")
    return [0] + [rng.randint(-9, 9) for _ in range(2 ** n - 1)]


def regen(ctx):
    import registry_dump
    registry_dump.regen_registry()


def run(ctx, proof):
    rng = ctx.rng
    comps = list(BOUNDS.keys())
    if ctx.quick:
        comps_run = ["superadditive", "superadditive_cached", "sam_apx_1", "sam_apx_10"]
    else:
        comps_run = comps
    ctx.coverage["registered_computers"] = comps
    ctx.coverage["computers_run"] = comps_run
    reps = 2 if ctx.quick else 8
    for comp in comps_run:
        for klass in (["sa", "sam", "arbitrary"]):
            heavy = comp in ("sam_apx_100", "sam_apx_1000")     # 100 / 1000 rounds per compute: fewer and smaller cases
            for n in ([3, 4] if (ctx.quick or heavy) else [3, 4, 5]):
                for _ in range((reps if n < 5 else max(1, reps // 2)) if not heavy else (2 if n == 3 else 1)):
                    v = any_game(rng, n, klass)
                    opt = games.optional_ids(n)
                    if n == 3:
                        subsets = [c for r in range(len(opt) + 1) for c in itertools.combinations(opt, r)]
                    else:
                        subsets = [tuple(rng.sample(opt, rng.randint(2, min(5, len(opt))))) for _ in range(3 if ctx.quick else 8)]
                    for sub in subsets:
                        routes = list(itertools.permutations(sub)) if len(sub) <= 3 else \
                            [tuple(rng.sample(sub, len(sub))) for _ in range(3)]
                        tabs = []
                        for r in routes:
                            g = table_after(comp, n, v, r)
                            tabs.append(bl.table_of(g))
                            ctx.evaluations += 1
                        ctx.count("computer", comp)
                        ctx.count("class", klass)
                        ctx.count("n", n)
                        if any(t != tabs[0] for t in tabs[1:]):
                            ctx.violation(f"route dependence: two reveal orders reaching the same knowledge give different tables ({comp})",
                                          {"comp": comp, "n": n, "v": [str(x) for x in v], "routes": [list(r) for r in routes],
                                           "tables": [str(t) for t in tabs[:3]]})
                        # direct: set_known_values(K) + compute must equal the incremental route
                        K = sorted(games.minimal_ids(n) + list(sub))
                        st, direct = bl.impl_compute(comp, n, v, K)
                        if st == "ok" and direct != tabs[0]:
                            ctx.violation(f"bulk reset + compute differs from incremental reveals ({comp})",
                                          {"comp": comp, "n": n, "v": [str(x) for x in v], "K": K,
                                           "direct": str(direct), "incremental": str(tabs[0])})
                        # stale rows
                        Kset = set(K)
                        stale = {i: (rng.randint(-99, 99), rng.randint(-99, 99)) for i in range(2 ** n) if i not in Kset}
                        st2, with_stale = bl.impl_compute(comp, n, v, K, stale)
                        if st == "ok" and with_stale != direct:
                            ctx.violation(f"stale unknown rows influence the result ({comp})",
                                          {"comp": comp, "n": n, "v": [str(x) for x in v], "K": K, "stale": stale})
                        # idempotence + undo on the object of the first route
                        g = table_after(comp, n, v, routes[0])
                        before = bl.table_of(g)
                        g.compute_bounds()
                        if bl.table_of(g) != before:
                            ctx.violation(f"recomputation is not idempotent ({comp})",
                                          {"comp": comp, "n": n, "v": [str(x) for x in v], "route": list(routes[0])})
                        unknown = [i for i in opt if i not in sub]
                        if unknown:
                            s = rng.choice(unknown)
                            g.reveal_value(float(v[s]), Coalition(s))
                            g.compute_bounds()
                            g.unreveal_value(Coalition(s))
                            g.compute_bounds()
                            if bl.table_of(g) != before:
                                ctx.violation(f"reveal + un-reveal does not restore the bounds ({comp})",
                                              {"comp": comp, "n": n, "v": [str(x) for x in v], "route": list(routes[0]), "coalition": s,
                                               "before": str(before), "after": str(bl.table_of(g))})
                        if any((not k) and lo != hi for k, lo, hi in tabs[0]):
                            ctx.nontrivial.add((comp, n, tuple(K), tuple(map(float, v))))
                    ctx.sample({"computer": comp, "class": klass, "n": n, "v": [float(x) for x in v][:16], "reveal_sets": [list(s) for s in subsets[:3]]}, limit=4)
    # environment level: step / unstep in ANY order (not only last-in-first-out) must leave the bounds, reward and
    # observation of the knowledge that remains - compared with a fresh computation
    import envlib
    from incomplete_cooperative.run.model import GAP_FUNCTIONS
    for _ in range(20 if ctx.quick else 160):
        n = rng.choice([3, 4, 4, 5])
        comp = rng.choice(comps_run)
        klass = "sam" if comp.startswith("sam") else "sa"
        v = any_game(rng, n, klass)
        if klass == "sam" and rng.random() < 0.5:
            # budget games v(S) = -min(k, |S|): many coalitions are pinned down by the bounds before they are revealed, and
            # revealing such a coalition still tightens others under the monotone approximation
            n = rng.choice([4, 5, 5])
            kb = rng.randint(1, n - 1)
            v = [-min(kb, games.popcount(i)) for i in range(2 ** n)]
        gapn = rng.choice(list(GAP_FUNCTIONS.keys()))
        env, _ = envlib.make_env(n, comp, gapn, None, games.minimal_ids(n), [v])
        expl = [c.id for c in env.explorable_coalitions]
        chosen = []
        trace = []
        for _ in range(rng.randint(3, 8)):
            free = [a for a in range(len(expl)) if a not in chosen]
            if chosen and (rng.random() < 0.45 or not free):
                a = rng.choice(chosen)          # any chosen action, not necessarily the last one
                env.unstep(a)
                chosen.remove(a)
                trace.append(("unstep", a))
            elif free:
                a = rng.choice(free)
                env.step(a)
                chosen.append(a)
                trace.append(("step", a))
            K = sorted(games.minimal_ids(n) + [expl[a] for a in chosen])
            st, fresh = bl.impl_compute(comp, n, v, K)
            ctx.evaluations += 1
            if st == "ok" and bl.table_of(env.incomplete_game) != fresh:
                ctx.violation(f"after {trace} the environment's bounds differ from a fresh computation on the same knowledge ({comp})",
                              {"comp": comp, "n": n, "v": [str(x) for x in v], "trace": [list(t) for t in trace], "K": K,
                               "env_table": str(bl.table_of(env.incomplete_game)), "fresh_table": str(fresh)})
                break
        ctx.count("env_traces", comp)
    # budget games v(S) = -min(k, |S|) under the monotone approximations, revealed in random orders: many coalitions are pinned
    # down by the bounds before they are revealed, yet revealing them still tightens other upper bounds
    for n, kb in ([(5, 2), (5, 3), (4, 2)] if ctx.quick else [(nn, kk) for nn in (4, 5, 6) for kk in range(1, nn)]):
        for comp in (["sam_apx_1"] if ctx.quick else ["sam_apx_1", "sam_apx_10"]):
            v = [-min(kb, games.popcount(i)) for i in range(2 ** n)]
            env, _ = envlib.make_env(n, comp, "exploitability", None, games.minimal_ids(n), [v])
            expl = [c.id for c in env.explorable_coalitions]
            found = False
            for walk in range(8 if ctx.quick else 12):
                if found:
                    break
                env.reset()
                order = rng.sample(range(len(expl)), len(expl))[: (10 if walk % 2 else len(expl))]
                chosen = []
                for a in order:
                    env.step(a)
                    chosen.append(a)
                    K = sorted(games.minimal_ids(n) + [expl[x] for x in chosen])
                    st, fresh = bl.impl_compute(comp, n, v, K)
                    ctx.evaluations += 1
                    if st == "ok" and bl.table_of(env.incomplete_game) != fresh:
                        d = [(i, r1, r2) for i, (r1, r2) in enumerate(zip(bl.table_of(env.incomplete_game), fresh)) if r1 != r2][:3]
                        ctx.violation(f"budget game -min({kb},|S|), n={n}, {comp}: after reset and steps {chosen} the environment's bounds differ "
                                      f"from a fresh computation on the same knowledge (id, env row, fresh row): {d}",
                                      {"comp": comp, "n": n, "v": v, "steps": chosen, "K": K, "differences": str(d)})
                        found = True
                        break
            ctx.count("env_traces", comp + "/budget")
    # model correspondence on histories (SA computers on SA games, SAM on SAM games)
    mism = campaign.run_histories(ctx, ["superadditive", "superadditive_cached"], "sa",
                                  [(3, 20, 12), (4, 10, 14)] if ctx.quick else [(3, 200, 30), (4, 150, 30), (5, 40, 30)], [],
                                  alt=True, fresh_check=True)
    # beyond 8 players (table-size / dtype limits of the memoised structure), memoised computers only
    mism += campaign.run_histories(ctx, ["superadditive_cached"], "sa", [(9, 1, 8)] if ctx.quick else [(9, 4, 12), (10, 1, 8)], [],
                                   alt=False, fresh_check=True)
    mism += campaign.run_histories(ctx, ["sam_apx_1"], "sam", [(9, 1, 6)] if ctx.quick else [(9, 3, 10)], [],
                                   alt=False, fresh_check=True)
    mism += campaign.run_histories(ctx, [c for c in comps_run if c.startswith("sam")], "sam",
                                   [(3, 15, 12), (4, 6, 12)] if ctx.quick else [(3, 150, 30), (4, 100, 30), (5, 20, 20)], [],
                                   alt=True, fresh_check=True)
    campaign.report_mismatches(ctx, mism, [], "operation histories: implementation table = GameOps.v/Bounds.v model table after every step")

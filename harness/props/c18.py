"""C18 - coalitions are finite sets in both representations; the predicates decide their textbook definitions.

Three-way comparison on every case:
  implementation (Coalition objects, coalitions.py)  vs  implementation (numpy id arrays, coalition_ids.py)
  vs  model (definitions REGENERATED from coalitions.py + Enum.v/Combs.v/Preds.v, run through the extracted driver)
plus oracles written directly with Python frozensets / Fractions (finite-set semantics, textbook definitions)."""
from __future__ import annotations

import itertools
from fractions import Fraction

import numpy as np

import common
import games
import translate
import translate_ids

RULE = ("operators: every coalition id a < 2^n for n = 1..10 with every player p < n (object operators &,|,-,+,in with a "
        "player, inverted, grand_coalition, player_to_coalition) and every ordered pair (a,b) < 2^n for n <= 5 (quick) / "
        "n <= 6 (thorough) plus random wide pairs (&,|,-,in,==,disjoint_coalitions,exclude_coalition); "
        "enumerations: every (n, c), c < 2^n, n = 1..10: players/len/get_sub_coalitions/get_super_coalitions (objects) and "
        "players/get_size/sub_coalitions/super_coalitions (id arrays), compared as sequences with the model and as sets "
        "with a frozenset oracle, plus out-of-range ids (the asserts), from_players on random lists with duplicates, "
        "powerset/combinations on lists with repeated elements; predicates: all 625 integer games with values in -2..2 "
        "for n = 2, sampled ones for n = 3, structured games (superadditive closure, SAM, convex, additive) and their "
        "one-cell perturbations for n = 3..5, boundary-tolerance games (|lhs - v| exactly on / next to rtol*|v| + atol), "
        "each under several (rtol, atol, tolerance) settings, compared with the model and a brute-force Fraction oracle. "
        "distinct_nontrivial = distinct cases that are not degenerate: pairs with a, b non-empty and different; "
        "(n, c) with c neither empty nor grand; lists with a repeated element; non-constant games.")
TRUSTED = [
    "harness/translate.py (ast-based, fail-closed) maps coalitions.py expressions to Z terms: & | ^ ~ - + == 2**k; "
    "Python int = Z; its output gen/CoalitionGen.v is what gen/CoalitionGenProps.v proves about",
    "harness/translate_ids.py (ast-based, fail-closed) maps coalition_ids.py to terms over theories/NpArr.v (hand-written "
    "meaning of np.arange, 2**a, & | ^ with a scalar, != 0, == scalar, boolean-mask indexing, .sum(), np.max(initial=), "
    "assert = None); its output gen/CoalitionIdsGen.v is proved equal to the Enum.v id-array model in "
    "gen/CoalitionIdsGenProps.v; int32 wrap-around is outside (ids < 2^31)",
    "models of the loops (players, __len__, from_players, get_sub/super_coalitions, coalition_ids.*, predicates): "
    "theories/Enum.v, Preds.v, hand-written loop for loop; tie = correspondence on every run",
    "itertools.combinations / chain order modelled by theories/Combs.v (checked by correspondence on every run)",
    "numpy semantics (arange, boolean-mask indexing, |, ^, fancy indexing, np.all, np.isclose formula "
    "|a-b| <= atol + rtol*|b| on finite values) validated by correspondence only",
]
ASSUMPTIONS = [
    "coalition ids are non-negative Python ints / np.int32 below 2^31; player indices are non-negative ints",
    "predicates: finite game values; exact stream only (integers / dyadics, dyadic tolerances) so float evaluation is exact; "
    "NaN / inf are outside the model",
    "is_sam is compared at the documented default rtol = 1e-9 (as a float), atol = 0",
]

DEFAULT_RTOL = 1e-9
DEFAULT_TOL = 1e-10


def regen(ctx):
    translate.regen_all()
    translate_ids.regen_coalition_ids()


def viol(ctx, what, rep, found_input=True):
    """One violation per kind (the first, i.e. smallest, failing input); the rest are only counted."""
    k = ctx.coverage.setdefault("violations_by_kind", {})
    k[what] = k.get(what, 0) + 1
    if k[what] == 1:
        ctx.violation(what, rep, found_input=found_input)


# ------------------------------------------------------------------ in-Coq shard (takes extraction out of the trusted base for a sample)
SHARD: list = []          # (coq expression, expected value as a Coq term) ; expected = what the extracted driver printed


def cz(x): return f"({x})%Z"
def cn(x): return f"{x}%N"
def cnat(x): return f"{x}%nat"
def cb(x): return "true" if x else "false"
def clist(xs, f): return "[" + "; ".join(f(x) for x in xs) + "]"
def copt(x, f): return "None" if x == "err" else f"(Some {f(x)})"


def cq(fr: Fraction) -> str:
    return f"(({fr.numerator}) # {fr.denominator})%Q"


def run_shard(ctx) -> None:
    """Evaluate the sampled cases inside Coq (vm_compute) and require the values the extracted OCaml driver printed."""
    import subprocess
    if not SHARD:
        return
    lines = ["From Coq Require Import ZArith NArith QArith List.", "Import ListNotations.",
             "From ICG Require Import Bits Combs Enum Preds CoalitionGen.",
             "Definition g (l : list Q) : N -> Q := fun s => nth (N.to_nat s) l 0%Q."]
    for i, (e, v) in enumerate(SHARD):
        lines.append(f"Example shard_{i} : {e} = {v}. Proof. vm_compute. reflexivity. Qed.")
    f = ctx.work / "cases_C18.v"
    f.write_text("\n".join(lines) + "\n")
    lock = common._lock()
    try:
        p = subprocess.run(["timeout", "600", "coqc", "-Q", "theories", "ICG", str(f)], cwd=common.COQ,
                           capture_output=True, text=True)
    finally:
        lock.close()
    ctx.coverage["in_coq_shard_cases"] = len(SHARD)
    ctx.coverage["in_coq_shard_ok"] = p.returncode == 0
    if p.returncode != 0:
        viol(ctx, "extracted model (OCaml driver) and in-Coq evaluation (vm_compute) of the same model disagree, or the shard does not compile",
             {"relation": "driver output = vm_compute of the model", "log": (p.stdout + p.stderr)[-1500:]}, found_input=False)


# ------------------------------------------------------------------ set oracle helpers
def fs(a: int) -> frozenset:
    return frozenset(i for i in range(a.bit_length()) if (a >> i) & 1)


def mask(s) -> int:
    return sum(1 << i for i in set(s))


def ints(xs) -> list[int]:
    return [int(x) for x in xs]


# ------------------------------------------------------------------ A. operators
def impl_player_line(n: int, a: int):
    from incomplete_cooperative.coalitions import Coalition, grand_coalition, player_to_coalition
    A = Coalition(a)
    out = []
    for p in range(n):
        out += [(A & p).id, (A | p).id, (A - p).id, (A + p).id, int(p in A)]
    out += [A.inverted(n).id, grand_coalition(n).id]
    out += [player_to_coalition(p).id for p in range(n)]
    return out


def oracle_player_line(n: int, a: int):
    sa = fs(a)
    out = []
    for p in range(n):
        out += [mask(sa & {p}), mask(sa | {p}), mask(sa - {p}), mask(sa | {p}), int(p in sa)]
    out += [mask(set(range(n)) - sa), mask(range(n))]
    out += [mask({p}) for p in range(n)]
    return out


def impl_pair_line(a: int, b: int):
    from incomplete_cooperative.coalitions import Coalition, disjoint_coalitions, exclude_coalition
    A, B = Coalition(a), Coalition(b)
    kept = list(exclude_coalition(B, [A]))
    return [(A & B).id, (A | B).id, (A - B).id, int(B in A), int(A in B), int(A == B),
            int(bool(disjoint_coalitions(A, B))), int(len(kept) == 1 and kept[0] is A)]


def oracle_pair_line(a: int, b: int):
    sa, sb = fs(a), fs(b)
    return [mask(sa & sb), mask(sa | sb), mask(sa - sb), int(sb <= sa), int(sa <= sb), int(sa == sb),
            int(not (sa & sb)), int(not (sa & sb))]


def run_operators(ctx):
    mism = []
    # --- players x coalitions, n = 1..10
    cases = [(n, a) for n in range(1, 11) for a in range(2 ** n)]
    lines = [f"c18player {n} {a}" for (n, a) in cases]
    outs = common.run_driver_parallel(lines)
    for (n, a), o in zip(cases, outs):
        ctx.evaluations += 1
        model = [int(x) for x in o.split()]
        impl = impl_player_line(n, a)
        orc = oracle_player_line(n, a)
        ctx.count("operator_cases_by_n", n)
        if 0 < a < 2 ** n - 1:
            ctx.nontrivial.add(("player", n, a))
        if impl != orc:
            viol(ctx, "Coalition operator with a player / inverted / grand_coalition / player_to_coalition differs from finite-set semantics",
                          {"n": n, "coalition_id": a, "layout": "per player p<n: [A&p, A|p, A-p, A+p, p in A]; then inverted(n), grand(n), player_to_coalition(p)...",
                           "observed": impl, "expected": orc}, found_input=True)
        elif impl != model:
            mism.append({"relation": "object operators (player branch) = generated definitions (extracted)", "n": n, "a": a,
                         "impl": impl, "model": model})
    ctx.sample({"kind": "c18player", "n": 3, "a": 5, "impl": impl_player_line(3, 5)})
    # --- pairs
    nmax = 5 if ctx.quick else 6
    pairs = [(a, b) for a in range(2 ** nmax) for b in range(2 ** nmax)]
    nrand = 300 if ctx.quick else 3000
    for _ in range(nrand):
        w = ctx.rng.choice([7, 8, 9, 10, 16, 31, 40, 60])
        pairs.append((ctx.rng.getrandbits(w), ctx.rng.getrandbits(w)))
    shard_p = (12 if ctx.quick else 60) / len(pairs)
    lines = [f"c18pair {a} {b}" for (a, b) in pairs]
    outs = common.run_driver_parallel(lines)
    for (a, b), o in zip(pairs, outs):
        ctx.evaluations += 1
        model = [int(x) for x in o.split()]
        impl = impl_pair_line(a, b)
        orc = oracle_pair_line(a, b)
        ctx.count("pair_cases_by_width", max(a.bit_length(), b.bit_length()))
        if a and b and a != b:
            ctx.nontrivial.add(("pair", a, b))
        if ctx.rng.random() < shard_p:
            za, zb = cz(a), cz(b)
            SHARD.append((f"(gen_and {za} {zb}, gen_or {za} {zb}, gen_sub {za} {zb}, gen_contains {za} {zb}, gen_contains {zb} {za}, "
                          f"gen_eq {za} {zb}, gen_disjoint {za} {zb}, gen_exclude_keep {za} {zb})",
                          "(" + ", ".join([cz(x) for x in model[:3]] + [cb(x) for x in model[3:]]) + ")"))
        if impl != orc:
            viol(ctx, "Coalition operator on two coalitions differs from finite-set semantics",
                          {"a": a, "b": b, "layout": "[A&B, A|B, A-B, B in A, A in B, A==B, disjoint_coalitions, exclude_coalition(B,[A]) keeps A]",
                           "observed": impl, "expected": orc}, found_input=True)
        elif impl != model:
            mism.append({"relation": "object operators (coalition branch) = generated definitions (extracted)", "a": a, "b": b,
                         "impl": impl, "model": model})
    ctx.sample({"kind": "c18pair", "a": 5, "b": 3, "impl": impl_pair_line(5, 3)})
    # --- exclude_coalition over a whole iterable (order and multiplicity preserved)
    from incomplete_cooperative.coalitions import Coalition, all_coalitions, exclude_coalition
    for n in range(1, 6):
        for e in range(2 ** n):
            ctx.evaluations += 1
            got = [c.id for c in exclude_coalition(Coalition(e), all_coalitions(n))]
            exp = [c for c in range(2 ** n) if not (c & e)]
            if got != exp:
                viol(ctx, "exclude_coalition does not keep exactly the coalitions disjoint from `exclude`, in order",
                              {"n": n, "exclude": e, "observed": got, "expected": exp}, found_input=True)
    ctx.coverage["pairs_exhaustive_below_2_pow"] = nmax
    return mism


# ------------------------------------------------------------------ B. enumerations
def impl_enum(n: int, c: int):
    from incomplete_cooperative import coalition_ids as cid
    from incomplete_cooperative.coalitions import Coalition, get_sub_coalitions, get_super_coalitions
    C = Coalition(c)
    ci = cid.CoalitionId(c)
    return {
        "players": ints(C.players), "len": len(C),
        "ids_players": ints(cid.players(ci, n)), "ids_size": int(cid.get_size(ci, n)),
        "sub_obj": [x.id for x in get_sub_coalitions(C)], "sub_ids": ints(cid.sub_coalitions(ci, n)),
        "super_obj": [x.id for x in get_super_coalitions(C, n)], "super_ids": ints(cid.super_coalitions(ci, n)),
    }


def parse_list(tok):
    k = int(tok[0])
    return [int(x) for x in tok[1:1 + k]], tok[1 + k:]


def parse_enum(o: str):
    parts = [p.split() for p in o.split("|")]

    def lst(p):
        if p and p[0] == "err":
            return "err"
        if p and p[0] == "ok":
            p = p[1:]
        return parse_list(p)[0]
    return {"players": lst(parts[0]), "len": int(parts[1][0]), "ids_players": lst(parts[2]),
            "ids_size": "err" if parts[3][0] == "err" else int(parts[3][1]),
            "sub_obj": lst(parts[4]), "sub_ids": lst(parts[5]), "super_obj": lst(parts[6]), "super_ids": lst(parts[7])}


def oracle_enum(n: int, c: int, r) -> str | None:
    """Finite-set semantics of the listing / enumeration functions, stated on the implementation's own output."""
    pl = sorted(fs(c))
    if r["players"] != pl or r["ids_players"] != pl:
        return "players must list exactly the members in increasing order"
    if r["len"] != len(pl) or r["ids_size"] != len(pl):
        return "size must be the number of members"
    subs = {x for x in range(c + 1) if x & c == x}
    sups = {x for x in range(2 ** n) if x & c == c}
    for key, exp in (("sub_obj", subs), ("sub_ids", subs), ("super_obj", sups), ("super_ids", sups)):
        if len(set(r[key])) != len(r[key]):
            return f"{key} lists a coalition twice"
        if set(r[key]) != exp:
            return f"{key} is not exactly the set of {'sub' if key.startswith('sub') else 'super'}-coalitions"
    if r["sub_ids"] != sorted(r["sub_ids"]):
        return "sub_ids not in increasing id order"
    return None


def run_enumerations(ctx):
    mism = []
    nmax = 10
    cases = [(n, c) for n in range(1, nmax + 1) for c in range(2 ** n)]
    lines = [f"c18enum {n} {c}" for (n, c) in cases]
    outs = common.run_driver_parallel(lines)
    for (n, c), o in zip(cases, outs):
        ctx.evaluations += 1
        ctx.count("enum_cases_by_n", n)
        if 0 < c < 2 ** n - 1:
            ctx.nontrivial.add(("enum", n, c))
        impl = impl_enum(n, c)
        model = parse_enum(o)
        if n <= 8 and ctx.rng.random() < (12 if ctx.quick else 60) / 510:
            SHARD.append((f"(en_players {cn(c)}, en_len {cn(c)}, en_ids_players {cnat(n)} {cn(c)}, en_ids_size {cnat(n)} {cn(c)}, "
                          f"en_sub_obj {cn(c)}, en_ids_sub {cnat(n)} {cn(c)}, en_super_obj {cnat(n)} {cn(c)}, en_ids_super {cnat(n)} {cn(c)})",
                          "(" + ", ".join([clist(model["players"], cnat), cnat(model["len"]), copt(model["ids_players"], lambda l: clist(l, cnat)),
                                           copt(model["ids_size"], cnat), clist(model["sub_obj"], cn), copt(model["sub_ids"], lambda l: clist(l, cn)),
                                           clist(model["super_obj"], cn), copt(model["super_ids"], lambda l: clist(l, cn))]) + ")"))
        bad = oracle_enum(n, c, impl)
        if bad:
            viol(ctx, "coalition listing / enumeration differs from finite-set semantics: " + bad,
                          {"n": n, "coalition_id": c, "observed": impl}, found_input=True)
        elif impl != model:
            diff = [k for k in impl if impl[k] != model[k]]
            mism.append({"relation": "enumeration order: implementation sequence = model sequence (Enum.v)", "n": n, "c": c,
                         "fields": diff, "impl": {k: impl[k] for k in diff}, "model": {k: model[k] for k in diff}})
    ctx.sample({"kind": "c18enum", "n": 3, "c": 5, "impl": impl_enum(3, 5)})
    # python-int arguments (callers outside game_properties pass plain ints)
    from incomplete_cooperative import coalition_ids as cid
    for n in (1, 3, 6):
        for c in range(2 ** n):
            ctx.evaluations += 1
            a = ints(cid.sub_coalitions(c, n)), ints(cid.super_coalitions(c, n)), ints(cid.players(c, n)), int(cid.get_size(c, n))
            ci = cid.CoalitionId(c)
            b = ints(cid.sub_coalitions(ci, n)), ints(cid.super_coalitions(ci, n)), ints(cid.players(ci, n)), int(cid.get_size(ci, n))
            if a != b:
                viol(ctx, "coalition_ids functions give different results for int and np.int32 arguments",
                              {"n": n, "coalition_id": c, "with_int": a, "with_int32": b}, found_input=True)
    # out-of-range ids: all four id functions must refuse (assert), and the model says None
    oor = [(n, 2 ** n + d) for n in range(1, 8) for d in (0, 1, 2 ** n - 1, 2 ** n)]
    outs = common.run_driver([f"c18ids {n} {c}" for (n, c) in oor])
    for (n, c), o in zip(oor, outs):
        ctx.evaluations += 1
        ctx.nontrivial.add(("oor", n, c))
        st = []
        for f in (cid.players, cid.get_size, cid.sub_coalitions, cid.super_coalitions):
            try:
                f(cid.CoalitionId(c), n)
                st.append("ok")
            except AssertionError:
                st.append("err")
        model = [p.split()[0] for p in o.split("|")]
        if st != ["err"] * 4:
            viol(ctx, "coalition_ids function accepts a coalition id >= 2^number_of_players (documented assert missing)",
                          {"n": n, "coalition_id": c, "order": ["players", "get_size", "sub_coalitions", "super_coalitions"],
                           "observed": st, "expected": ["err"] * 4}, found_input=True)
        elif st != model:
            mism.append({"relation": "assert behaviour of coalition_ids = None in the model", "n": n, "c": c, "impl": st, "model": model})
    # from_players: duplicates collapse, order irrelevant
    from incomplete_cooperative.coalitions import Coalition
    fcases = [[], [0], [0, 0], [3, 1, 3, 1, 0], [9, 9, 9]]
    for _ in range(200 if ctx.quick else 2000):
        k = ctx.rng.randrange(0, 9)
        fcases.append([ctx.rng.randrange(0, 12) for _ in range(k)])
    outs = common.run_driver_parallel([f"c18from {len(l)} " + " ".join(map(str, l)) for l in fcases])
    for l, o in zip(fcases, outs):
        ctx.evaluations += 1
        if len(set(l)) < len(l):
            ctx.nontrivial.add(("from", tuple(l)))
        parts = [p.split() for p in o.split("|")]
        model = (int(parts[0][0]), parse_list(parts[1])[0], int(parts[2][0]))
        Cc = Coalition.from_players(l)
        Ct = Coalition.from_players(tuple(reversed(l)))
        impl = (Cc.id, ints(Cc.players), len(Cc))
        if impl != (mask(l), sorted(set(l)), len(set(l))) or Ct.id != Cc.id:
            viol(ctx, "from_players / players / len do not round-trip through the player set",
                          {"players": l, "observed": impl, "expected": (mask(l), sorted(set(l)), len(set(l)))}, found_input=True)
        elif impl != model:
            mism.append({"relation": "from_players (impl) = en_from_players (model)", "players": l, "impl": impl, "model": model})
    ctx.sample({"kind": "c18from", "players": [3, 1, 3, 1, 0], "impl_id": Coalition.from_players([3, 1, 3, 1, 0]).id})
    # powerset / combinations: order, also with repeated elements (the model is generic in the element type)
    from incomplete_cooperative.functoolz import powerset
    lists = [list(range(m)) for m in range(0, 7 if ctx.quick else 9)]
    for _ in range(20 if ctx.quick else 100):
        lists.append([ctx.rng.randrange(0, 4) for _ in range(ctx.rng.randrange(0, 7))])
    plines = [f"c18powerset {len(l)} " + " ".join(map(str, l)) for l in lists]
    clines, cc = [], []
    for l in lists:
        for k in range(len(l) + 2):
            clines.append(f"c18combs {k} {len(l)} " + " ".join(map(str, l)))
            cc.append((k, l))
    outs = common.run_driver_parallel(plines + clines)

    def parse_ll(s):
        items = s.split(";")
        return [tuple(int(x) for x in it.split()) for it in items[1:]]
    import math
    for l, o in zip(lists, outs[:len(lists)]):
        ctx.evaluations += 1
        ctx.nontrivial.add(("powerset", tuple(l)))
        impl = [tuple(x) for x in powerset(l)]
        model = parse_ll(o)
        # oracle: every index subset exactly once, by increasing size, lexicographic in the indices
        exp = [tuple(l[i] for i in idx) for k in range(len(l) + 1)
               for idx in sorted(set(tuple(sorted(s)) for s in itertools.permutations(range(len(l)), k)))] if len(l) <= 6 else impl
        if impl != exp:
            viol(ctx, "powerset does not enumerate every index subset once, by size then lexicographically",
                          {"list": l, "observed": impl, "expected": exp}, found_input=True)
        elif impl != model:
            mism.append({"relation": "functoolz.powerset (impl) = cb_powerset (model), as sequences", "list": l,
                         "impl": impl, "model": model})
    for (k, l), o in zip(cc, outs[len(lists):]):
        ctx.evaluations += 1
        impl = [tuple(x) for x in itertools.combinations(l, k)]
        body, _, cnt = o.partition("|")
        model = parse_ll(body)
        if impl != model or int(cnt) != math.comb(len(l), k) or len(impl) != int(cnt):
            mism.append({"relation": "itertools.combinations = cb_combs (model), as sequences; count = cb_binom", "k": k, "list": l,
                         "impl": impl, "model": model, "model_binom": int(cnt)})
    ctx.coverage["enumerations_exhaustive_for_n"] = list(range(1, nmax + 1))
    return mism


# ------------------------------------------------------------------ C. predicates
class StubGame:
    """Minimal object satisfying the Game protocol: a plain value vector indexed by coalition id."""

    def __init__(self, n, values):
        self.number_of_players = n
        self._v = np.array([float(x) for x in values], dtype=np.float64)

    def get_values(self, coalitions=None):
        if coalitions is None:
            return self._v.copy()
        return self._v[[c.id for c in coalitions]]

    def get_value(self, coalition):
        return self._v[coalition.id]

    def copy(self):
        return StubGame(self.number_of_players, self._v)

    def __add__(self, other):
        return StubGame(self.number_of_players, self._v + other._v)


def real_game(n, values):
    from incomplete_cooperative.game import IncompleteCooperativeGame
    g = IncompleteCooperativeGame(n)
    g.set_values(np.array([float(x) for x in values]))
    return g


def oracle_sa(n, v, rtol, atol) -> bool:
    """Textbook: for all disjoint A, B: v(A)+v(B) <= v(A u B), or within the documented tolerance."""
    for a in range(2 ** n):
        for b in range(2 ** n):
            if a & b == 0:
                lhs, u = v[a] + v[b], v[a | b]
                if not (lhs <= u or abs(lhs - u) <= atol + rtol * abs(u)):
                    return False
    return True


def oracle_mono(n, v) -> bool:
    return all(v[b] <= v[a] for b in range(2 ** n) for a in range(2 ** n) if a & b == a)


def supermod_violations(n, v, tol):
    """Textbook (increasing differences): all (T, S, i) with i not in T, S strict subset of T and
    v(S+i) - v(S) > v(T+i) - v(T) + tol."""
    for t in range(2 ** n):
        for i in range(n):
            if (t >> i) & 1:
                continue
            for s in range(t):
                if s & t == s and (v[s | 1 << i] - v[s]) > (v[t | 1 << i] - v[t]) + tol:
                    yield (t, s, i)


def impl_preds(n, v, rtol, atol, tol, real=False):
    from incomplete_cooperative.game_properties import is_monotone_decreasing, is_sam, is_superadditive
    from incomplete_cooperative.supermodularity_check import check_supermodularity
    g = real_game(n, v) if real else StubGame(n, v)
    try:
        sa = bool(is_superadditive(g, rtol=float(rtol), atol=float(atol)))
    except TypeError:
        # the absolute tolerance is an optional extra of the signature, the statement only documents the relative one
        sa = bool(is_superadditive(g, rtol=float(rtol))) if atol == 0 else None
    sa_default = bool(is_superadditive(g))
    mono = bool(is_monotone_decreasing(g))
    sam = bool(is_sam(g))
    r = check_supermodularity(g, float(tol))
    sm = None if r is None else (int(r[0].id), int(r[1].id), int(r[2]))
    sm_default = check_supermodularity(g)
    sm_default = None if sm_default is None else (int(sm_default[0].id), int(sm_default[1].id), int(sm_default[2]))
    return {"sa": sa, "sa_default": sa_default, "mono": mono, "sam": sam, "sm": sm, "sm_default": sm_default}


def pred_games(ctx):
    """(n, values as Fractions, source label)"""
    rng = ctx.rng
    out = []
    for vals in itertools.product(range(-2, 3), repeat=4):
        out.append((2, [Fraction(x) for x in vals], "lattice-n2"))
    for _ in range(250 if ctx.quick else 4000):
        out.append((3, [Fraction(rng.randrange(-2, 3)) for _ in range(8)], "lattice-n3"))
    # structured games and one-cell perturbations (so that both answers of every predicate occur near the boundary)
    plan = [(3, 40), (4, 16), (5, 4)] if ctx.quick else [(3, 400), (4, 150), (5, 40), (6, 6)]
    for n, k in plan:
        for j in range(k):
            kind = j % 6
            if kind == 0:
                v, src = games.sa_closure_game(rng, n, "int"), "sa-closure-int"
            elif kind == 1:
                v, src = games.sa_closure_game(rng, n, "dyadic"), "sa-closure-dyadic"
            elif kind == 2:
                v, src = games.sam_game(rng, n, "int"), "sam-int"
            elif kind == 3:
                v, src = games.unanimity_game(rng, n), "unanimity(convex)"
            elif kind == 4:
                w = [rng.randrange(-3, 4) for _ in range(n)]
                v, src = [sum(w[i] for i in range(n) if (s >> i) & 1) for s in range(2 ** n)], "additive"
            else:
                e = rng.choice([1, 2])
                sign = rng.choice([1, -1])
                v, src = [sign * games.popcount(s) ** e for s in range(2 ** n)], "symmetric |S|^e"
            v = [Fraction(x) for x in v]
            if len(v) != 2 ** n:
                continue
            out.append((n, v, src))
            for _ in range(2):
                w = list(v)
                s = rng.randrange(2 ** n)
                w[s] += rng.choice([-2, -1, Fraction(-1, 2), Fraction(1, 2), 1, 2])
                out.append((n, w, src + "+perturbed"))
    return out


def boundary_cases(ctx):
    """Games whose only critical inequality v({0}) + v({1}) <= v({0,1}) misses by exactly atol + rtol*|v({0,1})| + delta,
    delta in {0, +eps, -eps}.  All numbers are dyadic with few bits, so the float evaluation in the implementation is exact.
    For n = 3 the 2-player game is extended additively by a third player (same critical inequality, twice)."""
    rng = ctx.rng
    out = []
    eps = Fraction(1, 2 ** 20)
    for n in (2, 3):
        for _ in range(12 if ctx.quick else 150):
            rtol = Fraction(1, 2 ** rng.randrange(1, 6))
            atol = rng.choice([Fraction(0), Fraction(1, 4), Fraction(1)])
            x = Fraction(rng.choice([1, -1]) * rng.randrange(0, 64) * 32)
            a = Fraction(rng.randrange(-40, 40))
            m = Fraction(rng.randrange(-5, 6))
            for delta, lab in ((Fraction(0), "0"), (eps, "+eps"), (-eps, "-eps")):
                gap = atol + rtol * abs(x) + delta
                base = [Fraction(0), a, x + gap - a, x]
                v = base if n == 2 else base + [b + m for b in base]
                out.append((n, v, rtol, atol, "boundary delta=" + lab))
    return out


def run_predicates(ctx):
    mism = []
    settings = [(Fraction(DEFAULT_RTOL), Fraction(0), Fraction(DEFAULT_TOL)),
                (Fraction(0), Fraction(0), Fraction(0)),
                (Fraction(1, 2), Fraction(0), Fraction(1)),
                (Fraction(0), Fraction(1), Fraction(1, 2)),
                (Fraction(1, 4), Fraction(1, 2), Fraction(2))]
    cases = []
    for gi, (n, v, src) in enumerate(pred_games(ctx)):
        if src == "lattice-n2":
            for st in settings:
                cases.append((n, v, st[0], st[1], st[2], src))
        else:
            st = settings[gi % len(settings)]
            cases.append((n, v, st[0], st[1], st[2], src))
            if gi % 3 == 0:
                cases.append((n, v) + settings[0] + (src,))
    for (n, v, rtol, atol, src) in boundary_cases(ctx):
        cases.append((n, v, rtol, atol, Fraction(0), src))
    lines = []
    for (n, v, rtol, atol, tol, src) in cases:
        lines.append(f"c18pred {n} {common.qtok(rtol)} {common.qtok(atol)} {common.qtok(tol)} " + " ".join(common.qtok(x) for x in v))
    # is_sam / defaults are evaluated by the model at the documented defaults: second driver line per case
    dlines = []
    for (n, v, rtol, atol, tol, src) in cases:
        dlines.append(f"c18pred {n} {common.qtok(Fraction(DEFAULT_RTOL))} 0/1 {common.qtok(Fraction(DEFAULT_TOL))} " + " ".join(common.qtok(x) for x in v))
    outs = common.run_driver_parallel(lines + dlines)
    o1, o2 = outs[:len(lines)], outs[len(lines):]

    def parse(o):
        p = [x.split() for x in o.split("|")]
        b = {"1": True, "0": False, "err": "err"}
        sm = None if p[3][0] == "none" else tuple(int(x) for x in p[3])
        return {"sa": b[p[0][0]], "mono": b[p[1][0]], "sam": b[p[2][0]], "sm": sm}

    seen_answers = {}
    for idx, ((n, v, rtol, atol, tol, src), a, d) in enumerate(zip(cases, o1, o2)):
        ctx.evaluations += 1
        if len(set(v)) > 1:
            ctx.nontrivial.add((n, tuple(v), rtol, atol, tol))
        impl = impl_preds(n, v, rtol, atol, tol, real=(idx % 7 == 3))
        ma, md = parse(a), parse(d)
        model = {"sa": ma["sa"], "sa_default": md["sa"], "mono": ma["mono"], "sam": md["sam"], "sm": ma["sm"], "sm_default": md["sm"]}
        if n <= 4 and ctx.rng.random() < (12 if ctx.quick else 80) / len(cases):
            gv = "(g " + clist(v, cq) + ")"
            ob = lambda x: "None" if x == "err" else f"(Some {cb(x)})"   # noqa: E731
            sm = "None" if ma["sm"] is None else f"(Some ({cn(ma['sm'][0])}, {cn(ma['sm'][1])}, {cnat(ma['sm'][2])}))"
            SHARD.append((f"(pd_is_superadditive {cnat(n)} {gv} {cq(rtol)} {cq(atol)}, pd_is_monotone_decreasing {cnat(n)} {gv}, "
                          f"pd_is_sam {cnat(n)} {gv} {cq(rtol)}, pd_check_supermodularity {cnat(n)} {gv} {cq(tol)})",
                          f"({ob(ma['sa'])}, {ob(ma['mono'])}, {ob(ma['sam'])}, {sm})"))
        ctx.count("predicate_cases_by_source", src.split(" ")[0])
        ctx.count("predicate_cases_by_n", n)
        for k in ("sa", "mono", "sam"):
            ctx.count("answers_" + k, impl[k])
        ctx.count("answers_supermodular", impl["sm"] is None)
        seen_answers.setdefault(src.split(" ")[0], set()).add(impl["sa"])
        # textbook oracles on the implementation's answers (exact rational arithmetic)
        drt = Fraction(DEFAULT_RTOL)
        exp = {"sa": oracle_sa(n, v, rtol, atol), "sa_default": oracle_sa(n, v, drt, 0), "mono": oracle_mono(n, v)}
        exp["sam"] = exp["sa_default"] and exp["mono"]
        rep = {"n": n, "values_by_coalition_id": [str(x) for x in v], "rtol": str(rtol), "atol": str(atol),
               "tolerance": str(tol), "source": src}
        bad = False
        if impl["sa"] is None:          # no atol parameter: that setting cannot be asked
            ctx.count("atol_setting_not_supported_by_signature", 1)
            impl = dict(impl, sa=exp["sa"])
            model = dict(model, sa=exp["sa"])
        for k in ("sa", "sa_default", "mono", "sam"):
            if impl[k] != exp[k]:
                bad = True
                viol(ctx, {"sa": "is_superadditive(rtol, atol)", "sa_default": "is_superadditive (defaults)", "mono": "is_monotone_decreasing",
                               "sam": "is_sam"}[k] + " does not decide its textbook definition",
                              dict(rep, predicate=k, observed=impl[k], expected=exp[k]), found_input=True)
        for k, t in (("sm", tol), ("sm_default", Fraction(DEFAULT_TOL))):
            first_v = list(itertools.islice(supermod_violations(n, v, t), 1))
            if (impl[k] is None) != (not first_v):
                bad = True
                viol(ctx, "check_supermodularity answers None although increasing differences fail (or reports a violation on a supermodular game)",
                              dict(rep, tolerance=str(t), observed=impl[k], a_textbook_violation=first_v[:1]), found_input=True)
            elif impl[k] is not None and impl[k] not in set(supermod_violations(n, v, t)):
                bad = True
                viol(ctx, "check_supermodularity reports a triple (T, S, i) that is not a violation of increasing differences",
                              dict(rep, tolerance=str(t), observed=impl[k]), found_input=True)
        if not bad and impl != model:
            diff = [k for k in impl if impl[k] != model[k]]
            mism.append({"relation": "predicates: implementation answer (incl. first reported witness) = model (Preds.v)", **rep,
                         "fields": diff, "impl": {k: impl[k] for k in diff}, "model": {k: model[k] for k in diff}})
        if idx in (0, 700, len(cases) - 1):
            ctx.sample({"kind": "c18pred", **rep, "impl": impl})
    ctx.coverage["predicate_games_exhaustive"] = "n=2, values in -2..2 (625 games) x 5 tolerance settings"
    return mism


# ------------------------------------------------------------------ C'. predicates, float stream
def sa_margin(n, v, rtol, atol, m) -> bool:
    """Superadditive-with-tolerance where every comparison is shifted by m (m<0: stricter, m>0: more lenient)."""
    for a in range(2 ** n):
        for b in range(a, 2 ** n):
            if a & b == 0:
                u = v[a | b]
                # with the empty coalition at value 0 the float sum is exact (x + 0.0 == x): no margin
                mm = 0 if (a == 0 and v[0] == 0) else m
                if v[a] + v[b] - u > max(Fraction(0), atol + rtol * abs(u)) + mm:
                    return False
    return True


def supermod_margin(n, v, tol, m) -> bool:
    return next(supermod_violations(n, v, tol + m), None) is None


def run_float_predicates(ctx):
    """Arbitrary doubles at the documented default tolerances.  Values are converted exactly to rationals for the model and
    the oracle; float rounding inside the implementation (one addition / one multiplication per comparison) is far below the
    margin m = 1e-12 * scale, so a case is compared only when the strict and the lenient oracle agree (else: counted ambiguous)."""
    import campaign
    rng = ctx.rng
    mism = []
    plan = [(3, 40), (4, 20), (5, 6)] if ctx.quick else [(3, 400), (4, 200), (5, 60), (6, 8)]
    gl = []
    for n, k in plan:
        for j in range(k):
            kind = j % 4
            if kind == 0:
                v, src = [rng.uniform(-1, 1) for _ in range(2 ** n)], "uniform-float"
            elif kind == 1:
                v, src = [float(x) for x in games.sa_closure_game(rng, n, "float")], "sa-closure-float"
            elif kind == 2:
                try:
                    v, src = campaign.repo_generator_game(rng, n, campaign.SAM_GENS if j % 8 == 2 else campaign.SA_GENS)
                except Exception as e:  # noqa: BLE001  (generators are C10's business)
                    ctx.notes.append(f"repository generator failed while building a float game: {e!r}")
                    continue
            else:
                base = games.sam_game(rng, n, "dyadic")
                v, src = [float(x) * (1 + rng.uniform(-1e-3, 1e-3)) for x in base], "sam-float-noisy"
            if len(v) == 2 ** n:
                # the tolerance is documented as RELATIVE: a third of the games is rescaled far below / above 1
                sc = [1.0, 1.0, 1.0, 1e-9, 1e-12, 1e6][j % 6] if kind != 2 else [1.0, 1e-10][j % 2]
                if sc != 1.0:
                    v, src = [float(x) * sc for x in v], src + f" x{sc:g}"
                gl.append((n, [Fraction(float(x)) for x in v], src))
    drt, dtol = Fraction(DEFAULT_RTOL), Fraction(DEFAULT_TOL)
    outs = common.run_driver_parallel([f"c18pred {n} {common.qtok(drt)} 0/1 {common.qtok(dtol)} " + " ".join(common.qtok(x) for x in v)
                                       for (n, v, _) in gl])
    b = {"1": True, "0": False, "err": "err"}
    amb = 0
    for (n, v, src), o in zip(gl, outs):
        ctx.evaluations += 1
        ctx.nontrivial.add(("float", n, tuple(v)))
        ctx.count("float_predicate_cases_by_source", src.split("@")[0])
        p = [x.split() for x in o.split("|")]
        model = {"sa": b[p[0][0]], "mono": b[p[1][0]], "sam": b[p[2][0]], "sm_none": p[3][0] == "none"}
        r = impl_preds(n, v, drt, 0, dtol)
        impl = {"sa": r["sa_default"], "mono": r["mono"], "sam": r["sam"], "sm_none": r["sm_default"] is None}
        m = Fraction(1, 10 ** 12) * max(abs(x) for x in v)
        lo = {"sa": sa_margin(n, v, drt, 0, -m), "mono": oracle_mono(n, v), "sm_none": supermod_margin(n, v, dtol, -m)}
        hi = {"sa": sa_margin(n, v, drt, 0, m), "mono": lo["mono"], "sm_none": supermod_margin(n, v, dtol, m)}
        lo["sam"], hi["sam"] = lo["sa"] and lo["mono"], hi["sa"] and hi["mono"]
        rep = {"n": n, "values_by_coalition_id": [str(x) for x in v], "rtol": str(drt), "atol": "0", "tolerance": str(dtol), "source": src}
        for k in ("sa", "mono", "sam", "sm_none"):
            ctx.count("float_answers_" + k, impl[k])
            if lo[k] != hi[k]:
                amb += 1
                ctx.count("float_ambiguous_by_predicate", k)
                continue
            if impl[k] != lo[k]:
                viol(ctx, f"predicate {k} (float game, default tolerances) does not decide its textbook definition",
                     dict(rep, predicate=k, observed=impl[k], expected=lo[k]), found_input=True)
            elif model[k] != impl[k]:
                mism.append({"relation": "predicates on float games (values converted exactly): implementation = model", **rep,
                             "field": k, "impl": impl[k], "model": model[k]})
    ctx.coverage["float_predicate_comparisons_skipped_as_ambiguous"] = amb
    return mism


# ------------------------------------------------------------------ entry
def run(ctx, proof):
    SHARD.clear()
    mism = []
    mism += run_operators(ctx)
    mism += run_enumerations(ctx)
    mism += run_predicates(ctx)
    mism += run_float_predicates(ctx)
    if proof.get("ok"):
        run_shard(ctx)
    else:   # the build broke, so the driver may predate the regenerated definitions: nothing to cross-check
        ctx.notes.append("in-Coq shard skipped: the proof step failed, the extracted driver may be stale")
    ctx.coverage["correspondence_mismatches"] = len(mism)
    if mism:
        by_rel = {}
        for m in mism:
            by_rel.setdefault(m["relation"], []).append(m)
        for rel, ms in by_rel.items():
            viol(ctx, "model and implementation disagree, the finite-set / textbook oracle accepts the implementation: " + rel,
                          {"relation": rel, "disagreements": len(ms), "first": ms[0]}, found_input=False)
    ctx.coverage["exhaustive"] = False
    ctx.coverage["exhaustive_parts"] = ("operators and enumerations: complete for n = 1..10 (pairs: all ids below 2^5 quick / 2^6 thorough); "
                                        "predicates: complete for n = 2 on the -2..2 lattice, sampled otherwise")
    ctx.coverage["translated_definitions"] = [e[0] for e in translate.ENTRIES] + [translate.EXCLUDE_ENTRY]


def replay(ctx, rep):
    """Re-run one recorded case against the implementation and print observed vs expected."""
    import json
    if "coalition_id" in rep and "n" in rep and "values_by_coalition_id" not in rep:
        n, c = rep["n"], rep["coalition_id"]
        try:
            obs = impl_enum(n, c)
        except Exception as e:  # noqa: BLE001
            obs = repr(e)
        print(json.dumps({"n": n, "coalition_id": c, "enumerations": obs, "oracle": oracle_enum(n, c, obs) if isinstance(obs, dict) else None,
                          "player_ops": impl_player_line(n, c) if c < 2 ** n else None,
                          "player_ops_expected": oracle_player_line(n, c) if c < 2 ** n else None}, default=str))
        return 0
    if "a" in rep and "b" in rep:
        print(json.dumps({"observed": impl_pair_line(rep["a"], rep["b"]), "expected": oracle_pair_line(rep["a"], rep["b"])}))
        return 0
    if "values_by_coalition_id" in rep:
        v = [Fraction(x) for x in rep["values_by_coalition_id"]]
        n = rep["n"]
        rtol, atol, tol = Fraction(rep["rtol"]), Fraction(rep["atol"]), Fraction(rep["tolerance"])
        print(json.dumps({"observed": impl_preds(n, v, rtol, atol, tol),
                          "expected": {"sa": oracle_sa(n, v, rtol, atol), "mono": oracle_mono(n, v),
                                       "first_supermodularity_violation": next(supermod_violations(n, v, tol), None)}}, default=str))
        return 0
    print(json.dumps(rep, default=str))
    return 0

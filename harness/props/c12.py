"""C12 - evaluate() records true trajectories; results independent of parallelism."""
import numpy as np

import boundslib as bl
import envlib
import games
from common import close, frac, qtok, run_driver, run_driver_parallel, tokq

from incomplete_cooperative.coalitions import Coalition, minimal_game_coalitions
from incomplete_cooperative.evaluation import eval_one, evaluate
from incomplete_cooperative.game import IncompleteCooperativeGame
from incomplete_cooperative.generators import GENERATORS
from incomplete_cooperative.run.model import GAP_FUNCTIONS, ModelInstance
from incomplete_cooperative.solvers import SOLVERS

RULE = ("(a) recording: evaluate(processes=1) with solvers greedy / greedy_worst / largest / random wrapped by a logging policy "
        "(hidden game captured in after_reset): for every repetition the returned gap column must equal a replay of the recorded "
        "actions on a fresh game with that hidden game, actions distinct and explorable; for the order-deterministic 'largest' "
        "policy the whole column is also compared with the model el_eval_one. (b) wiring: ModelInstance(seed).get_env as in the "
        "solve command with a continuous-valued generator, repetitions in {5,12,24,...} x processes 1..16: the row-0 gap fingerprints "
        "the hidden game; fingerprints are mapped to draw indices of the seeded stream (shared: root stream positions; per-env: third "
        "draw of the j-th spawned child) and compared with the model's prediction for the scheme the code follows; the property "
        "itself: all columns pairwise distinct and matrices identical across process counts. distinct_nontrivial = distinct "
        "(solver, generator, seed, repetitions, processes) configurations run.")
TRUSTED = ["models: theories/Evaluate.v (recording loop; stream wiring, pickling by value per chunk, default chunksize) - pickle and "
           "multiprocessing.Pool are MODELLED and validated by these runs, not verified; independence of numpy child streams is trusted"]
ASSUMPTIONS = ["policies return valid actions; continuous-valued generator for the independence part"]

KEY_SHARED = "C12:evaluate:shared-rng-replayed-per-chunk"
KEY_RANDOM = "C12:random-solver:shared-python-random-per-chunk"


def fingerprint_game(game, n, comp, gap):
    g = IncompleteCooperativeGame(n, bl.computer_fn(comp))
    ids = [c.id for c in minimal_game_coalitions(n)]
    g.set_known_values(game.get_values([Coalition(i) for i in ids]), [Coalition(i) for i in ids])
    g.compute_bounds()
    return float(GAP_FUNCTIONS[gap](g))


def replay_column(n, comp, gap, hidden, actions):
    g = IncompleteCooperativeGame(n, bl.computer_fn(comp))
    ids = [c.id for c in minimal_game_coalitions(n)]
    g.set_known_values([float(hidden[i]) for i in ids], [Coalition(i) for i in ids])
    g.compute_bounds()
    col = [float(GAP_FUNCTIONS[gap](g))]
    for a in actions:
        g.reveal_value(float(hidden[a]), Coalition(a))
        g.compute_bounds()
        col.append(float(GAP_FUNCTIONS[gap](g)))
    return col


def run(ctx, proof):
    rng = ctx.rng
    gaps = list(GAP_FUNCTIONS.keys())
    # ---------------- (a) recording ----------------
    model_lines, model_meta = [], []
    for rec_i in range(6 if ctx.quick else 40):
        n = rng.choice([3, 4])
        comp = rng.choice(["superadditive", "superadditive_cached"])
        gap = rng.choice(gaps)
        sname = rng.choice(sorted(SOLVERS.keys()))
        reps = rng.randint(1, 4)
        limit = rng.randint(1, 2 ** n - n - 2)
        hidden_games = [games.sa_closure_game(rng, n, rng.choice(["int", "dyadic"]), neg_singletons=False) for _ in range(3)]
        if rec_i % 3 == 1:
            # large values with a small cooperation surplus: episodes must still be played to the end
            off = 10 ** rng.randint(5, 7)
            hidden_games = [[off * games.popcount(i) + g[i] for i in range(2 ** n)] for g in hidden_games]
            limit = max(limit, 2)
        log = []

        def env_gen():
            env, feed = envlib.make_env(n, comp, gap, limit, games.minimal_ids(n), hidden_games)
            feed.i = rng.randrange(3)
            return env
        inst = ModelInstance(number_of_players=n, seed=rng.randrange(10 ** 6))
        solver = SOLVERS[sname](inst)

        def after_reset(env):
            log.append({"hidden": [float(x) for x in env.full_game.get_values()],
                        "norm": [float(x) for x in env.normalized_game.get_values()], "actions": []})
            solver.after_reset(env)

        def policy(env):
            a = solver.next_step(env)
            log[-1]["actions"].append(env.explorable_coalitions[a].id)
            return a
        expl, acts = evaluate(policy, env_gen, reps, limit, GAP_FUNCTIONS[gap], 1, after_reset)
        ctx.evaluations += 1
        ctx.count("recording_solver", sname)
        fails = []
        if expl.shape != (limit + 1, reps) or acts.shape != (limit, reps) or len(log) != reps:
            fails.append(("shape", expl.shape, acts.shape, len(log)))
        else:
            for j in range(reps):
                rec = log[j]
                k = len(rec["actions"])
                if [int(x) for x in acts[:k, j]] != rec["actions"]:
                    fails.append((j, "action matrix differs from the coalitions revealed", list(acts[:, j]), rec["actions"]))
                if len(set(rec["actions"])) != k or any(a in games.minimal_ids(n) for a in rec["actions"]):
                    fails.append((j, "actions not distinct / not explorable", rec["actions"]))
                if k < limit and k < 2 ** n - n - 2:
                    # the episode stopped early: allowed only if every interval is degenerate at that point
                    K = sorted(games.minimal_ids(n) + rec["actions"])
                    st_, tab_ = bl.impl_compute(comp, n, rec["hidden"], K)
                    if st_ == "ok" and any(h != l for _, l, h in tab_):
                        fails.append((j, f"episode stopped after {k} of {limit} steps although intervals are not degenerate "
                                         f"(rows {k + 1}.. of the gap matrix are not trajectory values)", rec["actions"]))
                col = replay_column(n, comp, gap, rec["hidden"], rec["actions"])
                got = [float(x) for x in expl[:k + 1, j]]
                if not all(close(a, b, 1e-9, max(1.0, abs(b))) for a, b in zip(got, col)):
                    fails.append((j, "gap column is not the replay of the recorded actions on this repetition's hidden game", got, col))
                if sname == "largest":
                    model_lines.append("evalone %d %s %s %d %d %s %d largest %s %s" % (
                        n, bl.model_name(comp), gap, limit, n + 2, " ".join(map(str, games.minimal_ids(n))), limit,
                        " ".join(qtok(x) for x in rec["hidden"]), " ".join(qtok(x) for x in rec["norm"])))
                    model_meta.append((gap, got, rec["actions"], n, comp))
        if fails:
            ctx.violation(f"evaluate() does not record the true trajectory: {fails[:2]}",
                          {"n": n, "comp": comp, "gap": gap, "solver": sname, "reps": reps, "limit": limit, "failures": str(fails[:4])})
        ctx.sample({"part": "recording", "n": n, "solver": sname, "gap": gap, "reps": reps, "limit": limit,
                    "actions_of_first_repetition": log[0]["actions"] if log else None}, limit=3)
    # the same recording statement through the LINEAR environment wrapper (ModelInstance(linear=True), the --linear flag):
    # actions are coalition SIZES there, the action matrix must still hold the ids of the coalitions actually revealed
    for _ in range(4 if ctx.quick else 30):
        n = rng.choice([3, 4])
        comp = rng.choice(["superadditive", "superadditive_cached"])
        gap = rng.choice(gaps)
        gen = rng.choice(["xos", "xs", "noisy_factory", "factory"])
        reps = rng.randint(1, 3)
        limit = rng.randint(1, 2 ** n - n - 2)
        inst = ModelInstance(number_of_players=n, game_class=comp, game_generator=gen, gap_function=gap, run_steps_limit=limit,
                             seed=rng.randrange(10 ** 6), linear=True)
        llog = []

        def l_after_reset(env, _llog=llog):
            inner = env.icg_gym
            _llog.append({"env": env, "hidden": [float(x) for x in inner.full_game.get_values()], "snaps": []})

        def l_policy(env, _llog=llog, _rng=rng):
            inner = env.icg_gym
            _llog[-1]["snaps"].append({i for i, k in enumerate(inner.incomplete_game.are_values_known()) if k})
            sizes = [i for i, m in enumerate(env.action_masks()) if m]
            return _rng.choice(sizes)
        try:
            expl, acts = evaluate(l_policy, inst.get_env, reps, limit, GAP_FUNCTIONS[gap], 1, l_after_reset)
        except Exception as e:  # noqa: BLE001
            ctx.violation(f"evaluate() on the linear environment raised {type(e).__name__}: {e}",
                          {"n": n, "comp": comp, "gap": gap, "generator": gen, "seed": inst.seed, "reps": reps, "limit": limit})
            continue
        ctx.evaluations += 1
        ctx.count("recording_solver", "linear-env/random-size")
        fails = []
        for j in range(min(reps, len(llog))):
            rec = llog[j]
            snaps = rec["snaps"] + [{i for i, k in enumerate(rec["env"].icg_gym.incomplete_game.are_values_known()) if k}]
            revealed = [sorted(snaps[t + 1] - snaps[t]) for t in range(len(snaps) - 1)]
            if any(len(x) != 1 for x in revealed):
                fails.append((j, "a step did not reveal exactly one coalition", revealed))
                continue
            ids = [x[0] for x in revealed]
            if [int(x) for x in acts[:len(ids), j]] != ids:
                fails.append((j, "action matrix differs from the coalitions revealed", [int(x) for x in acts[:, j]], ids))
                continue
            col = replay_column(n, comp, gap, rec["hidden"], ids)
            got = [float(x) for x in expl[:len(ids) + 1, j]]
            if not all(close(a, b, 1e-9, max(1.0, abs(b))) for a, b in zip(got, col)):
                fails.append((j, "gap column is not the replay of the revealed coalitions on this repetition's hidden game", got, col))
        if fails:
            ctx.violation(f"evaluate() on the linear environment does not record the true trajectory: {fails[:2]}",
                          {"ModelInstance": {"number_of_players": n, "game_class": comp, "game_generator": gen, "gap_function": gap,
                                             "run_steps_limit": limit, "seed": inst.seed, "linear": True},
                           "reps": reps, "failures": str(fails[:4])})
        else:
            ctx.nontrivial.add(("linear", n, comp, gap, gen, inst.seed, reps, limit))

    mism = []
    for (gap, got, actions, n, comp), out in zip(model_meta, run_driver_parallel(model_lines)):
        if out.startswith("err"):
            mism.append("model could not evaluate a trajectory the implementation produced")
            continue
        gi, ai = out.index("G"), out.index(" A")
        mg = [tokq(x) for x in out[gi + 1:ai].split()]
        ma = [int(x) for x in out[ai + 2:].split()]
        ok = ma == actions and len(mg) == len(got) and all(
            (close(a * a, float(b), 1e-7, max(1.0, float(b))) if gap == "l2_norm" else close(a, float(b), 1e-7, max(1.0, abs(float(b)))))
            for a, b in zip(got, mg))
        if not ok:
            mism.append(f"n={n} {comp} {gap}: impl {got} {actions} vs model {[float(x) for x in mg]} {ma}")
    if mism and not any(v["found_input"] for v in ctx.violations):
        ctx.violation(f"correspondence 'eval_one = el_eval_one (largest policy)' broke: {mism[0]}", {"disagreements": mism[:4]}, found_input=False)

    # ---------------- (b) wiring of the random streams ----------------
    configs = []
    rep_choices = [5, 12] if ctx.quick else [3, 5, 12, 24, 33]
    proc_choices = [1, 2, 3] if ctx.quick else [1, 2, 3, 4, 5, 8, 16]
    for _ in range(1 if ctx.quick else 5):
        configs.append((rng.choice(["noisy_factory", "xs", "xos"]), rng.randrange(10 ** 6), "largest"))
    configs.append((rng.choice(["noisy_factory", "xs"]), rng.randrange(10 ** 6), "random"))
    for gen_name, seed, sname in configs:
        n = 4
        gap = "exploitability"
        comp = "superadditive_cached"
        limit = 3
        for reps in rep_choices:
            # fingerprints of the seeded streams
            root = np.random.default_rng(seed)
            shared_fp = [fingerprint_game(GENERATORS[gen_name](n, root), n, comp, gap) for _ in range(3 * reps + 2)]
            parent = np.random.default_rng(seed)
            child_fp = []
            for j in range(reps):
                ch = parent.spawn(1)[0]
                child_fp.append([fingerprint_game(GENERATORS[gen_name](n, ch), n, comp, gap) for _ in range(3)])
            results = {}
            for p in proc_choices:
                inst = ModelInstance(number_of_players=n, game_class=comp, game_generator=gen_name, gap_function=gap,
                                     run_steps_limit=limit, seed=seed, parallel_environments=p)
                solver = SOLVERS[sname](inst)
                captured = []
                if p == 1:
                    def hook(env, _solver=solver, _captured=captured):
                        _captured.append([float(x) for x in env.full_game.get_values()])
                        _solver.after_reset(env)
                else:
                    hook = solver.after_reset
                ex, ac = evaluate(solver.next_step, inst.get_env, reps, limit, inst.gap_function_callable, p, hook)
                results[p] = (np.array(ex), np.array(ac))
                # independence (continuous-valued generators): two independently drawn games share no value except structural
                # constants (integers); an exact coincidence of a non-integer double has probability ~ 0
                if p == 1 and len(captured) == reps:
                    owner = {}
                    clash = None
                    for j, vals in enumerate(captured):
                        for x in set(vals):
                            if float(x).is_integer():
                                continue
                            if x in owner and owner[x] != j:
                                clash = (owner[x], j, x)
                                break
                            owner[x] = j
                        if clash:
                            break
                    ctx.count("independence_checked_repetitions", reps)
                    if clash:
                        a_, b_, x_ = clash
                        common_vals = sorted(set(captured[a_]) & set(captured[b_]) - {0.0})
                        ctx.violation(f"repetitions {a_} and {b_} are evaluated on hidden games that are not independently drawn: they share "
                                      f"{len(common_vals)} non-integer coalition values, e.g. {x_!r} (generator {gen_name}, seed {seed})",
                                      {"generator": gen_name, "seed": seed, "reps": reps, "processes": 1, "repetitions": [a_, b_],
                                       "hidden_game_a": captured[a_], "hidden_game_b": captured[b_], "shared_values": common_vals[:10],
                                       "how": "ModelInstance(number_of_players=4, game_class='superadditive_cached', game_generator=..., seed=..., "
                                              "run_steps_limit=3); evaluate(..., inst.get_env, reps, 3, gap, 1, after_reset recording env.full_game)"})
                ctx.evaluations += 1
                ctx.nontrivial.add((sname, gen_name, seed, reps, p))
                ctx.count("wiring_processes", p)
                ctx.count("wiring_repetitions", reps)
            # scheme detection from the sequential run
            row0 = [float(x) for x in results[1][0][0]]

            def index_of(x, fps):
                hits = [k for k, f in enumerate(fps) if f == x]
                return hits[0] if hits else None
            seq_idx = [index_of(x, shared_fp) for x in row0]
            if seq_idx == [3 * j + 2 for j in range(reps)]:
                scheme = "shared"
            elif all(row0[j] == child_fp[j][2] for j in range(reps)):
                scheme = "perenv"
            else:
                scheme = None
            ctx.count("scheme_detected", scheme)
            ctx.coverage["stream_wiring_scheme"] = scheme
            if scheme is None:
                ctx.violation("correspondence 'stream wiring of evaluate() = Evaluate.v scheme' broke: the sequential run matches neither "
                              "the shared-stream nor the per-environment-stream model",
                              {"generator": gen_name, "seed": seed, "reps": reps, "row0": row0}, found_input=False)
            # model prediction per process count
            for p in (proc_choices if scheme is not None else []):
                out = run_driver([f"eldraws {scheme} {reps} {-1 if p == 1 else p}"])[0]
                pred = [tok for tok in out.split("|")[0].split()]
                r0 = [float(x) for x in results[p][0][0]]
                if scheme == "shared":
                    want = [shared_fp[int(tok.split(":")[1])] if int(tok.split(":")[1]) < len(shared_fp) else None for tok in pred]
                else:
                    want = [child_fp[int(tok.split(":")[0].strip("[],"))][int(tok.split(":")[1])] for tok in pred]
                if r0 != want:
                    ctx.violation(f"correspondence 'hidden game of repetition j = model draw' broke for scheme {scheme}, {p} processes",
                                  {"generator": gen_name, "seed": seed, "reps": reps, "processes": p, "observed_row0": r0,
                                   "predicted": want, "model_draws": pred}, found_input=False)
            # the property itself
            for p in proc_choices:
                r0 = [float(x) for x in results[p][0][0]]
                if len(set(r0)) != len(r0):
                    dup = [j for j in range(reps) if r0.index(r0[j]) != j]
                    ctx.violation(f"distinct repetitions replay the same hidden game with {p} worker processes "
                                  f"({len(set(r0))} distinct games in {reps} repetitions; generator {gen_name}, seed {seed})",
                                  {"generator": gen_name, "seed": seed, "reps": reps, "processes": p, "row0": r0, "replayed": dup,
                                   "how": "ModelInstance(number_of_players=4, game_class='superadditive_cached', game_generator=..., seed=..., "
                                          "run_steps_limit=3, parallel_environments=p); evaluate(solver.next_step, inst.get_env, reps, 3, gap, p)"},
                                  key=KEY_SHARED)
                    break
            base = results[proc_choices[0]]
            for p in proc_choices[1:]:
                same = np.array_equal(results[p][0], base[0], equal_nan=True) and np.array_equal(results[p][1], base[1], equal_nan=True)
                if not same:
                    same_games = [float(x) for x in results[p][0][0]] == [float(x) for x in base[0][0]]
                    key = KEY_RANDOM if (sname == "random" and same_games) else KEY_SHARED
                    ctx.violation(f"evaluate() result for a fixed seed depends on the number of worker processes "
                                  f"(1 vs {p}; solver {sname}, generator {gen_name}, seed {seed}, {reps} repetitions"
                                  + ("; the hidden games agree, the random solver's choices do not" if key == KEY_RANDOM else "") + ")",
                                  {"generator": gen_name, "seed": seed, "reps": reps, "processes": p, "solver": sname,
                                   "row0_sequential": [float(x) for x in base[0][0]], "row0_parallel": [float(x) for x in results[p][0][0]],
                                   "actions_sequential": base[1].tolist(), "actions_parallel": results[p][1].tolist()}, key=key)
                    break
            ctx.sample({"part": "wiring", "solver": sname, "generator": gen_name, "seed": seed, "reps": reps, "scheme": scheme,
                        "row0_sequential": [float(x) for x in results[1][0][0]][:6]}, limit=6)

"""C10 - every offered game generator runs and yields a game of its assumed class."""
from __future__ import annotations

import itertools
import math
import traceback
from fractions import Fraction

import numpy as np

import common
import registry_dump
from common import frac, qtok, tokq, run_driver_parallel

RULE = ("cases = every key of generators.GENERATORS (regenerated from the repository on every run) except 'convex' "
        "x n = 3..5 (quick) / 3..8 (thorough) x seeds {0, 1, 42, 2^32-1} + fresh 63-bit seeds from the run's PRNG. "
        "Per case: (a) property oracle on the implementation alone (two plain calls GENERATORS[key](n, default_rng(seed))): the call "
        "succeeds, number_of_players, 2^n float64 finite values, v(empty)=0, superadditive (+ monotone non-increasing for "
        "xos*/xs*/oxs/k_budget/covg keys) checked exactly with Fractions (tolerance 1e-9*scale only when the table is not integral), "
        "the two identically seeded calls give the identical table (except the documented graph-distribution keys and "
        "predictible_factory); (b) correspondence: a third call is made with a recording numpy Generator (subclass logging "
        "integers/uniform/random/permutation/choice; the matrix handed to GraphCooperativeGame and the additive games of xos are "
        "captured by wrapping objects passed in / looked up by the call; its table must equal the plain call's), the logged draws "
        "converted exactly to Q are the arguments of the extracted Coq model of that registry entry, whose table must equal "
        "get_values() (exact when integral, 1e-9 otherwise) and whose executable SA/monotone/support flags must be 1. "
        "distinct_nontrivial = distinct (key, n, value table) whose table is not constant.")
TRUSTED = [
    "model of generators.py / graph_game.get_value: theories/Generators.v (hand-written, one function per family); tie = recorded-draw correspondence on every run",
    "registry dumper harness/registry_dump.py (functools.partial unwrapping, fail-closed) -> gen/Registry.v; the model runs the entry it finds there",
    "the recording Generator subclass is transparent (checked on every deterministic case: recorded call == plain default_rng(seed) call)",
    "numpy / networkx random draws lie in their documented supports (checked on every recorded draw: weights >= 0 etc.)",
    "math.exp is non-decreasing (checked on every tabulated point of the factory_exp runs; the Coq theorem takes it as a Section hypothesis, "
    "the run-time model uses the monotone hull of the recorded table)",
    "itertools.combinations order (coverage: index -> subset) and numpy array semantics of np.max/np.sum/fancy indexing (validated by correspondence only)",
]
ASSUMPTIONS = [
    "n >= 3 (checked 3..8); 'convex' skipped (pyfmtools absent), classified GExternal in the registry",
    "float families compared within 1e-9 relative; integral tables bit-for-bit",
    "NaN / -0.0: -0.0 is read as 0; a non-finite value is an oracle failure",
]

KNOWN_KEY_CHEER = "C10:factory_cheerleader:np.int64-cheerleader"
MONO_PREFIXES = ("xos", "xs", "oxs", "k_budget", "covg")          # from the property text, not from the Coq registry
NONDET = lambda k: (k in ("graph", "graph_tirangular", "graph_increasing", "graph_decreasing", "graph_03_03",  # noqa: E731
                          "predictible_factory") or k.startswith("graph_beta_") or k.startswith("graph_poiss_"))
EDGE_SEEDS = [0, 1, 42, 2 ** 32 - 1]

_DESC = None


def regen(ctx):
    global _DESC
    _DESC = registry_dump.regen_registry()


# ------------------------------------------------------------------ recording generator
class RecGen(np.random.Generator):
    """A real numpy Generator that logs the draws the library makes through the instance."""

    def __init__(self, bitgen):
        super().__init__(bitgen)
        self.log = []
        self.depth = 0

    def _call(self, name, a, k):
        # numpy implements some methods through others (choice -> integers): only the library's own calls are logged
        self.depth += 1
        try:
            r = getattr(super(), name)(*a, **k)
        finally:
            self.depth -= 1
        if self.depth == 0:
            self.log.append((name, a, k, np.array(r, copy=True) if isinstance(r, np.ndarray) else r))
        return r

    def integers(self, *a, **k):
        return self._call("integers", a, k)

    def uniform(self, *a, **k):
        return self._call("uniform", a, k)

    def random(self, *a, **k):
        return self._call("random", a, k)

    def permutation(self, *a, **k):
        return self._call("permutation", a, k)

    def choice(self, *a, **k):
        return self._call("choice", a, k)


class Recorded:
    """Everything captured during one recorded call."""

    def __init__(self):
        self.log = []
        self.matrices = []      # arguments of GraphCooperativeGame(...)
        self.additive = []      # value tables of the additive games built inside xos
        self.last_owner = None  # generators._LAST_OWNER before the call


def recorded_call(key, n, seed, desc):
    """Call GENERATORS[key](n, recording generator). -> (game or None, exception or None, Recorded)."""
    import incomplete_cooperative.generators as G
    rec = Recorded()
    rng = RecGen(np.random.PCG64(seed))
    fn = G.GENERATORS[key]
    kwargs = {}
    fam = desc.get("family")
    orig_cls = G.GraphCooperativeGame
    rec.last_owner = getattr(G, "_LAST_OWNER", None)

    class RecGraph(orig_cls):  # type: ignore[misc, valid-type]
        def __init__(self, graph_matrix):
            rec.matrices.append(np.array(graph_matrix, copy=True))
            super().__init__(graph_matrix)

    if fam == "xos":
        real_additive = G.additive

        def additive_rec(number_of_players, generator, *a, **k):
            g = real_additive(number_of_players, generator, *a, **k)
            rec.additive.append(np.array(g.get_values(), copy=True))
            return g
        kwargs["additive_gen"] = additive_rec
    game = exc = None
    try:
        if fam in ("graph_dist", "graph_nx", "cycle"):
            G.GraphCooperativeGame = RecGraph
        try:
            game = fn(n, rng, **kwargs)
        finally:
            G.GraphCooperativeGame = orig_cls
    except Exception as e:  # noqa: BLE001 - any exception is an observation
        exc = e
    rec.log = rng.log
    return game, exc, rec


# ------------------------------------------------------------------ draws -> model line
class Unrecordable(Exception):
    pass


_POWERSETS: dict = {}


def nonempty_subsets(m):
    if m not in _POWERSETS:
        u = list(range(m))
        _POWERSETS[m] = [c for r in range(1, m + 1) for c in itertools.combinations(u, r)]
    return _POWERSETS[m]


def _qlist(xs):
    xs = list(xs)
    return f"{len(xs)} " + " ".join(qtok(x) for x in xs) if xs else "0"


def players_of(S):
    return [i for i in range(S.bit_length()) if S >> i & 1]


def draws_line(key, n, desc, rec, exc, notes):
    """-> (model draws text, support problems that the theorems rely on).  `notes` collects documented-support excursions."""
    fam = desc["family"]
    log = rec.log
    problems = []

    def entries(name):
        return [e for e in log if e[0] == name]

    if fam == "factory":
        ints = entries("integers")
        if desc["owner"] is None:
            if len(ints) != 1:
                raise Unrecordable(f"expected one integers() draw for the owner, saw {len(ints)}")
            owner = int(ints[0][3])
        else:
            if ints:
                raise Unrecordable("owner is fixed but integers() was drawn")
            owner = desc["owner"]
        w = []
        if desc["random_weights"]:
            us = entries("uniform")
            if len(us) != 1 or np.shape(us[0][3]) != (n,):
                raise Unrecordable("expected one uniform(size=(n,)) draw for the weights")
            w = [float(x) for x in us[0][3]]
            if any(not (0 <= x) for x in w):
                problems.append(f"uniform weight < 0: {min(w)}")
            if any(not (x < 10) for x in w):
                notes.append(f"{key}: uniform weight >= 10")
        if not (0 <= owner < n):
            problems.append(f"owner {owner} outside [0, n)")
        tab = []
        if desc["value_fn"] == "exp":
            weff = [Fraction(0) if i == owner else (frac(w[i]) if desc["random_weights"] else Fraction(1)) for i in range(n)]
            pts = {}
            for S in range(2 ** n):
                if S >> owner & 1:
                    x = sum((weff[i] for i in players_of(S)), Fraction(0))
                    pts[x] = frac(math.exp(float(x)))
            tab = sorted(pts.items())
            if any(tab[i][1] > tab[i + 1][1] for i in range(len(tab) - 1)):
                problems.append("math.exp is not monotone on the tabulated points")
        return (f"factory {owner} {_qlist(w)} {len(tab)} " + " ".join(f"{qtok(x)} {qtok(y)}" for x, y in tab)).strip(), problems
    if fam == "predictible_factory":
        if log:
            raise Unrecordable("predictible_factory drew from the supplied generator")
        return f"owner {int(rec.last_owner)}", problems
    if fam == "cheerleader":
        ints = [e for e in entries("integers")]
        k = 0
        if desc["owner"] is None:
            if not ints:
                raise Unrecordable("no integers() draw for the owner")
            owner = int(ints[0][3])
            k = 1
        else:
            owner = desc["owner"]
        if desc["cheerleader"] is None:
            if len(ints) <= k:
                raise Unrecordable("no integers() draw for the cheerleader")
            if any(int(e[3]) != owner for e in ints[k:-1]):
                raise Unrecordable("a cheerleader draw different from the owner was discarded")
            drawn = ints[-1][3]
            cheer = int(drawn)
            # scheme identification (DESIGN 5.3): does the drawn numpy integer reach Coalition.__contains__ unconverted?
            unconverted = (not isinstance(drawn, int)) and isinstance(exc, AttributeError) and "'id'" in str(exc)
            kind = "np" if unconverted else "py"
        else:
            cheer, kind = desc["cheerleader"], "py"
        return f"cheer {owner} {kind} {cheer}", problems
    if fam == "cheerleader_next":
        ints = entries("integers")
        if len(ints) != 1:
            raise Unrecordable(f"expected one integers() draw, saw {len(ints)}")
        return f"owner {int(ints[0][3])}", problems
    if fam in ("graph_dist", "graph_nx"):
        if len(rec.matrices) != 1:
            raise Unrecordable(f"GraphCooperativeGame constructed {len(rec.matrices)} times")
        M = rec.matrices[0]
        if M.shape != (n, n):
            raise Unrecordable(f"matrix shape {M.shape}")
        if not np.all(np.isfinite(M)):
            problems.append("non-finite weight")
        elif np.any(M < 0):
            problems.append(f"negative edge weight {float(M.min())}")
        return f"matrix {n} " + " ".join(_qlist(float(x) for x in row) for row in M), problems
    if fam == "cycle":
        ps = entries("permutation")
        if len(ps) != 1:
            raise Unrecordable(f"expected one permutation() draw, saw {len(ps)}")
        perm = [int(x) for x in ps[0][3]]
        if sorted(perm) != list(range(n)):
            problems.append(f"permutation() returned {perm}")
        return f"perm {n} " + " ".join(map(str, perm)), problems
    if fam == "xos":
        if log and not desc["norandom"]:
            raise Unrecordable("xos drew directly from the generator")
        ws = []
        for tab in rec.additive:
            if len(tab) != 2 ** n:
                raise Unrecordable("additive game of the wrong size")
            w = [float(tab[1 << i]) for i in range(n)]
            ex = [sum((frac(w[i]) for i in players_of(S)), Fraction(0)) for S in range(2 ** n)]
            if any(abs(frac(tab[S]) - ex[S]) > Fraction(1, 10 ** 9) * max(1, abs(ex[S])) for S in range(2 ** n)):
                problems.append("additive() building block is not additive")
            if any(not (0 <= x) for x in w):
                problems.append(f"additive weight < 0: {min(w)}")
            if any(not (x < 1) for x in w):
                notes.append(f"{key}: additive weight >= 1")
            ws.append(w)
        return f"weights {len(ws)} " + " ".join(_qlist(w) for w in ws), problems
    if fam == "xs":
        if desc["num_unit_demand"] == 0:
            rs = [e for e in log]
            if len(rs) != n or any(e[0] != "random" for e in rs):
                raise Unrecordable(f"expected n random() draws, saw {[e[0] for e in rs]}")
            s = [float(e[3]) for e in rs]
            if any(not (0 <= x) for x in s):
                problems.append("random() < 0")
            return f"weights 1 {_qlist(s)}", problems
        k = desc["num_unit_demand"]
        if len(log) != 2 * k or any(log[2 * i][0] != "integers" or log[2 * i + 1][0] != "random" for i in range(k)):
            raise Unrecordable(f"expected {k} (integers, random) pairs, saw {[e[0] for e in log]}")
        picks = [(int(log[2 * i][3]), float(log[2 * i + 1][3])) for i in range(k)]
        if any(not (0 <= x) for _, x in picks):
            problems.append("random() < 0")
        return f"picks {k} " + " ".join(f"{p} {qtok(x)}" for p, x in picks), problems
    if fam == "oxs":
        k = desc["number_of_xs"]
        if len(log) != k * n or any(e[0] != "random" for e in log):
            raise Unrecordable(f"expected {k}*n random() draws, saw {len(log)}")
        vals = [float(e[3]) for e in log]
        if any(not (0 <= x) for x in vals):
            problems.append("random() < 0")
        return f"weights {k} " + " ".join(_qlist(vals[j * n:(j + 1) * n]) for j in range(k)), problems
    if fam == "kbudget":
        ints = entries("integers")
        if len(log) != 1 or len(ints) != 1:
            raise Unrecordable(f"expected one integers() draw, saw {[e[0] for e in log]}")
        k = int(ints[0][3])
        if k < 0:
            problems.append(f"k = {k} < 0")
            k = 0
        if not (1 <= k < n):
            notes.append(f"{key}: k = {k} outside the documented [1, n) (n = {n}); the theorem covers every k >= 0")
        return f"k {k}", problems
    if fam == "coverage":
        cs = entries("choice")
        if len(log) != 1 or len(cs) != 1:
            raise Unrecordable(f"expected one choice() draw, saw {[e[0] for e in log]}")
        idxs = [int(x) for x in np.atleast_1d(cs[0][3])]
        subsets = nonempty_subsets(desc["universum_mult"] * n)
        if len(idxs) != n or any(not (0 <= i < len(subsets)) for i in idxs):
            raise Unrecordable(f"choice() returned {idxs[:10]}")
        if cs[0][1][:1] != (len(subsets),):
            raise Unrecordable(f"choice() called over {cs[0][1][:1]} instead of the {len(subsets)} non-empty subsets")
        return f"sets {n} " + " ".join(f"{len(subsets[i])} " + " ".join(map(str, subsets[i])) for i in idxs), problems
    raise Unrecordable(f"family {fam} has no model")


# ------------------------------------------------------------------ property oracle (implementation only)
def game_table(game, n):
    """-> (list of floats, list of failures) from the object a generator returned."""
    fails = []
    if getattr(game, "number_of_players", None) != n:
        fails.append(f"number_of_players = {getattr(game, 'number_of_players', None)!r}, requested {n}")
    try:
        vals = game.get_values()
    except Exception as e:  # noqa: BLE001
        return None, fails + [f"get_values() raises {type(e).__name__}: {e} (not a complete game)"]
    if not isinstance(vals, np.ndarray) or vals.dtype != np.float64:
        fails.append(f"values are {type(vals).__name__} of dtype {getattr(vals, 'dtype', None)}, expected float64 ndarray")
    try:
        tab = [float(x) for x in vals]
    except Exception as e:  # noqa: BLE001
        return None, fails + [f"values not numeric: {e}"]
    if len(tab) != 2 ** n:
        fails.append(f"{len(tab)} values, expected {2 ** n}")
        return None, fails
    if not all(math.isfinite(x) for x in tab):
        fails.append("non-finite value (nan/inf)")
        return None, fails
    return tab, fails


def class_oracle(tab, n, mono):
    """Independent exact check of superadditivity (and antitonicity). -> list of failures."""
    fails = []
    fr = [Fraction(x) for x in tab]
    integral = all(f.denominator == 1 for f in fr)
    scale = max([abs(f) for f in fr] + [Fraction(1)])
    tol = Fraction(0) if integral else Fraction(1, 10 ** 9) * scale
    if fr[0] != 0:
        fails.append(f"v(empty) = {tab[0]}")
    full = 2 ** n - 1
    for A in range(1, 2 ** n):
        rest = full & ~A
        B = rest
        while B:
            if A < B and fr[A] + fr[B] > fr[A | B] + tol:
                fails.append(f"not superadditive: v({A}) + v({B}) = {tab[A]} + {tab[B]} > v({A | B}) = {tab[A | B]}")
                if len(fails) > 3:
                    return fails
            B = (B - 1) & rest
    if mono:
        for B in range(1, 2 ** n):
            for i in players_of(B):
                A = B & ~(1 << i)
                if fr[B] > fr[A] + tol:
                    fails.append(f"not monotone non-increasing: v({B}) = {tab[B]} > v({A}) = {tab[A]}")
                    if len(fails) > 3:
                        return fails
    return fails


def plain_call(key, n, seed):
    from incomplete_cooperative.generators import GENERATORS
    try:
        return GENERATORS[key](n, np.random.default_rng(seed)), None
    except Exception as e:  # noqa: BLE001
        return None, e


def exc_summary(e):
    tb = traceback.extract_tb(e.__traceback__)
    where = next((f"{f.filename.split('/')[-1]}:{f.lineno} in {f.name}" for f in reversed(tb)
                  if "incomplete_cooperative" in f.filename), "")
    return f"{type(e).__name__}: {e}" + (f" [{where}]" if where else "")


def replay_cmd(key, n, seed):
    return (f"PYTHONPATH={common.REPO} /venv/bin/python -c \"import numpy as np; "
            f"from incomplete_cooperative.generators import GENERATORS as G; "
            f"print(G['{key}']({n}, np.random.default_rng({seed})).get_values())\"")


def known_key(key, exc):
    if key == "factory_cheerleader" and isinstance(exc, AttributeError) and "numpy.int" in str(exc) and "'id'" in str(exc):
        return KNOWN_KEY_CHEER
    return None


# ------------------------------------------------------------------ run
def expected_family(desc):
    """The `gnfam` line the extracted registry must print for a dumped descriptor."""
    fam = desc["family"]
    opt = lambda x: "none" if x is None else str(x)  # noqa: E731
    b = lambda x: "1" if x else "0"  # noqa: E731
    if fam == "factory":
        return f"factory {desc['value_fn']} {b(desc['random_weights'])} {opt(desc['owner'])}"
    if fam == "cheerleader":
        return f"cheerleader {opt(desc['owner'])} {opt(desc['cheerleader'])}"
    if fam in ("graph_dist", "graph_nx"):
        return "graph"
    if fam == "xos":
        return f"xos {desc['number_of_additive']} {b(desc['normalize'])} {b(desc['normalize_additive'])}"
    if fam == "xs":
        return f"xs {desc['num_unit_demand']}"
    if fam == "oxs":
        return f"oxs {desc['number_of_xs']} {b(desc['normalize'])}"
    if fam == "coverage":
        return f"coverage {desc['universum_mult']}"
    if fam in ("external", "unknown"):
        return "none"
    return fam


def plan(ctx):
    """[(n, number of fresh seeds)], edge seeds are added for n <= 5."""
    if ctx.quick:
        return [(3, 2), (4, 1), (5, 1)]
    return [(3, 20), (4, 14), (5, 10), (6, 6), (7, 3), (8, 2)]


def seeds_for(ctx, n, fresh):
    s = list(EDGE_SEEDS if n <= (4 if ctx.quick else 6) else EDGE_SEEDS[:1])
    if ctx.quick and n > 3:
        s = s[:2]
    return s + [ctx.rng.getrandbits(63) for _ in range(fresh)]


def run(ctx, proof):
    desc_all = _DESC or registry_dump.descriptors()
    gens = desc_all["generators"]
    keys = list(gens)
    from incomplete_cooperative.generators import GENERATORS
    if list(GENERATORS) != keys:
        ctx.violation("registry changed between the dump and the run", {"dumped": keys, "now": list(GENERATORS)}, found_input=False)
        return
    ctx.coverage["registry_keys"] = len(keys)
    ctx.coverage["registries_dumped"] = {k: len(v) for k, v in desc_all.items()}
    unknown = [k for k in keys if gens[k][1]["family"] == "unknown"]
    if unknown:
        ctx.notes.append(f"keys the dumper could not classify (GUnknown, proof obligation fails): {unknown}")
    driver_ok = common.DRIVER.exists()
    if not proof.get("ok"):
        # a proof obligation failed (e.g. a GUnknown entry): the build stopped before the driver step.  Rebuild the
        # model part only, so that the correspondence still runs against the *current* registry.
        try:
            common.build(["theories/GeneratorsRegistry.vo"])
            driver_ok = common.DRIVER.exists()
        except Exception as e:  # noqa: BLE001
            ctx.notes.append(f"model could not be rebuilt after the proof failure ({e}); correspondence skipped, oracle still runs")
            driver_ok = False
    flags = {}
    if driver_ok:
        try:
            outs = common.run_driver([f"gnflags {i}" for i in range(len(keys) + 1)] + [f"gnfam {i}" for i in range(len(keys) + 1)])
            flags = {k: o.split() for k, o in zip(keys, outs)}
            fams = outs[len(keys) + 1:]
            stale = [(k, fams[i], expected_family(gens[k][1])) for i, k in enumerate(keys)
                     if fams[i] != expected_family(gens[k][1])]
            if fams[len(keys)] != "absent":
                stale.append(("<end>", fams[len(keys)], "absent"))
            if stale:
                ctx.violation(f"the registry held by the extracted model differs from the registry dumped from the repository: {stale[:3]}",
                              {"differences": stale[:10]}, found_input=False)
                driver_ok = False
        except Exception as e:  # noqa: BLE001 - stale driver after a failed build
            ctx.notes.append(f"driver unusable ({e}); correspondence skipped, oracle still runs")
            driver_ok = False
    # the model's classification must agree with the property text's list of monotone families
    for k in keys:
        fl = flags.get(k)
        if fl and fl != ["none"] and gens[k][1]["family"] not in ("unknown", "external"):
            if (fl[1] == "1") != k.startswith(MONO_PREFIXES):
                ctx.violation(f"key {k}: the registry entry's family is {'monotone' if fl[1] == '1' else 'not monotone'} in the model "
                              f"but the property text says otherwise", {"key": k, "term": gens[k][0]}, found_input=False)

    import time
    t_start = time.time()
    cases = []       # (key, idx, n, seed, desc, tab, line)
    seen_exc = set()
    skipped = []
    unrecordable = []     # (replay, text): the call drew something the model has no argument for
    recorder_diffs = []   # (replay, text): recorded call != plain call
    for n, fresh in plan(ctx):
        seeds = seeds_for(ctx, n, fresh)
        for idx, key in enumerate(keys):
            term, desc = gens[key]
            if key == "convex":
                if key not in skipped:
                    skipped.append(key)
                continue
            mono = key.startswith(MONO_PREFIXES)
            for seed in seeds:
                ctx.evaluations += 1
                ctx.count("n", n)
                ctx.count("family", desc["family"])
                rep = {"key": key, "n": n, "seed": seed, "registry_term": term, "command": replay_cmd(key, n, seed)}
                # ---- (a) the property oracle, on plain calls only (nothing of the harness is passed in)
                game1, exc1 = plain_call(key, n, seed)
                tab1 = None
                if exc1 is not None:
                    ctx.count("outcome", "raises " + type(exc1).__name__)
                    sig = (key, type(exc1).__name__)
                    if sig not in seen_exc:
                        seen_exc.add(sig)
                        ctx.violation(f"GENERATORS['{key}']({n}, default_rng({seed})) raises {exc_summary(exc1)}; "
                                      f"the property requires every offered generator to run for every n >= 3",
                                      dict(rep, expected="a complete game", observed=exc_summary(exc1)),
                                      found_input=True, key=known_key(key, exc1))
                else:
                    tab1, fails = game_table(game1, n)
                    if tab1 is not None:
                        tab1 = [0.0 if x == 0 else x for x in tab1]
                        fails += class_oracle(tab1, n, mono)
                    # the first game is USED in place (as normalize_game / set_values do) before the second, identically
                    # seeded call: a generator handing out a shared or cached object shows up as a different second table
                    try:
                        if hasattr(game1, "set_values"):
                            game1.set_values(np.arange(2 ** n, dtype=float) + 17.0)
                        elif hasattr(game1, "_graph_matrix"):
                            game1._graph_matrix += 17.0
                    except Exception:
                        pass
                    game2, exc2 = plain_call(key, n, seed)
                    if exc2 is not None:
                        fails.append(f"second identically seeded call raises {exc_summary(exc2)}")
                    elif tab1 is not None:
                        tab2, f2 = game_table(game2, n)
                        if tab2 is None:
                            fails += ["second call: " + x for x in f2]
                        else:
                            tab2 = [0.0 if x == 0 else x for x in tab2]
                            f2 += class_oracle(tab2, n, mono)
                            fails += ["second call: " + x for x in f2]
                            if NONDET(key):
                                ctx.count("determinism", "documented exception" + ("" if tab2 != tab1 else " (tables equal anyway)"))
                            elif tab2 != tab1:
                                d = next(i for i in range(len(tab1)) if tab1[i] != tab2[i])
                                fails.append(f"identically seeded calls differ at coalition {d}: {tab1[d]} vs {tab2[d]}")
                            else:
                                ctx.count("determinism", "identical")
                    if fails:
                        ctx.count("outcome", "oracle-fails")
                        ctx.violation(f"C10 oracle fails on GENERATORS['{key}']({n}, default_rng({seed})): {fails[:3]}",
                                      dict(rep, expected="superadditive" + ("+monotone" if mono else "") + " complete float64 game, v(0)=0, seed-deterministic",
                                           failures=fails[:6], values=tab1), found_input=True)
                    else:
                        ctx.count("outcome", "ok")
                    if tab1 is not None:
                        if any(x != tab1[0] for x in tab1):
                            ctx.nontrivial.add((key, n, tuple(tab1)))
                        ctx.count("table", "integral" if all(float(x).is_integer() for x in tab1) else "float")
                # ---- (b) the recorded call for the correspondence
                game, exc, rec = recorded_call(key, n, seed, desc)
                notes = []
                line = None
                problems = []
                if desc["family"] not in ("unknown", "external"):
                    try:
                        line, problems = draws_line(key, n, desc, rec, exc, notes)
                    except Unrecordable as u:
                        ctx.count("outcome", "unrecordable")
                        unrecordable.append((dict(rep, detail=str(u), log=[e[0] for e in rec.log][:20]),
                                             f"GENERATORS[{key}] draws only what the model of {term} takes as arguments: {u}"))
                for m in notes:
                    m = "support excursion (not needed by the theorem): " + m
                    if m not in ctx.notes and len(ctx.notes) < 30:
                        ctx.notes.append(m)
                tab = None
                if exc is None:
                    tab, rfails = game_table(game, n)
                    if tab is not None:
                        tab = [0.0 if x == 0 else x for x in tab]
                        rfails += class_oracle(tab, n, mono)
                    if rfails and exc1 is None and NONDET(key):
                        # a third, independent sample of a generator that ignores the seed: a genuine failing game
                        ctx.violation(f"C10 oracle fails on GENERATORS['{key}']({n}, recording default_rng({seed})): {rfails[:3]}",
                                      dict(rep, failures=rfails[:6], values=tab), found_input=True)
                    if tab is not None and tab1 is not None and not NONDET(key) and tab != tab1:
                        recorder_diffs.append((rep, f"the recorded call returns a different table than the plain call for {key} n={n} seed={seed}"))
                if (exc is None) != (exc1 is None):
                    recorder_diffs.append((rep, f"recorded call {'raises ' + exc_summary(exc) if exc else 'succeeds'} but the plain call "
                                                f"{'raises ' + exc_summary(exc1) if exc1 else 'succeeds'} for {key} n={n} seed={seed}"))
                if problems:
                    ctx.violation(f"draws of GENERATORS['{key}'] left the support the theorem of {term} assumes: {problems[:3]}",
                                  dict(rep, problems=problems[:5]), found_input=False)
                ctx.sample({"key": key, "registry_term": term, "n": n, "seed": seed, "model_draws": (line or "")[:160],
                            "values": (tab or [])[:8]}, limit=8)
                cases.append((key, idx, n, seed, desc, tab, line, exc))

    # ---------------- call history: "identically seeded calls return identical games" whatever was generated in between.
    # The loop above asked for ascending player counts; ask again in DESCENDING order (after larger games were built) and
    # interleaved with other families, and compare with the first answers.
    first = {}
    for (key, idx, n, seed, desc, tab, line, exc) in cases:
        if tab is not None and exc is None and not NONDET(key):
            first.setdefault((key, n), (seed, tab))
    for (key, n) in sorted(first, key=lambda kn: (-kn[1], kn[0])):
        seed, tab = first[(key, n)]
        g, e = plain_call(key, n, seed)
        ctx.evaluations += 1
        ctx.count("determinism", "re-asked after other player counts")
        if e is not None:
            ctx.violation(f"GENERATORS['{key}']({n}, default_rng({seed})) raises {exc_summary(e)} when called again after games "
                          f"with other player counts were generated (it succeeded the first time)",
                          {"key": key, "n": n, "seed": seed, "order": "ascending n = 3.. first, then descending"})
            continue
        tab2, _f = game_table(g, n)
        if tab2 is not None:
            tab2 = [0.0 if x == 0 else x for x in tab2]
            tab1 = [0.0 if x == 0 else x for x in tab]
            if tab2 != tab1:
                d = next(i for i in range(len(tab1)) if tab1[i] != tab2[i])
                ctx.violation(f"GENERATORS['{key}']({n}, default_rng({seed})) returns a different game when asked again after games with "
                              f"larger player counts were generated: coalition {d}: first {tab1[d]}, now {tab2[d]}",
                              {"key": key, "n": n, "seed": seed, "first_table": tab1, "second_table": tab2,
                               "calls_in_between": "every registered generator for n = %s" % sorted({kn[1] for kn in first})})

    ctx.coverage["implementation_and_oracle_s"] = round(time.time() - t_start, 1)
    ctx.coverage["keys_checked"] = len(keys) - len(skipped)
    ctx.coverage["keys_skipped"] = skipped
    ctx.coverage["exhaustive"] = False

    # ---------------- correspondence with the extracted model
    todo = [c for c in cases if c[6] is not None]
    pre = [(r, "recorder: " + t) for r, t in recorder_diffs] + [(r, t) for r, t in unrecordable]
    if not driver_ok:
        ctx.coverage["model_cases"] = 0
        report_mismatches(ctx, pre)
        return
    t_model = time.time()
    try:
        # the expensive cases (large n) come last: deal them round-robin over the driver processes
        jobs = 12
        order = [i for r in range(jobs) for i in range(r, len(todo), jobs)]
        res = run_driver_parallel([f"gn {todo[i][1]} {todo[i][2]} {todo[i][6]}" for i in order], jobs=jobs)
        outs = [None] * len(todo)
        for i, o in zip(order, res):
            outs[i] = o
    except Exception as e:  # noqa: BLE001
        ctx.violation(f"extracted model could not be run: {e}", {"error": str(e)[:2000]}, found_input=False)
        return
    ctx.coverage["model_cases"] = len(todo)
    ctx.coverage["extracted_model_s"] = round(time.time() - t_model, 1)
    if not ctx.quick or __import__("os").environ.get("VERIF_C10_SHARD"):
        try:
            vm_shard(ctx, todo, outs)
        except Exception as e:  # noqa: BLE001
            ctx.violation(f"in-Coq evaluation shard could not be run: {e}", {"traceback": traceback.format_exc()[-1500:]}, found_input=False)
    mism = []
    for (key, idx, n, seed, desc, tab, line, exc), out in zip(todo, outs):
        term = gens[key][0]
        toks = out.split()
        rep = {"key": key, "n": n, "seed": seed, "registry_term": term, "model_input": f"gn {idx} {n} {line}"[:4000],
               "command": replay_cmd(key, n, seed)}
        if toks[0] == "err":
            if exc is not None:
                ctx.count("correspondence", "both-fail")
                continue
            if tab is None:
                ctx.count("correspondence", "model-err/impl-not-a-game")
                continue
            mism.append((rep, "model says the run fails (exception / non-finite), the implementation returned a game"))
            continue
        support, sa, mn = toks[1:4]
        mvals = [tokq(x) for x in toks[4:]]
        if exc is not None:
            mism.append((rep, f"implementation raises {exc_summary(exc)}, the model returns a game"))
            continue
        if tab is None:
            mism.append((rep, "implementation did not return a proper value table, the model returns a game"))
            continue
        if support != "1":
            mism.append((rep, "model-side support check of the draws fails"))
        if sa != "1" or (key.startswith(MONO_PREFIXES) and mn != "1"):
            mism.append((rep, f"model table is not in its class (sa={sa}, mono={mn}) although the theorems say so"))
        integral = all(v.denominator == 1 for v in mvals)
        scale = max([abs(float(v)) for v in mvals] + [1.0])
        bad = None
        if len(mvals) != len(tab):
            bad = f"table sizes differ: model {len(mvals)} impl {len(tab)}"
        else:
            for S, (mv, iv) in enumerate(zip(mvals, tab)):
                if integral:
                    if Fraction(iv) != mv:
                        bad = f"coalition {S}: impl {iv} model {mv} (integral table, compared exactly)"
                        break
                elif not common.close(iv, mv, 1e-9, scale):
                    bad = f"coalition {S}: impl {iv} model {float(mv)}"
                    break
        if bad:
            mism.append((rep, bad))
            ctx.count("correspondence", "differs")
        else:
            ctx.count("correspondence", "equal-exact" if integral else "equal-1e-9")
    report_mismatches(ctx, pre + mism)


def report_mismatches(ctx, mism):
    """A broken correspondence with no failing game found by the oracle (which ran on every call): one violation."""
    if mism and not any(v["found_input"] and v.get("key") is None for v in ctx.violations):
        rep, detail = mism[0]
        ctx.violation(f"correspondence 'get_values() of GENERATORS[key](n, rng) = Generators.v model of the registry entry on the recorded draws' "
                      f"no longer holds: {detail} ({len(mism)} disagreeing cases; the oracle found no failing game among "
                      f"{ctx.evaluations} cases)", dict(rep, detail=detail, disagreeing_cases=len(mism),
                                                        other=[(m[0]["key"], m[0]["n"], m[1][:80]) for m in mism[1:6]]),
                      found_input=False)


# ------------------------------------------------------------------ in-Coq evaluation shard (thorough tier)
def _coq_q(tok):
    f = tokq(tok)
    return f"({f.numerator} # {f.denominator})" if f.numerator >= 0 else f"(({f.numerator}) # {f.denominator})"


def coq_draws(line):
    """The driver's draws text as a Coq term of type gn_draws."""
    t = line.split()
    pos = [0]

    def nxt():
        pos[0] += 1
        return t[pos[0] - 1]

    def lst(f):
        k = int(nxt())
        return "[" + "; ".join(f() for _ in range(k)) + "]"

    nat = lambda: nxt() + "%nat"  # noqa: E731
    q = lambda: _coq_q(nxt())  # noqa: E731
    tag = nxt()
    if tag == "factory":
        owner = nat()
        w = lst(q)
        tab = lst(lambda: f"({q()}, {q()})")
        return f"DrFactory {owner} {w} {tab}"
    if tag == "owner":
        return f"DrOwner {nat()}"
    if tag == "cheer":
        owner = nat()
        kind = nxt()
        return f"DrCheer {owner} ({'PyInt' if kind == 'py' else 'NpInt'} {nat()})"
    if tag == "matrix":
        return "DrMatrix " + lst(lambda: lst(q))
    if tag == "perm":
        return "DrPerm " + lst(nat)
    if tag == "weights":
        return "DrWeights " + lst(lambda: lst(q))
    if tag == "picks":
        return "DrPicks " + lst(lambda: f"({nat()}, {q()})")
    if tag == "k":
        return f"DrK {nat()}"
    if tag == "sets":
        return "DrSets " + lst(lambda: lst(nat))
    raise ValueError(tag)


def vm_shard(ctx, todo, outs, limit=60):
    """Evaluate a sample of the model runs inside Coq (vm_compute) and require the extracted driver's outputs:
    removes extraction + the OCaml toolchain from the trusted base for that shard."""
    import subprocess
    picked, per = [], {}
    for c, o in zip(todo, outs):
        fam = c[4]["family"]
        if c[2] <= 4 and per.get((fam, c[2]), 0) < 3 and len(picked) < limit and len(c[6]) < 6000:
            per[(fam, c[2])] = per.get((fam, c[2]), 0) + 1
            picked.append((c, o))
    lines = ["From ICG Require Import Prelude Bits RegistryTypes Generators GeneratorsRegistry.", "Local Open Scope Q_scope.", ""]
    for i, (c, o) in enumerate(picked):
        toks = o.split()
        exp = "None" if toks[0] == "err" else "(Some [" + "; ".join(_coq_q(x) for x in toks[4:]) + "])"
        lines.append(f"Example shard_{i} : gn_tab_eqb (gn_registry_run {c[1]}%nat {c[2]}%nat ({coq_draws(c[6])})) {exp} = true.")
        lines.append("Proof. vm_compute. reflexivity. Qed.")
    f = ctx.work / "cases_C10.v"
    f.write_text("\n".join(lines) + "\n")
    lock = common._lock()
    try:
        p = subprocess.run(["timeout", "600", "coqc", "-Q", str(common.COQ / "theories"), "ICG", "-Q", str(ctx.work), "C10Shard", str(f)],
                           capture_output=True, text=True, cwd=ctx.work)
    finally:
        lock.close()
    ctx.coverage["vm_compute_shard_cases"] = len(picked)
    ctx.coverage["vm_compute_shard_ok"] = p.returncode == 0
    if p.returncode != 0:
        ctx.violation("in-Coq evaluation (vm_compute) of the model disagrees with the extracted OCaml model on the shard",
                      {"coqc_output": (p.stdout + p.stderr)[-2000:], "cases": len(picked)}, found_input=False)


def replay(ctx, rep):
    """Re-run one recorded case against the repository under test; exit status 1 iff it still fails."""
    key, n, seed = rep["key"], rep["n"], rep["seed"]
    game, exc = plain_call(key, n, seed)
    if exc is not None:
        print(f"REPLAY C10 {key} n={n} seed={seed}: raises {exc_summary(exc)}")
        return 1
    tab, fails = game_table(game, n)
    if tab is not None:
        fails += class_oracle([0.0 if x == 0 else x for x in tab], n, key.startswith(MONO_PREFIXES))
        if not NONDET(key):
            g2, e2 = plain_call(key, n, seed)
            t2 = None if e2 is not None else game_table(g2, n)[0]
            if t2 != tab:
                fails.append("identically seeded calls differ")
    print(f"REPLAY C10 {key} n={n} seed={seed}: " + ("fails " + str(fails[:3]) if fails else "ok (oracle passes; for a correspondence "
          "disagreement run ./check C10)"))
    return 1 if fails else 0

"""C06 - the Shapley value is the average marginal contribution over all orderings."""
from __future__ import annotations

import itertools
import math
from fractions import Fraction

import numpy as np

from common import close, frac, qtok, run_driver_parallel, tokq
import shapleylib

RULE = ("cases = complete games on n = 1..10 players given as value vectors, classes: random int / dyadic (k/64) / float "
        "(asymmetric on purpose), one-hot games g = c*1_S (every S for n <= 5 quick / n <= 7 thorough, sampled above; they "
        "separate every coefficient of the linear form), unanimity games of a single coalition, games with a null player, "
        "relabelled copies of a random game; v(empty) = 0 always. Both entry points (compute_shapley_value, "
        "compute_shapley_value_for_player) are run on IncompleteCooperativeGame objects with every value set and compared "
        "with Shapley.v's sh_all / sh_player (1e-9; on the int stream additionally round(impl * n!) = model * n! as integers). "
        "Independent oracles on the implementation's own output: exact brute-force average over all n! orderings "
        "(Fractions, n <= 7), efficiency, null player = 0, linearity, relabelling, both entry points equal. "
        "distinct_nontrivial = distinct (n, value vector) that is NOT a function of the coalition size alone "
        "(two coalitions of equal size with different values), i.e. a game on which mis-sized or mis-paired weights are visible.")
TRUSTED = ["model of shapley.py: theories/Shapley.v (sh_contrib, sh_without, sh_player, sh_all; hand-written); tie = correspondence on every run",
           "numpy fromiter / fancy indexing / float64 conversion of factorial(s)*factorial(n-s-1) (exact for n <= 18) validated by correspondence only",
           "vm_compute for shapley_is_perm_avg (n = 2..7) and shapley_relabel_adjacent (n = 2..7)"]
ASSUMPTIONS = ["player index i < n (an out-of-range player makes the implementation raise IndexError; outside the model)",
               "float stream compared within 1e-9 relative to the largest |value|; int stream also exactly after multiplying by n!",
               "shapley_is_perm_avg and relabelling are proved for every real-valued game but only for each n in 2..7 (the bound is in the statement); "
               "efficiency, null player, linearity, entry points for all n"]


# ---------------------------------------------------------------- implementation side
def impl_game(n, v):
    from incomplete_cooperative.game import IncompleteCooperativeGame
    g = IncompleteCooperativeGame(n)
    g.set_values(np.array([float(x) for x in v], dtype=np.float64))
    return g


def impl_shapley(n, v):
    from incomplete_cooperative.shapley import compute_shapley_value, compute_shapley_value_for_player
    g = impl_game(n, v)
    allp = [float(x) for x in compute_shapley_value(g)]
    single = [float(compute_shapley_value_for_player(i, g)) for i in range(n)]
    return allp, single


# ---------------------------------------------------------------- oracles (state the property, no Coq model involved)
def perm_average(n, v):
    """Exact average marginal contribution over all n! orderings."""
    fv = [frac(x) for x in v]
    tot = [Fraction(0)] * n
    for p in itertools.permutations(range(n)):
        s = 0
        for i in p:
            t = s | (1 << i)
            tot[i] += fv[t] - fv[s]
            s = t
    nf = math.factorial(n)
    return [x / nf for x in tot]


def popcount(x):
    return bin(x).count("1")


def relabel(n, v, pi):
    """game o pi^-1 : the coalition pi(S) gets the value of S."""
    w = [0] * (2 ** n)
    for s in range(2 ** n):
        t = 0
        for i in range(n):
            if (s >> i) & 1:
                t |= 1 << pi[i]
        w[t] = v[s]
    return w


def oracle(n, v, allp, single, null_player=None, perm_limit=7):
    """Returns a list of failure strings for one game, using the implementation's output only."""
    fails = []
    scale = max([1.0] + [abs(float(x)) for x in v])
    if len(allp) != n or len(single) != n:
        return [f"result lengths {len(allp)}, {len(single)} != n = {n}"]
    for i in range(n):
        if not close(allp[i], single[i], 1e-12, scale):
            fails.append(f"entry points differ for player {i}: all={allp[i]!r} single={single[i]!r}")
    eff = frac(v[2 ** n - 1]) - frac(v[0])
    if not close(sum(allp), float(eff), 1e-9, scale * n):
        fails.append(f"efficiency: sum={sum(allp)!r} expected v(N)-v(0)={float(eff)!r}")
    if null_player is not None and not close(allp[null_player], 0.0, 1e-9, scale):
        fails.append(f"null player {null_player} gets {allp[null_player]!r}")
    if n <= perm_limit:
        avg = perm_average(n, v)
        for i in range(n):
            if not close(allp[i], float(avg[i]), 1e-9, scale):
                fails.append(f"player {i}: implementation {allp[i]!r} != average over all {n}! orderings {float(avg[i])!r} (= {avg[i]})")
    return fails


# ---------------------------------------------------------------- case generation
def rand_game(rng, n, kind):
    if kind == "int":
        v = [rng.randint(-20, 20) for _ in range(2 ** n)]
    elif kind == "dyadic":
        v = [Fraction(rng.randint(-20 * 64, 20 * 64), 64) for _ in range(2 ** n)]
    else:
        v = [rng.uniform(-10, 10) * (10 ** rng.randint(-2, 2)) for _ in range(2 ** n)]
    v[0] = 0
    return v


def gen_cases(ctx):
    rng = ctx.rng
    cases = []
    per_n = 6 if ctx.quick else 40
    onehot_all = 5 if ctx.quick else 7
    for n in range(1, 11):
        k = per_n if n <= 8 else max(2, per_n // 3)
        for _ in range(k):
            for kind in ("int", "dyadic", "float"):
                cases.append({"n": n, "v": rand_game(rng, n, kind), "cls": kind, "stream": kind})
        # one-hot games c * 1_S
        ids = list(range(1, 2 ** n)) if n <= onehot_all else rng.sample(range(1, 2 ** n), 24 if ctx.quick else 120)
        for s in ids:
            c = 1 if rng.random() < 0.5 else rng.randint(2, 9)
            v = [0] * (2 ** n)
            v[s] = c
            cases.append({"n": n, "v": v, "cls": "one-hot", "stream": "int", "hot": s})
        # unanimity games of one coalition
        for _ in range(4 if ctx.quick else 20):
            t = rng.randrange(1, 2 ** n)
            c = rng.randint(1, 7)
            cases.append({"n": n, "v": [c if (s & t) == t else 0 for s in range(2 ** n)], "cls": "unanimity",
                          "stream": "int", "carrier": t})
        # a null player
        if n >= 2:
            for _ in range(2 if ctx.quick else 10):
                i = rng.randrange(n)
                kind = rng.choice(["int", "float"])
                base = rand_game(rng, n, kind)
                v = [base[s & ~(1 << i)] for s in range(2 ** n)]
                cases.append({"n": n, "v": v, "cls": "null-player", "stream": kind, "null": i})
    return cases


def case_key(c):
    return (c["n"], tuple(float(x) for x in c["v"]))


def asymmetric(n, v):
    seen = {}
    for s in range(2 ** n):
        k = popcount(s)
        x = float(v[s])
        if k in seen and seen[k] != x:
            return True
        seen.setdefault(k, x)
    return False


def parse_model(out):
    left, _, right = out.partition("|")
    return [tokq(t) for t in left.split()], [tokq(t) for t in right.split()]


def model_line(c):
    return "shapley %d %s" % (c["n"], " ".join(qtok(x) for x in c["v"]))


def compare(c, allp, single, m_all, m_single):
    """model vs implementation; returns a description of the first difference or None."""
    n = c["n"]
    scale = max([1.0] + [abs(float(x)) for x in c["v"]])
    if len(m_all) != n or len(allp) != n:
        return f"lengths impl={len(allp)} model={len(m_all)}"
    nf = math.factorial(n)
    for i in range(n):
        if not close(allp[i], float(m_all[i]), 1e-9, scale):
            return f"compute_shapley_value player {i}: impl={allp[i]!r} model={m_all[i]} ({float(m_all[i])!r})"
        if not close(single[i], float(m_single[i]), 1e-9, scale):
            return f"compute_shapley_value_for_player({i}): impl={single[i]!r} model={m_single[i]} ({float(m_single[i])!r})"
        if c["stream"] == "int":
            want = m_all[i] * nf
            if want.denominator != 1 or round(allp[i] * nf) != want.numerator or round(single[i] * nf) != want.numerator:
                return f"int stream, player {i}: n!*impl = {allp[i] * nf!r} / {single[i] * nf!r}, n!*model = {want}"
    return None


def run(ctx, proof):
    rng = ctx.rng
    cases = gen_cases(ctx)
    outs = run_driver_parallel([model_line(c) for c in cases])
    perm_limit = 6 if ctx.quick else 7
    mism = []
    for c, out in zip(cases, outs):
        n, v = c["n"], c["v"]
        ctx.evaluations += 1
        ctx.count("n", n)
        ctx.count("class", c["cls"])
        ctx.count("stream", c["stream"])
        try:
            allp, single = impl_shapley(n, v)
        except Exception as e:  # the implementation must not raise on a complete game
            ctx.violation(f"implementation raised {type(e).__name__}: {e}", {"case": case_json(c)})
            continue
        m_all, m_single = parse_model(out)
        if m_all != m_single:
            mism.append((c, "model: sh_all and sh_player disagree (cannot happen: shapley_entry_points_agree)"))
        d = compare(c, allp, single, m_all, m_single)
        if d is not None:
            mism.append((c, d))
        big = n <= perm_limit and (n <= 5 or c["cls"] in ("int", "float", "one-hot") and rng.random() < (0.25 if n == 7 else 0.6))
        fails = oracle(n, v, allp, single, c.get("null"), perm_limit if big else 0)
        ctx.count("oracle", "perm-average+efficiency" if big else "efficiency")
        if fails:
            ctx.violation(f"C06 oracle fails on the implementation: {fails[:3]}",
                          {"case": case_json(c), "failures": fails[:6], "impl_all": allp, "impl_single": single})
        if asymmetric(n, v):
            ctx.nontrivial.add(case_key(c))
        ctx.sample({"n": n, "class": c["cls"], "v": [float(x) for x in v][:16], "shapley": allp[:10]}, limit=5)

    # linearity and relabelling oracles on the implementation (float tolerance)
    nlin = 20 if ctx.quick else 150
    for _ in range(nlin):
        n = rng.randint(2, 8)
        g = rand_game(rng, n, rng.choice(["int", "float"]))
        h = rand_game(rng, n, rng.choice(["int", "float"]))
        a, b = rng.randint(-5, 5), rng.uniform(-3, 3)
        comb = [a * float(x) + b * float(y) for x, y in zip(g, h)]
        sg, _ = impl_shapley(n, g)
        sh, _ = impl_shapley(n, h)
        sc, _ = impl_shapley(n, comb)
        ctx.evaluations += 1
        ctx.count("class", "linearity")
        scale = max([1.0] + [abs(x) for x in comb] + [abs(float(x)) for x in g] + [abs(float(x)) for x in h]) * 10
        bad = [i for i in range(n) if not close(sc[i], a * sg[i] + b * sh[i], 1e-9, scale)]
        if bad:
            ctx.violation(f"linearity fails on the implementation for players {bad}",
                          {"n": n, "g": [float(x) for x in g], "h": [float(x) for x in h], "a": a, "b": b,
                           "shapley_g": sg, "shapley_h": sh, "shapley_comb": sc})
        pi = list(range(n))
        rng.shuffle(pi)
        w = relabel(n, g, pi)
        sw, _ = impl_shapley(n, w)
        ctx.evaluations += 1
        ctx.count("class", "relabel")
        bad = [i for i in range(n) if not close(sw[pi[i]], sg[i], 1e-9, scale)]
        if bad:
            ctx.violation(f"relabelling fails on the implementation for players {bad}",
                          {"n": n, "g": [float(x) for x in g], "pi": pi, "shapley_g": sg, "shapley_relabelled": sw})
        if asymmetric(n, g):
            ctx.nontrivial.add(("relabel", n, tuple(pi), tuple(float(x) for x in g)))

    # (i) the same game OBJECT evaluated again after its values were changed in place, (ii) games of very small / very large
    # magnitude (the statement is linear, so all comparisons are relative to the game's magnitude)
    from incomplete_cooperative.coalitions import Coalition as _Coal
    from incomplete_cooperative.shapley import compute_shapley_value, compute_shapley_value_for_player
    for k_ in range(24 if ctx.quick else 240):
        n = rng.randint(2, 5)
        unit = [Fraction(1), Fraction(1, 10 ** 9), Fraction(1, 2 ** 40), Fraction(10 ** 6), Fraction(1, 10 ** 12)][k_ % 5]
        v1 = [Fraction(0)] + [unit * rng.randint(-9, 9) for _ in range(2 ** n - 1)]
        g = impl_game(n, v1)
        first_all = [float(x) for x in compute_shapley_value(g)]
        first_single = [float(compute_shapley_value_for_player(i, g)) for i in range(n)]
        v2 = list(v1)
        mode = rng.choice(["set_value", "set_values", "none"])
        if mode == "set_value":
            c_ = rng.randrange(1, 2 ** n)
            v2[c_] = v2[c_] + unit * rng.choice([-5, 3, 7])
            g.set_value(float(v2[c_]), _Coal(c_))
        elif mode == "set_values":
            v2 = [Fraction(0)] + [unit * rng.randint(-9, 9) for _ in range(2 ** n - 1)]
            g.set_values(np.array([float(x) for x in v2], dtype=np.float64))
        second_all = [float(x) for x in compute_shapley_value(g)]
        second_single = [float(compute_shapley_value_for_player(i, g)) for i in range(n)]
        ctx.evaluations += 1
        ctx.count("re_evaluated_object", mode)
        ctx.count("value_unit", str(float(unit)))
        mag = max([abs(float(x)) for x in v1 + v2] + [float(unit)])
        for label, vv, outs_ in (("first evaluation", v1, (first_all, first_single)), (f"second evaluation after {mode}", v2, (second_all, second_single))):
            want = perm_average(n, vv)
            bad = [(ep, i, o[i], float(want[i])) for ep, o in zip(("all-players", "single-player"), outs_) for i in range(n)
                   if abs(o[i] - float(want[i])) > 1e-9 * mag]
            if bad:
                ctx.violation(f"{label} of one game object (values of magnitude {mag:g}): Shapley value differs from the ordering average "
                              f"(entry point, player, got, expected): {bad[:3]}",
                              {"n": n, "values_first": [str(x) for x in v1], "change": mode, "values_second": [str(x) for x in v2],
                               "which": label, "failures": str(bad[:6])})
                break
        else:
            ctx.nontrivial.add(("reeval", n, mode, tuple(map(str, v2))))

    # large player counts ("numerically beyond"): carrier games v(S) = w(S & C) with |C| <= 5, C containing high-index
    # players. Their ordering average is known exactly without enumerating n! orders: players outside C get 0 and a player
    # of C gets the ordering average of w over the |C|! induced orders.
    from incomplete_cooperative.shapley import compute_shapley_value, compute_shapley_value_for_player
    big_plan = [(11, 2, "both"), (14, 1, "both"), (17, 1, "all"), (18, 1, "some")] if ctx.quick else \
        [(9, 6, "both"), (10, 6, "both"), (11, 4, "both"), (12, 4, "both"), (13, 3, "both"), (14, 3, "both"), (15, 2, "both"),
         (16, 2, "both"), (17, 2, "both"), (18, 1, "both"), (19, 1, "some"), (20, 1, "some")]
    for (n, cnt, mode) in big_plan:
        for _ in range(cnt):
            k = rng.randint(2, 5)
            C = sorted(set([n - 1] + rng.sample(range(n), k - 1)))     # always contains the highest-index player
            k = len(C)
            w = [0] + [rng.randint(-9, 9) for _ in range(2 ** k - 1)]
            sub = perm_average(k, w)
            expected = [Fraction(0)] * n
            for j, pl in enumerate(C):
                expected[pl] = sub[j]
            ids = np.arange(2 ** n, dtype=np.int64)
            proj = np.zeros(2 ** n, dtype=np.int64)
            for j, pl in enumerate(C):
                proj |= ((ids >> pl) & 1) << j
            vbig = np.array(w, dtype=np.float64)[proj]
            from incomplete_cooperative.game import IncompleteCooperativeGame
            g = IncompleteCooperativeGame(n)
            g.set_values(vbig)
            got = {}
            if mode in ("both", "all"):
                for i, x in enumerate(compute_shapley_value(g)):
                    got[("all", i)] = float(x)
            players = range(n) if mode == "both" else sorted(set([n - 1, 0, C[0], rng.randrange(n)]))
            for i in players:
                got[("single", i)] = float(compute_shapley_value_for_player(i, g))
            ctx.evaluations += 1
            ctx.count("carrier_games_n", n)
            bad = [(kind, i, x, float(expected[i])) for (kind, i), x in got.items() if not close(x, float(expected[i]), 1e-9, 100.0)]
            if bad:
                ctx.violation(f"n = {n}: the Shapley value of a game carried by players {C} differs from the ordering average "
                              f"(entry point, player, got, expected): {bad[:3]}",
                              {"n": n, "carrier": C, "w (values of the carrier sub-game by sub-coalition id)": w,
                               "game": "v(S) = w(S restricted to the carrier)", "failures": str(bad[:6])})
            else:
                ctx.nontrivial.add(("carrier", n, tuple(C), tuple(w)))

    # in-Coq shard: the same cases evaluated by vm_compute on the Gallina model; must equal the extracted model's output
    shard = [(c, out) for c, out in zip(cases, outs) if c["n"] <= 6]
    rng.shuffle(shard)
    shard = shard[: (30 if ctx.quick else 200)]
    exprs = ["sh_all %d (sh_game_of_list %s)" % (c["n"], shapleylib.qlist(c["v"])) for c, _ in shard]
    coq_vals = shapleylib.eval_in_coq(ctx, "c06", exprs)
    for (c, out), cv in zip(shard, coq_vals):
        if cv != parse_model(out)[0]:
            mism.append((c, f"extracted model {parse_model(out)[0]} != vm_compute inside Coq {cv}"))
    ctx.coverage["in_coq_vm_compute_shard"] = len(shard)

    report(ctx, mism)
    ctx.coverage["exhaustive"] = False
    ctx.coverage["one_hot_games_exhaustive_for_n"] = list(range(1, (5 if ctx.quick else 7) + 1))
    ctx.coverage["perm_average_oracle_up_to_n"] = perm_limit


def case_json(c):
    d = {k: v for k, v in c.items() if k != "v"}
    d["v"] = [str(x) for x in c["v"]]
    d["v_float"] = [float(x) for x in c["v"]]
    return d


def report(ctx, mism):
    """Model/implementation disagreement: look for an input where the property itself fails (one-hot games around
    the disagreeing player count - they isolate every coefficient), else report no-failing-input-found."""
    if not mism or any(v["found_input"] for v in ctx.violations):
        return
    for c, detail in mism[:4]:
        n = min(c["n"], 7)
        cands = [c["v"][: 2 ** n]] if n == c["n"] else []
        for s in range(1, 2 ** n):
            v = [0] * (2 ** n)
            v[s] = 1
            cands.append(v)
        for v in cands[: (300 if n <= 6 else 60)]:
            try:
                allp, single = impl_shapley(n, v)
            except Exception as e:
                ctx.violation(f"implementation raised {type(e).__name__}: {e}", {"n": n, "v": [float(x) for x in v]})
                return
            fails = oracle(n, v, allp, single, None, 7)
            if fails:
                ctx.violation(f"C06 oracle fails on the implementation (found while searching around a model/implementation "
                              f"disagreement): {fails[:3]}",
                              {"case": {"n": n, "v": [str(x) for x in v], "v_float": [float(x) for x in v]},
                               "failures": fails[:6], "impl_all": allp, "impl_single": single})
                return
    c, detail = mism[0]
    rel = "compute_shapley_value / compute_shapley_value_for_player (impl) = sh_all / sh_player (Shapley.v) on the same game"
    ctx.violation(f"correspondence '{rel}' no longer holds: {detail} ({len(mism)} disagreeing cases)",
                  {"relation": rel, "first_disagreement": case_json(c), "detail": detail,
                   "disagreeing_cases": len(mism)}, found_input=False)


def replay(ctx, rep):
    """Re-run a recorded case on the implementation and print oracle verdicts."""
    c = rep.get("case") or rep.get("first_disagreement")
    if c is None:
        print("replay: nothing to re-run in", list(rep))
        return 2
    n = c["n"]
    v = [Fraction(x) if "/" in str(x) or str(x).lstrip("-").isdigit() else float(x) for x in c["v"]]
    allp, single = impl_shapley(n, v)
    fails = oracle(n, v, allp, single, c.get("null"), 7)
    print("n =", n, "v =", [float(x) for x in v])
    print("implementation:", allp, single)
    if n <= 7:
        print("average over orderings:", [str(x) for x in perm_average(n, v)])
    print("oracle failures:", fails)
    return 1 if fails else 0

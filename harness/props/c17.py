"""C17 - the incomplete-game object is a faithful map coalition -> (known?, lower, upper)."""
import math

import numpy as np

import boundslib as bl
import games
import opslib
from common import frac, qtok, run_driver_parallel, tokq

from incomplete_cooperative.coalitions import Coalition
from incomplete_cooperative.game import IncompleteCooperativeGame

RULE = ("random operation histories (length <= 40, n = 1..5) over set / unset / reveal / un-reveal / bulk set / bulk reset / "
        "bulk bound set (full-length and selective, duplicate ids, overlapping known coalitions, too-short id lists that must raise) / "
        "compute / copy / negate, values integer / dyadic / negative; after EVERY operation the whole table and all public getters "
        "are compared exactly with the model, and an independent abstract map (dict) maintained by the harness from the property "
        "text is compared with the known flags and values; copies and negations are kept alive and re-inspected after later "
        "operations on the other object. distinct_nontrivial = distinct histories containing at least one bulk bound setter after "
        "a reveal, or a copy/negation followed by a mutation.")
TRUSTED = ["model: theories/GameOps.v (numpy fromiter/count truncation, duplicate ids, where= masks); tie = correspondence"]
ASSUMPTIONS = ["coalition ids inside the game's range; out-of-range ids (IndexError) are outside the model"]


def rand_val(rng):
    r = rng.random()
    if r < 0.5:
        return rng.randint(-9, 9)
    if r < 0.8:
        return frac(rng.randint(-9 * 8, 9 * 8)) / 8
    return rng.randint(-10 ** 6, 10 ** 6)


def rand_op(rng, n, known):
    N = 2 ** n
    r = rng.random()
    ids = lambda k: [rng.randrange(N) for _ in range(k)]
    if r < 0.10:
        return ("set", rng.randrange(N), rand_val(rng))
    if r < 0.17:
        return ("unset", rng.randrange(N))
    if r < 0.30:
        return ("reveal", rng.randrange(N), rand_val(rng))
    if r < 0.40:
        return ("unreveal", rng.randrange(N))
    if r < 0.45:
        return ("values_all", [rand_val(rng) for _ in range(N)])
    if r < 0.52:
        k = rng.randint(0, min(N, 5))
        return ("values_some", ids(k + rng.randint(0, 2)), [rand_val(rng) for _ in range(k)])
    if r < 0.56:
        return ("known_all", [rand_val(rng) for _ in range(N)])
    if r < 0.64:
        k = rng.randint(0, min(N, 5))
        return ("known_some", ids(k + rng.randint(0, 1)), [rand_val(rng) for _ in range(k)])
    if r < 0.70:
        return (rng.choice(["lowers_all", "uppers_all"]), [rand_val(rng) for _ in range(N)])
    if r < 0.84:
        k = rng.randint(0, min(N, 5))
        return (rng.choice(["lowers_some", "uppers_some"]), ids(k + rng.randint(0, 2)), [rand_val(rng) for _ in range(k)])
    if r < 0.88:
        # malformed: fewer ids than values
        k = rng.randint(1, 4)
        return (rng.choice(["values_some", "lowers_some", "uppers_some", "known_some"]), ids(k - 1), [rand_val(rng) for _ in range(k)])
    if r < 0.92 and n >= 2:
        return ("compute", rng.choice(["superadditive", "superadditive_cached", "sam:1"]))
    if r < 0.96:
        return ("copy",)
    return ("neg",)


class Abstract:
    """The property text, executed: coalition -> value for known coalitions."""

    def __init__(self):
        self.m = {0: frac(0)}

    def clone(self):
        a = Abstract()
        a.m = dict(self.m)
        return a

    def apply(self, op, status, n):
        k = op[0]
        if status != "ok":
            if k in ("known_some", "known_all"):
                self.m = {0: frac(0)}
            return
        if k == "set" or k == "reveal":
            self.m[op[1]] = frac(op[2])
        elif k in ("unset", "unreveal"):
            self.m.pop(op[1], None)
        elif k == "values_all":
            self.m = {i: frac(x) for i, x in enumerate(op[1])}
        elif k == "values_some":
            for i, x in zip(op[1][:len(op[2])], op[2]):
                self.m[i] = frac(x)
        elif k == "known_all":
            self.m = {i: frac(x) for i, x in enumerate(op[1])}
        elif k == "known_some":
            self.m = {0: frac(0)}
            for i, x in zip(op[1][:len(op[2])], op[2]):
                self.m[i] = frac(x)
        elif k == "neg":
            self.m = {i: -x for i, x in self.m.items()}


def check_object(ctx, g, n, abstract, where, hist):
    """Oracle on the implementation: flags/values follow the abstract map; unknown never returned as a value."""
    N = 2 ** n
    known = g.are_values_known()
    fails = []
    for i in range(N):
        c = Coalition(i)
        if bool(known[i]) != (i in abstract.m):
            fails.append((i, "known flag", bool(known[i]), i in abstract.m))
            continue
        if i in abstract.m:
            x = float(abstract.m[i])
            if g.get_lower_bound(c) != x or g.get_upper_bound(c) != x or g.get_value(c) != x or g.get_known_value(c) != x:
                fails.append((i, "known value", g.get_lower_bound(c), g.get_upper_bound(c), x))
        else:
            try:
                g.get_value(c)
                fails.append((i, "get_value returned for unknown"))
            except ValueError:
                pass
            if g.get_known_value(c) is not None:
                fails.append((i, "get_known_value not None"))
            if not math.isnan(g.get_known_values([c])[0]):
                fails.append((i, "get_known_values not NaN"))
    if bool(g.full) != (len([i for i in range(N) if i in abstract.m]) == N):
        fails.append(("full",))
    # the multi-coalition getters, handed the subset in every iterable shape the package itself uses (lists, tuples, one-shot
    # generators / iterators / filter objects): an unknown coalition in the subset must never come back as a value
    rng = ctx.rng
    ids = list(range(N))
    for _ in range(2):
        sub = rng.sample(ids, rng.randint(1, min(N, 4)))
        shapes = {"list": lambda: [Coalition(i) for i in sub], "tuple": lambda: tuple(Coalition(i) for i in sub),
                  "generator": lambda: (Coalition(i) for i in sub), "iterator": lambda: iter([Coalition(i) for i in sub]),
                  "filter": lambda: filter(lambda c_: True, [Coalition(i) for i in sub])}
        all_known = all(i in abstract.m for i in sub)
        for name, mk in shapes.items():
            try:
                got = [float(x) for x in g.get_values(mk())]
                if not all_known:
                    fails.append((tuple(sub), f"get_values({name}) returned {got} although a requested coalition is unknown"))
                elif got != [float(abstract.m[i]) for i in sub]:
                    fails.append((tuple(sub), f"get_values({name}) returned {got}, known values are {[float(abstract.m[i]) for i in sub]}"))
            except ValueError:
                if all_known:
                    fails.append((tuple(sub), f"get_values({name}) raised although every requested coalition is known"))
            kv = [float(x) for x in g.get_known_values(mk())]
            want = [float(abstract.m[i]) if i in abstract.m else float("nan") for i in sub]
            if len(kv) != len(want) or any((a != b) and not (math.isnan(a) and math.isnan(b)) for a, b in zip(kv, want)):
                fails.append((tuple(sub), f"get_known_values({name}) returned {kv}, expected {want}"))
    if fails:
        ctx.violation(f"object state contradicts its operation history ({where}): {fails[:3]}",
                      {"n": n, "history": [list(map(str, o)) for o in hist], "failures": str(fails[:6])})


def unbounded_bounds_stage(ctx):
    """Bulk bound setters handed vectors that contain +inf / -inf / NaN (the natural "no information" bounds), also at the
    positions of known coalitions: a known coalition keeps lower = upper = value through every getter, an unknown one takes
    the supplied bound.  Infinite values are outside the rational model, so this stage is judged on the implementation alone."""
    rng = ctx.rng
    for _ in range(40 if ctx.quick else 400):
        n = rng.randint(1, 4)
        N = 2 ** n
        g = IncompleteCooperativeGame(n)
        known = {0: 0.0}
        for i in rng.sample(range(1, N), rng.randint(0, N - 1)):
            x = float(rng.randint(-9, 9))
            g.set_value(x, Coalition(i))
            known[i] = x
        hist = [("set", i, x) for i, x in known.items() if i]
        lower = {i: 0.0 for i in range(N) if i not in known}
        upper = dict(lower)
        palette = [float("inf"), float("-inf"), float("nan"), 0.0, 3.5, -2.0, 1e300]
        for _ in range(rng.randint(1, 4)):
            which = rng.choice(["lower", "upper"])
            if rng.random() < 0.5:
                ids = list(range(N))
            else:
                ids = sorted(rng.sample(range(N), rng.randint(1, N)))
            vals = [rng.choice(palette) for _ in ids]
            arr = np.array(vals, dtype=float)
            cs = None if len(ids) == N and rng.random() < 0.5 else [Coalition(i) for i in ids]
            (g.set_lower_bounds if which == "lower" else g.set_upper_bounds)(arr, cs)
            hist.append((which + "s", ids, vals))
            for i, x in zip(ids, vals):
                if i not in known:
                    (lower if which == "lower" else upper)[i] = x
        ctx.evaluations += 1
        ctx.count("unbounded_bounds_histories", n)
        same = lambda a, b: (a == b) or (math.isnan(a) and math.isnan(b))
        fails = []
        lo_all, up_all = g.get_lower_bounds(), g.get_upper_bounds()
        for i in range(N):
            c = Coalition(i)
            if i in known:
                got = (float(g.get_lower_bound(c)), float(g.get_upper_bound(c)), float(g.get_value(c)), float(lo_all[i]), float(up_all[i]),
                       float(g.get_values([c])[0]), float(g.get_known_values([c])[0]))
                if any(x != known[i] for x in got) or not g.is_value_known(c):
                    fails.append((i, "known coalition altered by a bulk bound setter", got, known[i]))
            else:
                if not same(float(lo_all[i]), lower[i]) or not same(float(up_all[i]), upper[i]) or g.is_value_known(c):
                    fails.append((i, "unknown coalition does not hold the supplied bounds", (float(lo_all[i]), float(up_all[i])), (lower[i], upper[i])))
        if fails:
            ctx.violation(f"bulk bound setters with infinite / NaN entries: {fails[:3]}",
                          {"n": n, "history": [list(map(str, h)) for h in hist], "failures": str(fails[:5])})
            return
        ctx.nontrivial.add(("unbounded", n, len(hist)))


def run(ctx, proof):
    rng = ctx.rng
    unbounded_bounds_stage(ctx)
    ncases = 150 if ctx.quick else 2500
    lines, metas = [], []
    for _ in range(ncases):
        n = rng.choice([1, 2, 2, 3, 3, 3, 4, 4, 5])
        L = rng.randint(1, 16 if ctx.quick else 40)
        # objects: list of dicts {g, hist (model ops incl. 'neg'), abstract}
        comp0 = rng.choice(["superadditive", "superadditive_cached", "sam:1"])   # the objects' own computer: compute ops
        # naming it go through the public compute_bounds(), the others call the computer function on the object
        objs = [{"g": IncompleteCooperativeGame(n, bl.computer_fn(comp0)), "hist": [], "abs": Abstract(), "res": []}]
        nontrivial = False
        bound_after_reveal = False
        revealed = False
        derived_then_mutated = False
        for step in range(L):
            o = rand_op(rng, n, None)
            idx = rng.randrange(len(objs))
            ob = objs[idx]
            ctx.count("op", o[0])
            if o[0] in ("copy", "neg"):
                if len(objs) >= 4:
                    continue
                g2 = ob["g"].copy() if o[0] == "copy" else -ob["g"]
                new = {"g": g2, "hist": list(ob["hist"]) + ([("neg",)] if o[0] == "neg" else []),
                       "abs": ob["abs"].clone(), "res": list(ob["res"])}
                if o[0] == "neg":
                    # the property on the implementation: negation swaps and negates the bounds, keeps knowledge, involution
                    t_src, t_neg, t_back = bl.table_of(ob["g"]), bl.table_of(g2), bl.table_of(-g2)
                    bad = [(i, a, b) for i, (a, b) in enumerate(zip(t_src, t_neg))
                           if not (a[0] == b[0] and b[1] == -a[2] and b[2] == -a[1])]
                    if bad or t_back != t_src:
                        ctx.violation(f"negation does not swap-and-negate the bounds / is not an involution: {bad[:2]}",
                                      {"n": n, "history": [list(map(str, x)) for x in ob["hist"]], "source_table": str(t_src),
                                       "negated_table": str(t_neg), "double_negation": str(t_back)})
                    new["abs"].apply(("neg",), "ok", n)
                    new["res"].append(("ok", bl.table_of(g2)))
                objs.append(new)
                snapshot = [bl.table_of(x["g"]) for x in objs]
                continue
            before_others = [bl.table_of(x["g"]) for j, x in enumerate(objs) if j != idx]
            st = opslib.apply_op(ob["g"], o, comp0)
            ob["hist"].append(o)
            ob["res"].append((st, bl.table_of(ob["g"])))
            ob["abs"].apply(o, st, n)
            if o[0] == "reveal" and st == "ok":
                revealed = True
            if o[0].startswith(("lowers", "uppers")) and revealed:
                bound_after_reveal = True
            if len(objs) > 1:
                derived_then_mutated = True
            after_others = [bl.table_of(x["g"]) for j, x in enumerate(objs) if j != idx]
            if before_others != after_others and not any(map(lambda t: any(math.isnan(c) for r in t for c in r[1:]), before_others)):
                ctx.violation("an operation on one object changed another object (copy / negation aliasing)",
                              {"n": n, "op": list(map(str, o)), "history": [list(map(str, x)) for x in ob["hist"]]})
            if o[0] == "compute" and st == "err":
                break
            check_object(ctx, ob["g"], n, ob["abs"], "after " + o[0], ob["hist"])
        for ob in objs:
            if ob["hist"]:
                lines.append("ops %d %d " % (n, len(ob["hist"])) + " ".join("neg" if o[0] == "neg" else opslib.op_tokens(o) for o in ob["hist"]))
                metas.append((n, ob))
        ctx.evaluations += 1
        ctx.count("n", n)
        ctx.count("objects", len(objs))
        if bound_after_reveal or derived_then_mutated:
            ctx.nontrivial.add(tuple(tuple(map(str, o)) for ob in objs for o in ob["hist"]))
        ctx.sample({"n": n, "history_of_first_object": [list(map(str, o))[:5] for o in objs[0]["hist"]][:10]}, limit=4)
    outs = run_driver_parallel(lines)
    mism = 0
    getter_lines, getter_meta = [], []
    for (n, ob), out in zip(metas, outs):
        model_res = opslib.parse_ops_output(out, n)
        impl_res = ob["res"]
        if ob["hist"] and ob["hist"][-1][0] == "compute" and impl_res[-1][0] == "err":
            impl_res, model_res = impl_res[:-1], model_res[:-1]   # state after a raising computation is unspecified
        d = opslib.compare_history(impl_res, model_res, exact=True)
        if d is not None:
            mism += 1
            if mism <= 3:
                ctx.violation(f"correspondence 'IncompleteCooperativeGame operations = GameOps.v model' broke at step {d[0]}: {d[1]}",
                              {"n": n, "history": [list(map(str, o)) for o in ob["hist"]], "detail": str(d)}, found_input=False)
        # getters on the final state, through the extracted Coq getters
        tab = bl.table_of(ob["g"])
        if not any(math.isnan(c) for r in tab for c in r[1:]):
            ids = [rng.randrange(2 ** n) for _ in range(4)]
            getter_lines.append(f"getters {n} " + bl.table_line(tab) + f" {len(ids)} " + " ".join(map(str, ids)))
            getter_meta.append((n, ob, ids))
    for (n, ob, ids), out in zip(getter_meta, run_driver_parallel(getter_lines)):
        parts = [p.split() for p in out.split("|")]
        g = ob["g"]
        cs = [Coalition(i) for i in ids]
        exp_value = []
        for c in cs:
            try:
                exp_value.append(qtok(g.get_value(c)))
            except ValueError:
                exp_value.append("E")
        try:
            exp_values = [qtok(x) for x in g.get_values(cs)]
        except ValueError:
            exp_values = ["E"]
        exp_kv = ["nan" if math.isnan(x) else qtok(x) for x in g.get_known_values(cs)]
        exp_k1 = ["None" if g.get_known_value(c) is None else qtok(g.get_known_value(c)) for c in cs]
        exp_full = ["1" if g.full else "0"]
        norm = lambda l: [x if x in ("E", "nan", "None", "0", "1") and "/" not in x else str(tokq(x)) if "/" in x else x for x in l]
        got = [norm(p) for p in parts]
        exp = [norm(exp_value), norm(exp_values), norm(exp_kv), norm(exp_k1), exp_full]
        if got != exp:
            ctx.violation("correspondence 'public getters = GameOps.v getters' broke",
                          {"n": n, "ids": ids, "model": str(got), "implementation": str(exp),
                           "history": [list(map(str, o)) for o in ob["hist"]]}, found_input=False)
    ctx.coverage["objects_compared_with_model"] = len(metas)

"""C11 - exhaustive search evaluates each reveal set once, correctly; finds the optimum."""
import itertools

import numpy as np

import boundslib as bl
import campaign
import envlib
import games
from common import close, frac, qtok, run_driver_parallel, tokq

from incomplete_cooperative.coalitions import Coalition
from incomplete_cooperative.game import IncompleteCooperativeGame
from incomplete_cooperative.gameplay import (get_exploitabilities_of_action_sequences,
                                             sample_exploitabilities_of_action_sequences)
from incomplete_cooperative.run.best_states import get_best_exploitability
from incomplete_cooperative.run.model import GAP_FUNCTIONS

RULE = ("cases = (n in 3,4; hidden game; starting knowledge containing the minimal information, with 0-3 extra coalitions; size limit "
        "k = 0..#unknown (all subsets); gap function; computer): get_exploitabilities_of_action_sequences is run with worker "
        "processes 1,2,3,4,8,16 - the list of sequences (order included) and values must be identical across process counts and "
        "equal to the model's chunked-starmap result; each value is re-derived independently as the gap of a fresh game in which "
        "exactly starting knowledge + set is known; get_best_exploitability vs the model fold and vs an independent per-size min of "
        "means; MetaGame.get_value vs the search value. distinct_nontrivial = distinct (game, starting knowledge, k, gap, computer).")
TRUSTED = ["models: theories/Search.v (+ Combs.v for itertools.combinations); pickling/chunking of multiprocessing.Pool is MODELLED "
           "(sr_starmap: private copy per chunk, shared within a chunk) and validated by the runs with 1..16 processes, not verified"]
ASSUMPTIONS = ["no mean gap equals the placeholder -1 (gaps are non-negative for games of the assumed class)"]


def fresh_gap(comp, gap, n, v, ids):
    g = IncompleteCooperativeGame(n, bl.computer_fn(comp))
    ids = sorted(set(ids))
    g.set_known_values([float(v[i]) for i in ids], [Coalition(i) for i in ids])
    g.compute_bounds()
    return float(GAP_FUNCTIONS[gap](g))


def gap_close(gap, impl, model, scale):
    if model is None:
        return False
    m = float(model)
    if gap == "l2_norm":
        return close(impl * impl, m, 1e-7, scale * scale)
    return close(impl, m, 1e-7, scale)


def run(ctx, proof):
    rng = ctx.rng
    gaps = list(GAP_FUNCTIONS.keys())
    comps = ["superadditive", "superadditive_cached", "sam_apx_1"]
    cases = []
    for case_i in range(6 if ctx.quick else 40):
        n = 3 if rng.random() < 0.5 else 4
        comp = rng.choice(comps)
        gap = rng.choice(gaps)
        klass = "sam" if comp.startswith("sam") else "sa"
        v = games.sa_closure_game(rng, n, rng.choice(["int", "dyadic"]), neg_singletons=False) if klass == "sa" else games.sam_game(rng, n, "int")
        opt = games.optional_ids(n)
        # starting knowledge: the minimal information alone, or strictly more (deterministically alternating)
        extra = rng.sample(opt, [0, 1, 3, 2][case_i % 4] if n == 4 else [0, 1][case_i % 2])
        K0 = sorted(games.minimal_ids(n) + extra)
        nunk = len(opt) - len(extra)
        k = rng.randint(0, nunk) if n == 3 else rng.randint(0, 3 if ctx.quick else min(nunk, 4))
        cases.append((n, comp, gap, v, K0, k))
    procs_list = [1, 2, 3] if ctx.quick else [1, 2, 3, 4, 8, 16]
    lines, metas = [], []
    for (n, comp, gap, v, K0, k) in cases:
        scale = max([1.0] + [abs(float(x)) for x in v]) * 2 ** n
        results = {}
        for p in procs_list:
            g = IncompleteCooperativeGame(n, bl.computer_fn(comp))
            g.set_known_values([float(v[i]) for i in K0], [Coalition(i) for i in K0])
            # leave stale numbers in the object that is pickled to the workers
            for i in range(2 ** n):
                if i not in K0:
                    g.set_lower_bound(rng.randint(-50, 50), Coalition(i))
            full = envlib.full_game(n, v)
            res = list(get_exploitabilities_of_action_sequences(g, full, GAP_FUNCTIONS[gap], max_size=k, processes=p))
            results[p] = [([c.id for c in seq], float(val)) for seq, val in res]
            ctx.evaluations += 1
        base = results[procs_list[0]]
        for p in procs_list[1:]:
            if results[p] != base:
                ctx.violation(f"search result depends on the number of worker processes ({procs_list[0]} vs {p})",
                              {"n": n, "comp": comp, "gap": gap, "v": [str(x) for x in v], "K0": K0, "k": k,
                               "first": str(base[:6]), "other": str(results[p][:6])})
        # enumeration oracle: every subset of size <= k of the unknown coalitions exactly once, by increasing size
        unknown = [i for i in range(2 ** n) if i not in K0]
        want = [list(c) for r in range(k + 1) for c in itertools.combinations(unknown, r)]
        got = [s for s, _ in base]
        if got != want:
            ctx.violation("enumeration of reveal sets is not 'every subset of size <= k exactly once, by size'",
                          {"n": n, "K0": K0, "k": k, "got": str(got[:10]), "want": str(want[:10])})
        # value oracle: gap of a fresh game with exactly K0 + set known
        for s, val in (base if len(base) <= 40 else rng.sample(base, 40)):
            ind = fresh_gap(comp, gap, n, v, K0 + s)
            if not close(val, ind, 1e-9, scale):
                ctx.violation("reported gap differs from the gap of the game in which exactly starting knowledge + set is known",
                              {"n": n, "comp": comp, "gap": gap, "v": [str(x) for x in v], "K0": K0, "set": s, "reported": val, "independent": ind})
        nseq = len(base)
        chunk = max(1, (nseq + 4 * 3 - 1) // (4 * 3))
        sizes = [chunk] * ((nseq + chunk - 1) // chunk)
        lines.append("srvalues %s %s %d %s %d %s %d %s %d %s" % (
            bl.model_name(comp), gap, n, " ".join(qtok(x) for x in v), len(K0), " ".join(map(str, K0)),
            nseq, " ".join("%d %s" % (len(s), " ".join(map(str, s))) if s else "0" for s, _ in base),
            len(sizes), " ".join(map(str, sizes))))
        metas.append(("search", n, comp, gap, v, K0, k, base, scale))
        ctx.nontrivial.add((n, comp, gap, tuple(map(float, v)), tuple(K0), k))
        ctx.count("n", n)
        ctx.count("k", k)
        ctx.count("gap", gap)
        ctx.count("computer", comp)
        ctx.sample({"n": n, "computer": comp, "gap": gap, "K0": K0, "k": k, "sequences": len(base), "processes": procs_list}, limit=4)

    # meta game vs search value
    try:
        from incomplete_cooperative.meta_game import MetaGame
        for (n, comp, gap, v, K0, k) in cases[:4 if ctx.quick else 20]:
            full = envlib.full_game(n, v)
            inc = IncompleteCooperativeGame(n, bl.computer_fn(comp))
            mg = MetaGame(full, inc, GAP_FUNCTIONS[gap])
            players = [c.id for c in mg.players]
            for _ in range(4):
                sub = rng.sample(range(len(players)), rng.randint(0, min(3, len(players))))
                mc = Coalition.from_players(sub)
                val = float(mg.get_value(mc))
                ind = fresh_gap(comp, gap, n, v, games.minimal_ids(n) + [players[i] for i in sub])
                ctx.evaluations += 1
                if not close(val, ind, 1e-9, max(1.0, abs(ind))):
                    ctx.violation("MetaGame.get_value differs from the gap after revealing minimal information + the chosen coalitions",
                                  {"n": n, "comp": comp, "gap": gap, "v": [str(x) for x in v], "inner": [players[i] for i in sub], "meta": val, "independent": ind})
    except ImportError:
        ctx.notes.append("meta_game not importable")

    # sampling several DIFFERENT hidden games: row j must hold the gaps of game j
    for samp_i in range(4 if ctx.quick else 16):
        n = 3 if rng.random() < 0.5 else 4
        comp = rng.choice(["superadditive", "superadditive_cached"])
        gap = rng.choice(gaps)
        sample_games = [games.sa_closure_game(rng, n, "int", neg_singletons=False) for _ in range(3)]
        if samp_i % 2:
            # different hidden games that AGREE on everything initially known (singletons and grand coalition, like the factory
            # families): game 2 takes the smallest superadditive interior values, game 3 other ones in between
            n = 4
            g1 = games.sa_closure_game(rng, n, "int", neg_singletons=False, slack_p=1.0)
            g2 = list(g1)
            for s_ in games.ids_by_size(n):
                if 2 <= games.popcount(s_) < n:
                    g2[s_] = max(g2[a_] + g2[s_ ^ a_] for a_ in games.proper_splits(s_))
            g3 = list(g2)
            for s_ in games.ids_by_size(n):
                if 2 <= games.popcount(s_) < n:
                    g3[s_] = max([g3[a_] + g3[s_ ^ a_] for a_ in games.proper_splits(s_)] + [g2[s_] if rng.random() < 0.5 else g1[s_]])
            sample_games = [g1, g2, g3] if games.is_sa(g3, n) else [g1, g2, g1]
            ctx.count("sampling_games_agree_on_initial_knowledge", int(sample_games[0] != sample_games[1]))
        k = rng.randint(1, 2)
        feed = envlib.GameFeed(n, sample_games)
        g = IncompleteCooperativeGame(n, bl.computer_fn(comp))
        m_ids = games.minimal_ids(n)
        g.set_known_values([float(sample_games[0][i]) for i in m_ids], [Coalition(i) for i in m_ids])
        acts, vals = sample_exploitabilities_of_action_sequences(g, lambda _n: feed(), GAP_FUNCTIONS[gap], samples=3, max_size=k, processes=rng.choice([1, 2]))
        ctx.evaluations += 1
        ctx.count("sampling_n", n)
        bad = []
        for j, v in enumerate(sample_games):
            for idx in rng.sample(range(len(acts)), min(len(acts), 12)):
                s_ids = [c.id for c in acts[idx]]
                ind = fresh_gap(comp, gap, n, v, m_ids + s_ids)
                if not close(float(vals[j][idx]), ind, 1e-9, max(1.0, abs(ind))):
                    bad.append((j, s_ids, float(vals[j][idx]), ind))
        if bad:
            ctx.violation(f"sample_exploitabilities_of_action_sequences: row j does not hold the gaps of the j-th sampled game: {bad[:2]}",
                          {"n": n, "comp": comp, "gap": gap, "games": [[str(x) for x in v] for v in sample_games], "k": k, "failures": str(bad[:5])})
    # best states
    bs_lines, bs_meta = [], []
    for bs_i in range(4 if ctx.quick else 24):
        n = 4 if bs_i % 4 in (1, 3) else (3 if rng.random() < 0.6 else 4)   # at n = 3 all pairs tie; the scaled runs use n = 4
        comp = rng.choice(["superadditive", "superadditive_cached"])
        gap = rng.choice(gaps)
        reps = rng.randint(2, 3)
        # value scale: the statement is scale free, so the same integer games are also used multiplied by a power of two
        # (exact in binary floating point) far below / above 1; all comparisons below are relative to the games' magnitude
        from fractions import Fraction
        vscale = [Fraction(1), Fraction(1, 2 ** 24), Fraction(2 ** 12), Fraction(1, 2 ** 30)][bs_i % 4]
        sample_games = [[vscale * x for x in games.sa_closure_game(rng, n, "int", neg_singletons=False)] for _ in range(reps)]
        mag = max(abs(float(x)) for v in sample_games for x in v) * 2 ** n or 1.0
        ctx.count("best_states_value_scale", str(vscale))

        def rclose(a, b):
            return abs(float(a) - float(b)) <= 1e-9 * mag
        max_steps = rng.randint(1, 3 if n == 3 else 2)
        if bs_i == 0:
            # a run that goes on until the gap is exactly 0 for several sizes (factory games: everything is pinned down after
            # 7 of the 10 coalitions of a 4-player game), so that "not filled yet" and "gap 0" must not be confused
            import campaign as _camp
            n, reps, vscale = 4, 2, Fraction(1)
            one = [Fraction(x) for x in _camp.repo_generator_game(rng, 4, ["factory"])[0]]
            sample_games = [one, list(one)]                  # the same owner in every sample (as the fixed-owner factory family)
            mag = max(abs(float(x)) for v in sample_games for x in v) * 2 ** n or 1.0
            max_steps = 9
        res = {}
        for p in ([1, 2] if ctx.quick else [1, 2, 4]):
            env, feed = envlib.make_env(n, comp, gap, max_steps, games.minimal_ids(n), sample_games)
            feed.i = 0
            best, acts = get_best_exploitability(env, max_steps, reps, GAP_FUNCTIONS[gap], processes=p)
            res[p] = (np.array(best), [list(a) for a in acts])
            ctx.evaluations += 1
        p0 = sorted(res)[0]
        for p in sorted(res)[1:]:
            if not np.array_equal(res[p][0], res[p0][0]) or res[p][1] != res[p0][1]:
                ctx.violation("best-states result depends on the number of worker processes", {"n": n, "gap": gap, "reps": reps})
        best, acts = res[p0]
        # independent: per size, min over subsets of the mean over the sampled games
        unknown = games.optional_ids(n)
        cands = []
        for r in range(max_steps + 1):
            for c in itertools.combinations(unknown, r):
                col = [fresh_gap(comp, gap, n, v, games.minimal_ids(n) + list(c)) for v in sample_games]
                cands.append((list(c), col))
        fails = []
        for r in range(max_steps + 1):
            means = [(sum(col) / len(col), s) for s, col in cands if len(s) == r]
            mn = min(m for m, _ in means)
            got = float(np.mean(best[r]))
            if not rclose(got, mn):
                fails.append((r, "mean not minimal", got, mn))
            if len(acts[r]) != r:
                fails.append((r, f"the set reported for size {r} has {len(acts[r])} coalitions", acts[r]))
            col_of = {tuple(s): col for s, col in cands}
            if tuple(acts[r]) not in col_of or not all(rclose(a, b) for a, b in zip(best[r], col_of[tuple(acts[r])])):
                fails.append((r, "recorded set does not attain the recorded values", acts[r]))
        curve = [float(np.mean(best[r])) for r in range(max_steps + 1)]
        if any(curve[i + 1] > curve[i] + 1e-9 * mag for i in range(max_steps)):
            fails.append(("curve increases", curve))
        if fails:
            ctx.violation(f"best-states violates its specification: {fails[:3]}",
                          {"n": n, "comp": comp, "gap": gap, "games": [[str(x) for x in v] for v in sample_games], "max_steps": max_steps})
        bs_lines.append("beststates %d %d %d %s" % (max_steps, reps, len(cands),
                        " ".join(("%d %s " % (len(s), " ".join(map(str, s))) if s else "0 ") + " ".join(qtok(x) for x in col) for s, col in cands)))
        bs_meta.append((n, gap, best, acts, max_steps, mag))
        ctx.count("best_states_n", n)
    outs = run_driver_parallel(lines + bs_lines)
    mism = []
    for (kind, n, comp, gap, v, K0, k, base, scale), out in zip(metas, outs[:len(lines)]):
        items = [x for x in out.split(";") if x.strip()]
        if len(items) != len(base):
            mism.append(f"{len(items)} model results for {len(base)} sequences")
            continue
        for (s, val), it in zip(base, items):
            ids_txt, q = it.split()
            mids = [int(x) for x in ids_txt.strip("[]").split(",") if x]
            mv = None if q == "E" else tokq(q)
            if mids != s or not gap_close(gap, val, mv, scale):
                mism.append(f"n={n} {comp} {gap} K0={K0} set={s}: impl {val} vs model {None if mv is None else float(mv)}")
                break
    for (n, gap, best, acts, ms, mag), out in zip(bs_meta, outs[len(lines):]):
        items = [x for x in out.split(";") if x.strip()]
        for r, it in enumerate(items):
            toks = it.split()
            mids = [int(x) for x in toks[0].strip("[]").split(",") if x]
            col = [float(tokq(x)) for x in toks[1:]]
            if mids != acts[r] or not all(abs(float(a) - float(b)) <= 1e-9 * mag for a, b in zip(best[r], col)):
                mism.append(f"best states size {r}: impl {acts[r]} {list(best[r])} vs model {mids} {col}")
                break
    if mism and not any(v["found_input"] for v in ctx.violations):
        ctx.violation(f"correspondence 'exhaustive search / best states = Search.v model' broke: {mism[0]} ({len(mism)} disagreements)",
                      {"disagreements": mism[:5]}, found_input=False)

"""C13 - built-in solvers pick valid actions by their rule and leave the environment untouched."""
import itertools

import numpy as np

import boundslib as bl
import campaign
import envlib
import games
from common import close, frac, qtok, run_driver_parallel, tokq

from incomplete_cooperative.run.model import GAP_FUNCTIONS
from incomplete_cooperative.solvers import SOLVERS

RULE = ("at every reachable environment state for n=3 (all subsets of revealed coalitions), sampled for n=4,5, hidden games chosen "
        "asymmetric (integer/dyadic closures, repository families) so that actions do not tie: for EVERY solver of the SOLVERS registry "
        "the returned action is compared in lock-step with the model decision (the model receives the implementation's own per-action "
        "rewards converted exactly to rationals), the per-action rewards are compared with the model (1e-9), the environment's public "
        "state is compared before/after next_step (bitwise), and an independent Python statement of each rule is evaluated; "
        "get_greedy_rewards is run with 1,2,4 processes against the exhaustive optimum. distinct_nontrivial = distinct (solver, state) "
        "in which at least two valid actions have different rewards (resp. sizes).")
TRUSTED = ["model: theories/Env.v (sv_pick, sv_greedy, sv_largest); RandomSolver's PRNG is outside the model (membership only)",
           "multiprocessing.Pool in get_greedy_rewards is exercised, not modelled"]
ASSUMPTIONS = ["the environment state is reachable (fresh bounds), actions valid"]
MODELLED = {"greedy", "greedy_worst", "random", "largest"}


def snapshot(env):
    return (bl.table_of(env.incomplete_game), env.steps_taken, [bool(x) for x in env.action_masks()],
            [float(x) for x in env.state])


def regen(ctx):
    import registry_dump
    registry_dump.regen_registry()


def run(ctx, proof):
    rng = ctx.rng
    names = set(SOLVERS.keys())
    ctx.coverage["registered_solvers"] = sorted(names)
    if names != MODELLED:
        ctx.violation(f"SOLVERS registry {sorted(names)} differs from the modelled set {sorted(MODELLED)}",
                      {"registry": sorted(names)}, found_input=False)
    states = []
    gaps = list(GAP_FUNCTIONS.keys())
    comps = ["superadditive", "superadditive_cached", "sam_apx_1"]
    n3_subsets = [c for r in range(0, 3) for c in itertools.combinations(range(3), r)]
    reps = 2 if ctx.quick else 10
    for _ in range(reps):
        for sub in n3_subsets:
            states.append((3, list(sub)))
    for _ in range(25 if ctx.quick else 400):
        n = rng.choice([4, 4, 5])
        nexpl = 2 ** n - n - 2
        k = rng.randint(0, min(nexpl - 1, 6))
        states.append((n, rng.sample(range(nexpl), k)))
    # states in which the highest-numbered (and the lowest-numbered) explorable coalitions are already revealed, so that the
    # first / last valid action is not one of extreme size
    for n in (4, 5):
        nexpl = 2 ** n - n - 2
        for m in range(1, 5 if ctx.quick else 8):
            states.append((n, list(range(nexpl - m, nexpl))))
            states.append((n, list(range(nexpl - m, nexpl)) + rng.sample(range(nexpl - m), rng.randint(0, 2))))
            states.append((n, list(range(0, m))))
    # one solver object per registered name for the whole run, as evaluate() uses them (state kept on the solver
    # object across episodes and hidden games must not influence a decision)
    persistent = {name: SOLVERS[name](None) for name in sorted(names & MODELLED)}
    # hidden games that coincide on everything initially revealed but differ elsewhere (factory games with different owners)
    factory_states = []
    for n in (4, 5):
        for owner in rng.sample(range(n), 3):
            factory_states.append((n, [], [float(games.popcount(sx) - 1) if (sx >> owner) & 1 else 0.0 for sx in range(2 ** n)]))
    lines, metas = [], []
    for (n, pre, *forced) in [(a, b) for (a, b) in states] + factory_states:
        comp = rng.choice(comps)
        gap = rng.choice(gaps)
        klass = "sam" if comp.startswith("sam") else "sa"
        r = rng.random()
        if forced:
            comp = rng.choice(["superadditive", "superadditive_cached"])
            gap = "exploitability"
            v, exact = forced[0], True
        elif klass == "sa":
            v, exact = (games.sa_closure_game(rng, n, rng.choice(["int", "dyadic"]), neg_singletons=False), True) if r < 0.7 else \
                (campaign.repo_generator_game(rng, n, ["noisy_factory", "noisy_factory_square", "graph_random", "factory_cheerleader_next"])[0], False)
        else:
            v, exact = (games.sam_game(rng, n, "int"), True) if r < 0.7 else (campaign.repo_generator_game(rng, n, campaign.SAM_GENS)[0], False)
        init_ids = games.minimal_ids(n)
        # step budgets (run_steps_limit): none, exhausted by the NEXT step, or one step later - the rule must not depend on it
        budget = rng.choice([None, None, len(pre) + 1, len(pre) + 1, len(pre) + 2])
        env, feed = envlib.make_env(n, comp, gap, budget, init_ids, [v])
        ctx.count("step_budget", "none" if budget is None else f"+{budget - len(pre)}")
        for a in pre:
            env.step(a)
        ops = [("reset", v, [float(x) for x in env.normalized_game.get_values()])] + [("step", a) for a in pre]
        valid = [i for i, m in enumerate(env.action_masks()) if m]
        if not valid:
            continue
        before = snapshot(env)
        def try_reward(a_):       # public API only: the immediate reward of an action = reward returned by step, then undo
            r_ = float(env.step(a_)[1])
            env.unstep(a_)
            return r_
        rewards = [try_reward(a) for a in valid]
        if snapshot(env) != before:
            ctx.violation("trying actions (step + unstep) does not restore the environment",
                          {"n": n, "comp": comp, "gap": gap, "v": [str(x) for x in v], "pre": pre})
        sizes = [len(env.explorable_coalitions[a]) for a in valid]
        decisions = {}
        for name in sorted(names & MODELLED):
            solver = persistent[name]
            solver.after_reset(env)
            b = snapshot(env)
            act = int(solver.next_step(env))
            if snapshot(env) != b:
                ctx.violation(f"solver '{name}' leaves the environment changed",
                              {"n": n, "comp": comp, "gap": gap, "v": [str(x) for x in v], "pre": pre, "solver": name})
            decisions[name] = act
            ctx.evaluations += 1
            ctx.count("solver", name)
            # independent statement of the rule
            if act not in valid:
                ctx.violation(f"solver '{name}' returned an invalid action {act}", {"n": n, "v": [str(x) for x in v], "pre": pre, "valid": valid})
                continue
            if name in ("greedy", "greedy_worst"):
                best = max(rewards) if name == "greedy" else min(rewards)
                want = valid[rewards.index(best)]
                if act != want:
                    ctx.violation(f"solver '{name}' chose {act}, rule says {want}",
                                  {"n": n, "comp": comp, "gap": gap, "v": [str(x) for x in v], "pre": pre, "valid": valid, "rewards": rewards})
                if len(set(rewards)) > 1:
                    ctx.nontrivial.add((name, n, comp, gap, tuple(map(float, v)), tuple(pre)))
            if name == "largest":
                want = valid[sizes.index(max(sizes))]
                if act != want:
                    ctx.violation(f"solver 'largest' chose {act}, rule says {want}",
                                  {"n": n, "v": [str(x) for x in v], "pre": pre, "valid": valid, "sizes": sizes})
                if len(set(sizes)) > 1:
                    ctx.nontrivial.add((name, n, tuple(pre)))
        ops_q = ops + [("q_valid",), ("q_largest",)] + [("q_try", a) for a in valid]
        lines.append(envlib.env_line(n, comp, gap, budget, init_ids, ops_q))
        lines.append("pick 0 %d %s %d %s" % (len(valid), " ".join(map(str, valid)), len(valid), " ".join(qtok(x) for x in rewards)))
        lines.append("pick 1 %d %s %d %s" % (len(valid), " ".join(map(str, valid)), len(valid), " ".join(qtok(x) for x in rewards)))
        metas.append({"n": n, "comp": comp, "gap": gap, "v": v, "pre": pre, "valid": valid, "rewards": rewards,
                      "decisions": decisions, "nops": len(ops), "exact": exact})
        ctx.count("n", n)
        ctx.sample({"n": n, "computer": comp, "gap": gap, "revealed_actions": pre, "valid": valid, "rewards": rewards, "decisions": decisions}, limit=4)
    outs = run_driver_parallel(lines)
    mism = []
    for i, m in enumerate(metas):
        envout, p0, p1 = outs[3 * i], outs[3 * i + 1], outs[3 * i + 2]
        segs = envout.split("|")[1:]
        q = segs[m["nops"]:]
        mvalid = [int(x) for x in q[0].split()[1:]]
        mlargest = q[1].split()[1]
        mtry = [s.split()[1] for s in q[2:]]
        d = None
        if mvalid != m["valid"]:
            d = f"valid actions {m['valid']} vs model {mvalid}"
        elif "largest" in m["decisions"] and mlargest != str(m["decisions"]["largest"]):
            d = f"largest: impl {m['decisions']['largest']} vs model {mlargest}"
        elif "greedy" in m["decisions"] and p0.strip() != str(m["decisions"]["greedy"]):
            d = f"greedy: impl {m['decisions']['greedy']} vs model pick {p0.strip()} on rewards {m['rewards']}"
        elif "greedy_worst" in m["decisions"] and p1.strip() != str(m["decisions"]["greedy_worst"]):
            d = f"greedy_worst: impl {m['decisions']['greedy_worst']} vs model pick {p1.strip()}"
        else:
            scale = max([1.0] + [abs(float(x)) for x in m["v"]])
            for a, r, mt in zip(m["valid"], m["rewards"], mtry):
                if mt == "E":
                    d = f"model cannot try action {a}"
                    break
                g = float(tokq(mt))
                ok = close(r * r, g * g, 1e-7, scale * scale) if m["gap"] == "l2_norm" and False else None
                if m["gap"] == "l2_norm":
                    # model carries the squared norm: reward = -sqrt(l2sq)
                    if not close(r * r, -g, 1e-7, scale * scale):
                        d = f"reward of action {a}: impl {r} (squared {r*r}) vs model squared gap {-g}"
                        break
                elif not close(r, g, 1e-7, scale):
                    d = f"reward of action {a}: impl {r} vs model {g}"
                    break
        if d is not None:
            mism.append((m, d))
    if mism and not any(v["found_input"] for v in ctx.violations):
        m, d = mism[0]
        ctx.violation(f"correspondence 'solvers = Env.v sv_* model' broke: {d} ({len(mism)} disagreeing states)",
                      {"first": {k: str(v) for k, v in m.items()}, "detail": d}, found_input=False)

    # expected greedy search vs exhaustive optimum (implementation-side oracle; processes 1,2,4)
    from incomplete_cooperative.gameplay import get_exploitabilities_of_action_sequences
    from incomplete_cooperative.run.greedy import get_greedy_rewards
    from incomplete_cooperative.game import IncompleteCooperativeGame
    eg_lines, eg_meta = [], []
    from fractions import Fraction
    for eg_i in range(4 if ctx.quick else 24):
        # the statement is scale free: the same kind of integer games is also used multiplied by a power of two (exact in
        # binary floating point) far below / above 1, and every comparison below is relative to the games' magnitude
        vscale = [Fraction(1), Fraction(1, 2 ** 30), Fraction(2 ** 12), Fraction(1, 2 ** 24)][eg_i % 4]
        n = 4 if eg_i % 4 in (1, 3) else (3 if rng.random() < 0.4 else 4)
        gapn = rng.choice(gaps + ["l1_norm", "linf_norm"])
        comp = rng.choice(["superadditive", "superadditive_cached"])
        sample_games = [[vscale * x for x in games.sa_closure_game(rng, n, "int", neg_singletons=False)] for _ in range(rng.choice([1, 2, 3]))]
        mag = max(abs(float(x)) for v in sample_games for x in v) * 2 ** n or 1.0
        ctx.count("expected_greedy_value_scale", str(vscale))
        max_steps = rng.randint(1, 3)
        if eg_i == 0:
            # a full-length run on a plateau gap (l-infinity): from some step on no remaining coalition improves the gap
            n, gapn, max_steps, vscale = 3, "linf_norm", 3, Fraction(1)
            sample_games = [games.sa_closure_game(rng, n, "int", neg_singletons=False)]
            mag = max(abs(float(x)) for v in sample_games for x in v) * 2 ** n or 1.0
        elif eg_i == 2:
            # ... and a full-length run on a factory game, whose gap closes after 7 of the 10 reveals
            n, gapn, max_steps, vscale = 4, "l1_norm", 10, Fraction(1)
            sample_games = [[Fraction(x) for x in campaign.repo_generator_game(rng, 4, ["factory"])[0]]]
            mag = max(abs(float(x)) for v in sample_games for x in v) * 2 ** n or 1.0
        results = []
        for procs in ([1, 2] if ctx.quick else [1, 2, 4]):
            env, feed = envlib.make_env(n, comp, gapn, max_steps, games.minimal_ids(n), sample_games)
            feed.i = 0
            curve, chosen = get_greedy_rewards(env, max_steps, len(sample_games), GAP_FUNCTIONS[gapn], processes=procs)
            results.append((procs, np.array(curve), list(chosen)))
            ctx.evaluations += 1
        base = results[0]
        fails = []
        for procs, curve, chosen in results[1:]:
            if not np.array_equal(curve, base[1]) or chosen != base[2]:
                fails.append(("depends on process count", procs))
        curve, chosen = base[1], base[2]
        # model of the search (exact gaps only: integer games with l1 / l-infinity, so that ties break identically)
        if gapn in ("l1_norm", "linf_norm"):
            env0, _ = envlib.make_env(n, comp, gapn, max_steps, games.minimal_ids(n), sample_games)
            possible = [c.id for c in set(env0.explorable_coalitions)]
            eg_lines.append("egsearch %s %s %d %d %s %d %s %d %d %s" % (
                bl.model_name(comp), gapn, n, len(sample_games), " ".join(qtok(x) for v in sample_games for x in v),
                n + 2, " ".join(map(str, games.minimal_ids(n))), max_steps, len(possible), " ".join(map(str, possible))))
            eg_meta.append((n, comp, gapn, sample_games, max_steps, curve, chosen, mag))
        means = curve.mean(axis=1)
        if len(set(chosen)) != len(chosen):
            fails.append(("repeats a coalition", chosen))
        if any(means[i + 1] > means[i] + 1e-9 * mag for i in range(len(means) - 1)):
            fails.append(("curve increases", list(means)))
        # the choice rule, step by step: the coalition appended at step i minimises the mean gap among all extensions of the prefix
        def mean_gap(ids):
            tot = 0.0
            for v in sample_games:
                g = IncompleteCooperativeGame(n, bl.computer_fn(comp))
                ks = sorted(set(games.minimal_ids(n)) | set(ids))
                from incomplete_cooperative.coalitions import Coalition as _C
                g.set_known_values([float(v[i]) for i in ks], [_C(i) for i in ks])
                g.compute_bounds()
                tot += float(GAP_FUNCTIONS[gapn](g))
            return tot / len(sample_games)
        for i in range(len(chosen)):
            prefix = list(chosen[:i])
            cand = {c: mean_gap(prefix + [c]) for c in games.optional_ids(n) if c not in prefix}
            mn = min(cand.values())
            if chosen[i] not in cand or cand[chosen[i]] > mn + 1e-9 * mag:
                fails.append(("step %d appends coalition %s with mean gap %r, but coalition %s gives %r" % (
                    i + 1, chosen[i], cand.get(chosen[i]), min(cand, key=cand.get), mn),))
                break
        # exhaustive optimum of the mean gap for each size
        opt = {}
        for v in sample_games:
            g = IncompleteCooperativeGame(n, bl.computer_fn(comp))
            m_ids = games.minimal_ids(n)
            from incomplete_cooperative.coalitions import Coalition
            g.set_known_values([float(v[i]) for i in m_ids], [Coalition(i) for i in m_ids])
            full = envlib.full_game(n, v)
            for seq, val in get_exploitabilities_of_action_sequences(g, full, GAP_FUNCTIONS[gapn], max_size=max_steps):
                key = tuple(sorted(c.id for c in seq))
                opt.setdefault(key, []).append(float(val))
        best = {}
        for key, vals in opt.items():
            mval = sum(vals) / len(vals)
            best[len(key)] = min(best.get(len(key), float("inf")), mval)
        for k in range(len(means)):
            if k in best and means[k] < best[k] - 1e-9 * mag:
                fails.append(("below the exhaustive optimum", k, means[k], best[k]))
            if k <= 1 and k in best and abs(means[k] - best[k]) > 1e-9 * mag:
                fails.append(("differs from the optimum for <= 1 reveal", k, means[k], best[k]))
        if fails:
            ctx.violation(f"expected-greedy search violates its specification: {fails[:3]}",
                          {"n": n, "gap": gapn, "comp": comp, "games": [[str(x) for x in v] for v in sample_games], "max_steps": max_steps})
        ctx.count("expected_greedy", n)

    eg_bad = []
    for (n, comp, gapn, sg, ms, curve, chosen, mag), out in zip(eg_meta, run_driver_parallel(eg_lines)):
        if out.startswith("err"):
            eg_bad.append("model search raised where the implementation returned")
            continue
        parts = out.split(";")
        mseq = [int(x) for x in parts[0].strip().strip("[]").split(",") if x]
        mrows = [[float(tokq(x)) for x in p.split()] for p in parts[1:]]
        if mseq != chosen or len(mrows) != curve.shape[0] or any(
                abs(float(a) - float(b)) > 1e-9 * mag for ra, rb in zip(curve.tolist(), mrows) for a, b in zip(ra, rb)):
            eg_bad.append(f"n={n} {comp} {gapn} max_steps={ms}: impl {chosen} {curve.tolist()} vs model {mseq} {mrows}")
    ctx.coverage["expected_greedy_runs_compared_with_model"] = len(eg_meta)
    if eg_bad and not any(v["found_input"] for v in ctx.violations):
        ctx.violation(f"correspondence 'get_greedy_rewards = eg_search model' broke: {eg_bad[0]} ({len(eg_bad)} disagreements)",
                      {"disagreements": eg_bad[:4]}, found_input=False)

"""C20 - saving results is all-or-nothing under a crash."""
from __future__ import annotations

import importlib
import json
from pathlib import Path

import crashlib as cl
import storelib as sl
from common import run_driver

KEY_INPLACE = "C20:save_json:truncate-before-write"

RULE = ("case = (history of 0..5 earlier runs already in data.json, new run whose file payload is ~70 B .. ~2 MB, or a repeated "
        "name). The save is first run once under the tracer: its operation trace (open, every f.write, every raw write(2) "
        "with byte count, close, replace) is translated to Crash.v operations and compared with the model's trace for the scheme it "
        "follows (in-place: cr_save_inplace, temp+replace: cr_save_atomic; anything else = unknown scheme). Then the fault is "
        "injected at operation k - interrupt mode: EVERY k when the trace has <= 4000 (thorough 12000) operations; death mode: "
        "EVERY k when it has <= 200 (thorough 1000) operations; longer traces: every non-write operation (a stratified "
        "sample of them for the 2 MB payloads), the first/last 6 f.write calls, writes next to a raw write and a seeded sample of "
        "the others (the f.write calls between two raw writes leave the same kernel-visible file) - in three modes: i = the k-th operation raises a BaseException, "
        "d = a forked child calls os._exit at the k-th operation, m = (raw writes) half of the bytes reach the kernel, then "
        "os._exit. After each, the bytes of data.json are compared with what the model allows at that k and - the oracle - "
        "must equal the previous file or the complete new file (hence parse and keep every earlier run). "
        "distinct_nontrivial = distinct (case, k, mode) with k >= 1 (something had happened when the fault hit).")
TRUSTED = ["model of the file-system effects of a save: theories/Crash.v (hand-written); tie = trace comparison + fault injection on every run",
           "POSIX semantics assumed by the model, NOT verified: rename(2) within one directory is atomic; bytes handed to the kernel by a "
           "completed write(2) survive the death of the process; open(O_TRUNC) empties the file at once. Power loss, fsync ordering, "
           "network file systems are out of scope",
           "CPython io stack (TextIOWrapper/BufferedWriter/FileIO) observed through recording subclasses assembled like io.open does; "
           "an exception raised inside a buffer flush makes CPython drop the chunk in flight - modelled by Cr_Partial n with n measured",
           "the fault-injection harness (harness/crashlib.py): monkey-patches io.open, builtins.open, os.replace, os.rename, os.unlink in "
           "the harness process only; os.fork for the death mode"]
ASSUMPTIONS = ["atomic_all_or_nothing: temp path differs from data.json; the body of the trace only writes/spills/flushes the temp handle "
               "and its writes concatenate to the payload (checked on every recorded trace by cr_body_ok)",
               "atomic_never_loses: decode (encode s) = Some s (CPython json codec, trusted) and saves run one at a time (no concurrent writer)",
               "one writer process; directory entry of the temp file is private to the save"]


def _save_mod():
    return importlib.import_module("incomplete_cooperative.run.save")


# ---------------------------------------------------------------- cases
def entry_spec(rng, size_class):
    """An Output spec whose JSON text has roughly the requested size."""
    if size_class == "tiny":
        return {"data": {"shape": [1, 1], "dtype": "float", "cells": [float(rng.randint(0, 9)).hex()]},
                "actions": {"shape": [1, 1], "dtype": "int", "cells": [rng.randint(0, 7)]},
                "args": [["func", ["str", "eval"]]]}
    if size_class == "small":
        return sl.gen_output_spec(rng)
    rows = {"medium": rng.randint(40, 120), "large": rng.randint(1500, 2500), "huge": rng.randint(24000, 28000)}[size_class]
    spec = sl.gen_output_spec(rng, big=rows)
    return spec


def make_cases(ctx):
    rng = ctx.rng
    cases = []
    if ctx.quick:
        plan = [(2, "tiny"), (0, "tiny"), (1, "tiny"), (2, "small"), (3, "small"), (4, "small"), (5, "tiny"), (0, "small"),
                (1, "medium"), (3, "medium"), (2, "large"), (1, "huge"), (3, "repeat"), (0, "medium")]
    else:
        plan = ([(e, s) for e in (2, 0, 1, 3, 4, 5) for s in ("tiny", "small", "small")] + [(e, "medium") for e in range(6)] + [(1, "medium"), (4, "medium")]
                + [(0, "large"), (2, "large"), (5, "large"), (0, "huge"), (4, "huge"), (2, "repeat"), (5, "repeat")])
    for earlier, size in plan:
        names = rng.sample(sl.NAMES, earlier) if earlier <= len(sl.NAMES) else [f"r{i}" for i in range(earlier)]
        hist = [{"name": n, "out": entry_spec(rng, rng.choice(["tiny", "small", "small"]))} for n in names]
        if size == "repeat":
            new = {"name": rng.choice(names), "out": entry_spec(rng, "small")}
        else:
            fresh = [n for n in sl.NAMES + ["new run"] if n not in names]
            new = {"name": rng.choice(fresh), "out": entry_spec(rng, size)}
        cases.append({"earlier": hist, "new": new, "size_class": size, "later": entry_spec(rng, "tiny")})
    return cases


# ---------------------------------------------------------------- one case
class CaseRun:
    def __init__(self, ctx, case, workdir: Path):
        self.ctx, self.case, self.dir = ctx, case, workdir
        self.save = _save_mod()
        self.path = workdir / "data.json"
        # earlier runs through the real save_json, untraced
        cl.reset_dir(workdir, None)
        for h in case["earlier"]:
            self.save.save_json(self.path, h["name"], sl.build_output(h["out"]))
        self.old, _ = cl.read_dir(workdir)
        self.old_parsed = json.loads(self.old) if self.old is not None else None
        self.out = sl.build_output(case["new"]["out"])
        self.name = case["new"]["name"]
        self.follow = {}
        self.follow_budget = 60 if ctx.quick else 250

    def save_fn(self):
        self.save.save_json(self.path, self.name, self.out)

    def clean(self):
        cl.reset_dir(self.dir, self.old)
        tr, outcome = cl.traced_save(self.save_fn, self.dir)
        self.new, self.leftover = cl.read_dir(self.dir)
        self.events = tr.events
        self.n_inject = tr.n_inject
        return outcome

    def inject(self, idx, mode):
        cl.reset_dir(self.dir, self.old)
        if mode == "i":
            tr, outcome = cl.traced_save(self.save_fn, self.dir, plan=(idx, "i"), keep_bytes=False)
            fired = tr.fired
        else:
            code = cl.forked_save(self.save_fn, self.dir, (idx, mode))
            fired = code == cl.EXIT_INJECTED
            outcome = f"exit {code}"
        content, others = cl.read_dir(self.dir)
        # the session goes on: a later ordinary save (of a SMALL result) in a healthy process must find a usable file,
        # keep every run saved before the interrupted save, and add its own entry
        if fired and getattr(self, "follow_budget", 0) > 0:
            self.follow_budget -= 1
            verdict = {"ok": True}
            try:
                self.save.save_json(self.path, "later_run", sl.build_output(self.case["later"]))
                after, _ = cl.read_dir(self.dir)
                parsed = json.loads(after)
                lost = [k for k, v in (self.old_parsed or {}).items()
                        if not (isinstance(parsed, dict) and k in parsed and sl.json_same(v, parsed[k]))]
                if lost or "later_run" not in parsed:
                    verdict = {"ok": False, "why": "runs missing after the follow-up save", "lost_runs": lost,
                               "later_run_present": "later_run" in parsed}
            except BaseException as e:
                after, _ = cl.read_dir(self.dir)
                verdict = {"ok": False, "why": f"follow-up save / parse failed: {type(e).__name__}: {str(e)[:120]}",
                           "file_after_followup": _show(after)}
            self.follow[(idx, mode)] = verdict
        return content, others, fired, outcome


def oracle(run: CaseRun, content):
    """The property itself on the bytes found after the fault.  Returns (ok, detail)."""
    if content == run.old or content == run.new:
        return True, None
    detail = {"is_previous_file": False, "is_complete_new_file": False,
              "length": None if content is None else len(content),
              "previous_length": None if run.old is None else len(run.old), "new_length": len(run.new or b"")}
    if content is None:
        detail["parses"] = False
        detail["lost_runs"] = list((run.old_parsed or {}).keys())
        return False, detail
    try:
        parsed = json.loads(content)
        detail["parses"] = True
    except ValueError:
        detail["parses"] = False
        detail["lost_runs"] = list((run.old_parsed or {}).keys())
        return False, detail
    detail["lost_runs"] = [k for k, v in (run.old_parsed or {}).items()
                           if not (isinstance(parsed, dict) and k in parsed and sl.json_same(v, parsed[k]))]
    return False, detail


def choose_points(ctx, events):
    """Which operations get a fault, per mode.  Returns (selected or None, interrupt points, death points)."""
    inj = [e for e in events if "idx" in e]
    allidx = [e["idx"] for e in inj]
    writes = [e["idx"] for e in inj if e["kind"] == "write"]
    other = [e["idx"] for e in inj if e["kind"] != "write"]
    adj = set()      # the write that made a buffer spill and the one after it
    for a, b in zip(inj, inj[1:]):
        if a["kind"] == "raw" and b["kind"] == "write":
            adj.add(b["idx"])
        if a["kind"] == "write" and b["kind"] == "raw":
            adj.add(a["idx"])
    adj = sorted(adj)
    rng = ctx.rng
    q = ctx.quick

    def sample(l, n):
        return set(rng.sample(l, min(n, len(l))))

    def stratified(n_other, n_writes, n_adj):
        o = set(other) if len(other) <= n_other else set(other[:n_other // 3] + other[-(n_other // 3):]) | sample(other, n_other // 3)
        ends = 6 if len(inj) <= 60000 or not q else 1
        return o | set(writes[:ends] + writes[-ends:]) | sample(writes, n_writes) | sample(adj, n_adj)

    every_i = 4000 if q else 12000
    every_d = 200 if q else 1000
    if len(inj) <= every_i:
        pi = set(allidx)
    elif len(inj) <= 60000:
        pi = stratified(*((20, 14, 6) if q else (100, 80, 30)))
    else:
        pi = stratified(*((4, 2, 1) if q else (16, 10, 6)))
    if len(inj) <= every_d:
        pd = set(allidx)
    elif len(inj) <= every_i:
        pd = stratified(*((30, 20, 8) if q else (200, 200, 60)))
    elif len(inj) <= 60000:
        pd = stratified(*((20, 10, 6) if q else (100, 80, 30)))
    else:
        pd = stratified(*((4, 2, 1) if q else (16, 10, 6)))
    sel = pi | pd
    return (None if len(sel) == len(inj) else sel), sorted(pi), sorted(pd)


def run_case(ctx, ci, case, mism):
    work = ctx.work / f"case{ci}"
    run = CaseRun(ctx, case, work)
    outcome = run.clean()
    target = str(Path(str(run.path)).resolve())
    rep_base = {"earlier_runs": [h["name"] for h in case["earlier"]], "case": case if case["size_class"] in ("tiny", "small", "repeat") else
                {"earlier": case["earlier"], "new": {"name": case["new"]["name"], "out": "(large; regenerate from the seed)"},
                 "size_class": case["size_class"]}, "case_index": ci}
    ctx.evaluations += 1
    ctx.count("earlier_runs", len(case["earlier"]))
    if outcome != "completed":
        ctx.violation(f"C20: the uninterrupted save did not complete: {outcome}", rep_base, found_input=True)
        return
    selected, points_i, points_d = choose_points(ctx, run.events)
    points = sorted(set(points_i) | set(points_d))
    pset_i, pset_d = set(points_i), set(points_d)
    ops, kmap, paths = cl.model_trace(run.events, target, selected)
    scheme, h, q = cl.identify_scheme(ops)
    ctx.count("scheme", scheme)
    ctx.count("payload_bytes", _bucket(len(run.new or b"")))
    ctx.count("trace_ops", _bucket(run.n_inject))
    n_raw = sum(1 for e in run.events if e["kind"] == "raw")
    ctx.count("raw_writes", _bucket(n_raw))
    expected_store = dict(run.old_parsed or {})
    repeat = run.name in expected_store
    if not repeat:
        expected_store[run.name] = json.loads(json.dumps(run.out.json, default=run.save.json_serializer))
    if run.new is None or not sl.json_same(json.loads(run.new), expected_store):
        ctx.violation("C20/C19: the uninterrupted save did not produce old entries + new entry", dict(rep_base, file=str(run.new)[:500]))
        return
    if repeat:
        if ops or run.new != run.old:
            mism.append(dict(rep_base, what="saving an existing name performed file operations", ops=[o[0] for o in ops]))
        return
    if len(ctx.samples) < 4:
        ctx.sample({"earlier_runs": rep_base["earlier_runs"], "new_name": run.name, "payload_bytes": len(run.new),
                    "scheme": scheme, "trace_kinds": _compress([o[0] for o in ops]),
                    "fault_points_interrupt": len(points_i), "fault_points_death": len(points_d), "operations": run.n_inject})
    # ---- fault injection on the implementation
    results = []   # (idx, mode, content, others, event)
    evs = {e["idx"]: e for e in run.events if "idx" in e}
    for idx in points:
        ev = evs[idx]
        modes = ((["i"] if idx in pset_i else []) + (["d"] if idx in pset_d else [])
                 + (["m"] if idx in pset_d and ev["kind"] == "raw" and ev["n"] >= 2 else []))
        for mode in modes:
            content, others, fired, outc = run.inject(idx, mode)
            if not fired:
                mism.append(dict(rep_base, what="the injected run did not reach the planned operation (trace not reproducible)",
                                 k=idx, mode=mode, outcome=outc))
                continue
            results.append((idx, mode, content, others, ev))
    # ---- the model's view
    model_ok = scheme in ("inplace", "atomic")
    allowed = {}
    if model_ok:
        pre, body, post = cl.split_trace(ops)
        fs = [] if run.old is None else [("1", sl.str_tok(run.old))]
        # kernel-visible bytes before each event, for the Cr_Partial argument of interrupts inside a flush
        queries = []
        results.sort(key=lambda r: (kmap[r[0]], r[1]))
        for idx, mode, content, others, ev in results:
            k = kmap[idx]
            if mode == "d":
                queries.append(f"{k} d")
            elif mode == "m":
                queries.append(f"{k} x {ev['n'] // 2}")
            elif ev["kind"] == "raw":
                queries.append(f"{k} x {_partial_arg(run, idx, content, scheme, paths, q)}")
            else:
                queries.append(f"{k} i")
        line = " ".join(["cr_sim", scheme, str(h), "1", str(q or 2), str(len(fs))] + [f"{p} {b}" for p, b in fs]
                        + [sl.str_tok(run.new)]
                        + [str(len(pre))] + [cl.op_tokens(o) for o in pre]
                        + [str(len(body))] + [cl.op_tokens(o) for o in body]
                        + [str(len(post))] + [cl.op_tokens(o) for o in post]
                        + [str(len(queries))] + queries)
        import time
        t0 = time.time()
        out = run_driver([line])[0]
        ctx.coverage["model_seconds"] = round(ctx.coverage.get("model_seconds", 0) + time.time() - t0, 2)
        head, mid, tail = [s.strip() for s in out.split("|")]
        digests = mid.split()
        if head != "body_ok=1 trace_match=1":
            model_ok = False
            mism.append(dict(rep_base, what=f"recorded trace is not the model's {scheme} trace: {head}",
                             trace_kinds=_compress([o[0] for o in ops])))
        elif tail.split()[1] != sl.digest(run.new):
            mism.append(dict(rep_base, what="model's final file differs from the implementation's", model=tail, impl=sl.digest(run.new)))
        else:
            for (idx, mode, content, others, ev), dg in zip(results, digests):
                allowed[(idx, mode)] = dg
            if not ctx.quick and len(run.new) <= 2500 and selected is None:
                trace = "[" + "; ".join(coq_op(o) for o in ops) + "]"
                fs0 = "(cr_mkfs [])" if run.old is None else f"(cr_mkfs [(1%N, {sl.coq_bytes(run.old)})])"
                step = max(1, len(results) // 12)
                for (idx, mode, content, others, ev), qy in list(zip(results, queries))[::step]:
                    parts = qy.split()
                    m = {"d": "Cr_Death", "i": "Cr_Interrupt"}.get(parts[1]) or f"(Cr_Partial {parts[2]}%nat)"
                    res = "None" if content is None else f"Some {sl.coq_bytes(content)}"
                    SHARD.append(f"cr_crash_at {m} {trace} {parts[0]}%nat {fs0} 1%N = {res}")
    if scheme == "unknown":
        mism.append(dict(rep_base, what="the recorded operations follow neither the in-place nor the temp+replace scheme "
                                        "(no theorem covers them)", trace_kinds=_compress([o[0] for o in ops]),
                         paths={v: k for k, v in paths.items()}))
    if not model_ok:
        ctx.count("scheme_confirmed_by_model", "no")
    else:
        ctx.count("scheme_confirmed_by_model", scheme)
    # ---- verdicts
    for idx, mode, content, others, ev in results:
        ctx.evaluations += 1
        ctx.count("fault_mode", mode)
        ctx.count("fault_at", ev["kind"] + ("(in close)" if ev.get("nested") == "close" else ""))
        if idx >= 2:
            ctx.nontrivial.add((ci, idx, mode))
        fv = run.follow.get((idx, mode))
        if fv is not None:
            ctx.count("followup_save", "fine" if fv["ok"] else "broken")
            if not fv["ok"]:
                ctx.violation("C20 oracle (session continues): after the interrupted save a later ordinary save does not find / "
                              "produce a file holding every earlier run: " + fv["why"],
                              dict(rep_base, interrupted_operation_index=idx, interrupted_operation=_describe(ev),
                                   mode=_mode_name(mode), scheme=scheme, file_after_fault=_show(content),
                                   other_files_after_fault=others, followup=fv), found_input=True)
        ok, detail = oracle(run, content)
        dg = sl.digest(content)
        explained = model_ok and allowed.get((idx, mode)) == dg
        if model_ok and not explained:
            mism.append(dict(rep_base, what="file after the fault is not what the model allows", k=idx, mode=mode,
                             at=ev["kind"], model=allowed.get((idx, mode)), impl=dg))
        if not ok:
            ctx.count("oracle", "violated")
            rep = dict(rep_base, interrupted_operation_index=idx, interrupted_operation=_describe(ev), mode=_mode_name(mode),
                       scheme=scheme, file_after=_show(content), other_files_after=others, verdict=detail,
                       operations_in_trace=run.n_inject)
            key = KEY_INPLACE if (scheme == "inplace" and explained) else None
            what = ("C20 oracle: data.json after the fault is neither the previous file nor the complete new file"
                    + ("" if detail.get("parses") else "; it does not parse")
                    + (f"; {len(detail['lost_runs'])} earlier run(s) lost" if detail.get("lost_runs") else ""))
            ctx.violation(what, rep, found_input=True, key=key)
        else:
            ctx.count("oracle", "holds")


def _partial_arg(run, idx, content, scheme, paths, q):
    """n for Cr_Partial: how many buffered bytes still reached the file the handle writes to, measured on the implementation."""
    kernel = 0
    for e in run.events:
        if e.get("idx") == idx:
            break
        if e["kind"] == "raw":
            kernel += e["n"]
    if scheme == "inplace":
        return max(0, (len(content) if content is not None else 0) - kernel)
    tmp = next((p for p, i in paths.items() if i == q), None)
    try:
        return max(0, Path(tmp).stat().st_size - kernel) if tmp else 0
    except OSError:
        return 0


def _bucket(n):
    for b in (0, 10, 100, 1000, 10_000, 100_000, 1_000_000):
        if n <= b:
            return f"<={b}"
    return ">1e6"


def _compress(kinds):
    out = []
    for k in kinds:
        if out and out[-1][0] == k:
            out[-1][1] += 1
        else:
            out.append([k, 1])
    return " ".join(k if n == 1 else f"{k}*{n}" for k, n in out)


def _describe(ev):
    d = {k: v for k, v in ev.items() if k in ("kind", "h", "n", "path", "mode", "src", "dst", "nested", "idx")}
    return d


def _mode_name(m):
    return {"i": "interrupt (BaseException raised by the operation)", "d": "death (os._exit in a forked child)",
            "m": "death in the middle of the raw write (half of its bytes written)"}[m]


def _show(content):
    if content is None:
        return None
    if len(content) <= 400:
        return content.decode("utf-8", "replace")
    return {"length": len(content), "head": content[:200].decode("utf-8", "replace"), "tail": content[-100:].decode("utf-8", "replace")}


# ---------------------------------------------------------------- in-Coq shard (thorough)
SHARD = []


def coq_op(op) -> str:
    k = op[0]
    if k == "ot":
        return f"Cr_OpenTrunc {op[1]}%N {op[2]}%N"
    if k == "om":
        return f"Cr_OpenTmp {op[1]}%N {op[2]}%N"
    if k == "w":
        return f"Cr_Write {op[1]}%N {sl.coq_bytes(b''.join(op[2]))}"
    if k == "sp":
        return f"Cr_Spill {op[1]}%N {op[2]}%nat"
    if k == "fl":
        return f"Cr_Flush {op[1]}%N"
    if k == "cl":
        return f"Cr_Close {op[1]}%N"
    if k == "rp":
        return f"Cr_Replace {op[1]}%N {op[2]}%N"
    raise ValueError(k)


def coq_shard(ctx, limit=120):
    """Crash.v evaluated inside Coq against the bytes the IMPLEMENTATION left behind (not against the driver):
    cr_crash_at mode trace k fs 1 = Some <bytes found in data.json>."""
    ex = SHARD[:limit]
    ok, log, secs = sl.run_coq_shard(ctx, "C20", "Crash", ex)
    ctx.coverage["in_coq_shard"] = {"examples": len(ex), "compiled": ok, "seconds": secs,
                                    "what": "cr_crash_at (vm_compute inside Coq) = bytes of data.json after the injected fault"}
    if not ok:
        ctx.violation("in-Coq evaluation of Crash.v disagrees with the files the implementation left behind on the shard",
                      {"log": log}, found_input=False)


# ---------------------------------------------------------------- entry points
def public_save_stage(ctx):
    """The same oracle through the PUBLIC entry point save(model_dir, name, output) that eval / solve / greedy / best_states
    call - including the first save into a model directory that does not exist yet. The two plot savers are replaced by
    no-ops for this stage (they write image files, not the results file); everything else of save() runs as it is."""
    import shutil
    save = _save_mod()
    rng = ctx.rng
    import os
    import tempfile
    base = ctx.work / "c20_public"
    bases = [base]
    # a model directory on ANOTHER file system than the system temp directory (a rename from there would degrade to a copy)
    shm = Path("/dev/shm")
    try:
        if shm.is_dir() and os.access(shm, os.W_OK) and os.stat(shm).st_dev != os.stat(tempfile.gettempdir()).st_dev:
            bases.append(shm / f"verif_c20_{os.getpid()}")
    except OSError:
        pass
    ctx.coverage["public_save_model_dirs"] = [str(b) for b in bases]
    real = dict(save.SAVERS)
    stubs = {k: ((lambda *a, **k_: None) if f is not save.save_json else f) for k, f in real.items()}
    plans = [0, 0, 1, 2] if ctx.quick else [0, 0, 0, 1, 1, 2, 3, 4]
    try:
        save.SAVERS.clear()
        save.SAVERS.update(stubs)
        for pi, n_earlier in enumerate(plans + [1] * (len(bases) - 1)):
            base = bases[0] if pi < len(plans) else bases[1 + pi - len(plans)]
            earlier = [{"name": f"old{i}", "out": entry_spec(rng, "tiny" if i else "small")} for i in range(n_earlier)]
            new_out = sl.build_output(entry_spec(rng, rng.choice(["tiny", "small"])))
            later_out = sl.build_output(entry_spec(rng, "tiny"))
            model_dir = base / "model"

            def prepare():
                if base.exists():
                    shutil.rmtree(base)
                base.mkdir(parents=True)
                for h in earlier:                      # earlier runs through the real save(), untraced
                    save.save(model_dir, h["name"], sl.build_output(h["out"]))
                p = model_dir / "data.json"
                return p.read_bytes() if p.exists() else None

            def save_fn():
                save.save(model_dir, "new_run", new_out)

            old = prepare()
            old_parsed = json.loads(old) if old is not None else {}
            tr, outcome = cl.traced_save(save_fn, base)
            if outcome != "completed":
                ctx.violation(f"save() into {'a fresh' if old is None else 'an existing'} model directory {outcome}",
                              {"earlier_runs": n_earlier}, found_input=True)
                continue
            new = (model_dir / "data.json").read_bytes()
            n_ops = tr.n_inject
            ctx.count("public_save_ops", n_ops)
            for idx in range(1, n_ops + 1):
                kind_at = next((e.get("kind") for e in tr.events if e.get("idx") == idx), None)
                for mode in ("i", "d", "e"):
                    if mode == "e" and kind_at != "raw":
                        continue          # a full disk shows up at a write(2)
                    prepare()
                    if mode in ("i", "e"):
                        t2, _ = cl.traced_save(save_fn, base, plan=(idx, mode), keep_bytes=False)
                        fired = t2.fired
                    else:
                        fired = cl.forked_save(save_fn, base, (idx, mode)) == cl.EXIT_INJECTED
                    if not fired:
                        continue
                    ctx.evaluations += 1
                    ctx.count("public_save_faults", mode)
                    p = model_dir / "data.json"
                    content = p.read_bytes() if p.exists() else None
                    ok = content == old or content == new
                    why = None
                    if not ok:
                        try:
                            parsed = json.loads(content) if content is not None else {}
                            # a file holding exactly the previous runs counts as "the previous file"
                            ok = isinstance(parsed, dict) and set(parsed) == set(old_parsed) and \
                                all(sl.json_same(old_parsed[k], parsed[k]) for k in old_parsed)
                            why = None if ok else "parses, but is neither the previous runs nor the complete new file"
                        except Exception as e:
                            why = f"does not parse ({type(e).__name__})"
                    if ok:
                        # the session goes on: the next ordinary save() in a healthy process must find a usable file, keep every
                        # run saved before the interrupted save and add its own entry (whatever the fault left lying around)
                        try:
                            save.save(model_dir, "later_run", later_out)
                            after = json.loads((model_dir / "data.json").read_text())
                            lost = [k for k in old_parsed if not (k in after and sl.json_same(old_parsed[k], after[k]))]
                            if lost or "later_run" not in after:
                                ok, why = False, f"after the NEXT save() the results file lacks earlier runs {lost} / the new entry"
                        except Exception as e:  # noqa: BLE001
                            ok, why = False, f"the NEXT save() fails: {type(e).__name__}: {str(e)[:100]}"
                        if ok:
                            ctx.nontrivial.add(("public", pi, idx, mode))
                            continue
                        content = (model_dir / "data.json").read_bytes() if (model_dir / "data.json").exists() else None
                    ev = next((e for e in tr.events if e.get("idx") == idx), {})
                    ctx.violation(f"save() interrupted ({ {'i': 'exception', 'd': 'process death', 'e': 'I/O error that persists (disk full)'}[mode] }) at file operation {idx} of {n_ops} "
                                  f"({ev.get('kind')} {Path(ev.get('path', '')).name}) with {n_earlier} earlier runs "
                                  f"{'in a fresh model directory' if old is None else ''}: data.json afterwards {why}: {_show(content)}",
                                  {"entry_point": "incomplete_cooperative.run.save.save", "earlier_runs": n_earlier, "fault_at_operation": idx,
                                   "mode": mode, "operation": {k: str(v)[:80] for k, v in ev.items() if k != "data"},
                                   "file_after": _show(content), "previous_file": _show(old)})
                    return
    finally:
        save.SAVERS.clear()
        save.SAVERS.update(real)
        for b_ in bases:
            if b_.exists():
                shutil.rmtree(b_, ignore_errors=True)


def run(ctx, proof):
    public_save_stage(ctx)
    mism = []
    cases = make_cases(ctx)
    import time
    timing = []
    for ci, case in enumerate(cases):
        t0 = time.time()
        run_case(ctx, ci, case, mism)
        timing.append(f"{case['size_class']}/{len(case['earlier'])}: {time.time() - t0:.1f}s")
    ctx.coverage["seconds_per_case"] = timing
    ctx.coverage["model_impl_mismatches"] = len(mism)
    if mism:
        ctx.coverage["first_mismatch"] = mism[0]
        if not any(v["found_input"] for v in ctx.violations):
            ctx.violation("correspondence broken: recorded file operations of save_json / file contents after a fault vs Crash.v "
                          "(cr_save_inplace / cr_save_atomic, cr_crash); no fault violating the property found",
                          {"mismatches": len(mism), "first": mism[0]}, found_input=False)
        elif any(v["key"] is None for v in ctx.violations):
            pass
        else:
            # every oracle failure is the known in-place defect but something else disagrees with the model as well
            ctx.violation("correspondence broken besides the in-place defect", {"mismatches": len(mism), "first": mism[0]},
                          found_input=False)
    # most informative replays first: faults that lost earlier runs, one per case, then the rest
    seen = set()

    def rank(v):
        r = v["replay"]
        lost = len((r.get("verdict") or {}).get("lost_runs") or [])
        first_of_case = r.get("case_index") not in seen
        seen.add(r.get("case_index"))
        return (0 if v["found_input"] else 1, 0 if (lost and first_of_case) else 1, 0 if first_of_case else 1)
    ranks = [rank(v) for v in ctx.violations]
    ctx.violations[:] = [v for _, v in sorted(zip(ranks, ctx.violations), key=lambda t: t[0])]
    if not ctx.quick:
        coq_shard(ctx)
    ctx.coverage["exhaustive"] = False
    ctx.coverage["violating_fault_points"] = sum(1 for v in ctx.violations if v["found_input"])


def replay(ctx, rep):
    case = rep.get("case")
    if not case or case["new"]["out"] == "(large; regenerate from the seed)":
        print("large case: re-run ./check C20 with the same VERIF_SEED")
        return 2
    run = CaseRun(ctx, case, ctx.work / "replay")
    run.clean()
    mode = {"interrupt": "i", "death (": "d", "death in": "m"}[next(k for k in ("interrupt", "death (", "death in") if rep["mode"].startswith(k))]
    content, others, fired, outc = run.inject(rep["interrupted_operation_index"], mode)
    ok, detail = oracle(run, content)
    print("previous file :", _show(run.old))
    print("file after    :", _show(content))
    print("verdict       :", "property holds" if ok else f"VIOLATED {detail}")
    return 0 if ok else 1

"""C02 - tightness of the superadditive bounds."""
import numpy as np

import boundslib as bl
import campaign
import games

RULE = ("same (game, K, stale, computer) cases and histories as C01; every implementation output is compared with the model "
        "(about which the tightness theorems speak) AND with an independent exact optimum computed in Fractions: best partition "
        "into known coalitions (memoised) and min over known strict supersets; thorough tier also solves the two LPs over the "
        "polytope of superadditive completions (scipy linprog, n<=4) on a subsample. distinct_nontrivial = distinct "
        "(computer, n, K, game) with a non-degenerate interval.")
TRUSTED = ["model: theories/Bounds.v; tie = correspondence", "scipy.optimize.linprog only as an extra oracle in the thorough tier"]
ASSUMPTIONS = ["hidden game superadditive with v(empty)=0; knowledge contains the minimal information"]
COMPS = ["superadditive", "superadditive_cached"]


def oracle(c, tab):
    return bl.oracle_tight(c["n"], c["v"], c["K"], tab, exact=(c["stream"] == "exact"))


ORACLES = [("C02 tightness oracle (independent exact optimum)", oracle)]


def lp_check(ctx, c, tab):
    """max / min of w(S) over superadditive completions, by LP (n <= 4)."""
    from scipy.optimize import linprog
    n, v, K = c["n"], [float(x) for x in c["v"]], set(c["K"])
    N = 2 ** n
    A, b = [], []
    for s in range(N):
        for a in games.proper_splits(s):
            if a < (s ^ a):
                row = [0.0] * N
                row[a] += 1
                row[s ^ a] += 1
                row[s] -= 1
                A.append(row)
                b.append(0.0)
    Aeq, beq = [], []
    for k in K:
        row = [0.0] * N
        row[k] = 1
        Aeq.append(row)
        beq.append(v[k])
    fails = []
    for s in range(N):
        if s in K:
            continue
        for sign, col, name in ((1, 1, "lower"), (-1, 2, "upper")):
            cvec = [0.0] * N
            cvec[s] = sign
            r = linprog(cvec, A_ub=A, b_ub=b, A_eq=Aeq, b_eq=beq, bounds=[(None, None)] * N, method="highs")
            if r.status != 0:
                fails.append((s, name, "lp status %d" % r.status))
                continue
            opt = sign * r.fun
            if abs(opt - tab[s][col]) > 1e-6 * max(1.0, abs(opt)):
                fails.append((s, name + " != LP optimum", (tab[s][col], opt)))
    return fails


def run(ctx, proof):
    if ctx.quick:
        plan = [(2, 3, "all"), (3, 6, "all"), (4, 4, 12), (5, 2, 6), (6, 1, 2)]
        hplan = [(3, 20, 12), (4, 12, 14), (9, 1, 8)]
    else:
        plan = [(2, 10, "all"), (3, 40, "all"), (4, 3, "all"), (4, 30, 40), (5, 20, 30), (6, 6, 10)]
        hplan = [(3, 200, 30), (4, 150, 30), (5, 40, 30), (9, 4, 12)]
    cases = campaign.make_cases(ctx, COMPS, "sa", plan)
    mism = campaign.run_cases(ctx, cases, ORACLES)
    mism += campaign.run_histories(ctx, COMPS, "sa", hplan, ORACLES)
    # beyond 8 players (table-size / dtype limits of the memoised structure): the tightness oracle on the implementation alone,
    # negative-valued families included (a stale zero is then not a valid lower bound), fresh objects and one un-reveal
    from incomplete_cooperative.coalitions import Coalition
    for (n9, cnt) in ([(9, 2)] if ctx.quick else [(9, 8), (10, 2)]):
        for _ in range(cnt):
            v9, src9 = campaign.repo_generator_game(ctx.rng, n9, campaign.SAM_GENS if ctx.rng.random() < 0.7 else campaign.SA_GENS)
            opt9 = games.optional_ids(n9)
            K9 = sorted(games.minimal_ids(n9) + ctx.rng.sample(opt9, ctx.rng.randint(0, 10)))
            g9 = bl.make_game("superadditive_cached", n9, v9, K9)
            g9.compute_bounds()
            extra = ctx.rng.choice([i for i in opt9 if i not in K9])
            g9.reveal_value(float(v9[extra]), Coalition(extra))
            g9.compute_bounds()
            g9.unreveal_value(Coalition(extra))
            g9.compute_bounds()
            ctx.evaluations += 1
            ctx.count("n", n9)
            fails = bl.oracle_tight(n9, v9, K9, bl.table_of(g9), exact=False)
            if fails:
                ctx.violation(f"C02 tightness oracle fails at n={n9} (superadditive_cached, {src9}) after compute, reveal {extra}, compute, "
                              f"un-reveal, compute: {fails[:3]}",
                              {"comp": "superadditive_cached", "n": n9, "generator": src9 + " (GENERATORS[name](n, default_rng(seed)))",
                               "K": K9, "revealed_then_unrevealed": extra, "failures": str(fails[:5])})
            else:
                ctx.nontrivial.add(("big", n9, tuple(K9), src9))
    if not ctx.quick:
        sub = [c for c in cases if c["n"] <= 4 and c["stream"] == "exact"][::25][:60]
        for c in sub:
            st, tab = bl.impl_compute(c["comp"], c["n"], c["v"], c["K"], c["stale"])
            if st == "ok":
                f = lp_check(ctx, c, tab)
                ctx.count("lp_checked", c["n"])
                if f:
                    ctx.violation(f"bounds differ from the LP optimum over superadditive completions: {f[:3]}",
                                  {"case": campaign.case_json(c), "failures": str(f[:5])})
    import coqshard
    coqshard.cross_check(ctx, cases, limit=8 if ctx.quick else 40)
    campaign.report_mismatches(ctx, mism, ORACLES, "compute_bounds (impl) = compute (Bounds.v model) on the same table")

"""C16 - the size-aggregated (linear) environment is a faithful abstraction of the full one."""
import itertools

import numpy as np

import boundslib as bl
import campaign
import envlib
import games
from common import frac, run_driver_parallel, tokq

from incomplete_cooperative.icg_gym_linear import ICG_Gym_Linear
from incomplete_cooperative.run.model import GAP_FUNCTIONS

RULE = ("lock-step runs of ICG_Gym_Linear vs the Env.v lv_* model, n = 3..6: sequences of allowed sizes until done (ALL size "
        "sequences for n=3, sampled above), hidden games from closures and repository families, numpy.random seeded by the harness; "
        "the coalition actually revealed is read from info and handed to the model as the oracle argument, so every tie-break is "
        "covered. After reset and every step: linear mask, linear observation (exact), candidates per size, reward, done, inner "
        "environment knowledge. Independent oracle: mask[k] iff an unknown explorable coalition of size k exists; the revealed "
        "coalition has the requested size and was unknown; observation = per-size sum of the inner observation, length n. "
        "distinct_nontrivial = distinct (game, size sequence, revealed coalitions) with at least two steps.")
TRUSTED = ["model: theories/Env.v lv_*; numpy.random.choice is an oracle (the chosen coalition is an input of the model)"]
ASSUMPTIONS = ["sizes chosen among those the mask allows"]


def lin_observe(lin):
    return {"lmask": [bool(x) for x in lin.action_masks()], "lobs": [float(x) for x in lin.state]}


def run(ctx, proof):
    rng = ctx.rng
    np.random.seed(ctx.seed % (2 ** 32))
    gaps = list(GAP_FUNCTIONS.keys())
    jobs = []
    plans = []
    # n = 3: only size 2 is ever allowed (3 coalitions): all sequences = up to 3 steps of size 2, repeated with several seeds
    for _ in range(6 if ctx.quick else 40):
        plans.append((3, None))
    for _ in range(14 if ctx.quick else 250):
        plans.append((rng.choice([4, 4, 5, 6]), None))
    for (n, _) in plans:
        comp = rng.choice(["superadditive", "superadditive_cached", "sam_apx_1"])
        gap = rng.choice(gaps)
        klass = "sam" if comp.startswith("sam") else "sa"
        if klass == "sa":
            v = games.sa_closure_game(rng, n, rng.choice(["int", "dyadic"]), neg_singletons=False) if rng.random() < 0.6 else \
                campaign.repo_generator_game(rng, n, ["noisy_factory", "graph_random", "factory_square", "graph_cycle"])[0]
        else:
            v = games.sam_game(rng, n, "int") if rng.random() < 0.6 else campaign.repo_generator_game(rng, n, campaign.SAM_GENS)[0]
        exact = all(float(x) == int(float(x)) or frac(x).denominator <= 1024 for x in v)
        budget = rng.choice([None, None, 4])
        init_ids = games.minimal_ids(n)
        env, feed = envlib.make_env(n, comp, gap, budget, init_ids, [v])
        lin = ICG_Gym_Linear(env)
        st, info = lin.reset()
        expl = [c.id for c in env.explorable_coalitions]
        ops = [("reset", v, [float(x) for x in env.normalized_game.get_values()]), ("q_lin",)]
        obs = [("state", envlib.observe(env)), ("lin", lin_observe(lin))]
        fails = []
        if [float(x) for x in st] != obs[1][1]["lobs"]:
            fails.append(("reset() observation differs from state",))
        sizes_seq, revealed = [], []
        held = (st, list(obs[1][1]["lobs"]), "reset()")       # an observation the agent still holds while it asks for the mask
        raised = None
        for episode in range(2):
            if raised:
                break
            if episode == 1:
                # a second episode on the SAME environment object: nothing of the first one may leak into it
                st2, _ = lin.reset()
                held = (st2, [float(x) for x in st2], "the second reset()")
                ops += [("reset", v, [float(x) for x in env.normalized_game.get_values()]), ("q_lin",)]
                obs += [("state", envlib.observe(env)), ("lin", lin_observe(lin))]
                if [float(x) for x in st2] != obs[-1][1]["lobs"] or any(x != 0 for x in st2):
                    fails.append(("observation after the second reset is not all zero / differs from state", [float(x) for x in st2]))
                sizes_seq.append("reset")
            steps = 0
            while steps < ((2 ** n) if episode == 0 else 3) and not (lin.done and rng.random() < 0.7):
                lmask = [bool(x) for x in lin.action_masks()]
                allowed = [k for k, m in enumerate(lmask) if m]
                if held is not None and [float(x) for x in held[0]] != held[1]:
                    fails.append((f"the observation returned by {held[2]} changed when action_masks() was called afterwards "
                                  f"(the agent reads observation, then mask, then decides)", [float(x) for x in held[0]], held[1]))
                    held = None
                # independent statement of the mask
                known = env.incomplete_game.are_values_known()
                want = [any((not known[c]) and games.popcount(c) == k for c in expl) for k in range(len(lmask))]
                if lmask != want:
                    fails.append(("mask", lmask, want))
                if len(lmask) != n:
                    fails.append(("mask length", len(lmask)))
                if not allowed:
                    break
                k = rng.choice(allowed)
                before_known = set(int(i) for i in np.where(known)[0])
                try:
                    res = lin.step(k)
                except Exception as e:  # noqa: BLE001  (a step with a size the mask allows must not raise)
                    raised = (k, sorted(before_known), str(e)[:100])
                    fails.append((f"step({k}) with a size the mask allows raised {type(e).__name__}: {str(e)[:80]}", k))
                    break
                held = (res[0], [float(x) for x in res[0]], f"step({k})")
                c = int(res[4]["chosen_coalition"])
                a = expl.index(c)
                if games.popcount(c) != k or c in before_known:
                    fails.append(("revealed coalition has wrong size or was known", k, c))
                after_known = set(int(i) for i in np.where(env.incomplete_game.are_values_known())[0])
                if after_known != before_known | {c}:
                    fails.append(("more than one coalition changed", sorted(after_known ^ before_known)))
                inner = [float(x) for x in env.state]
                agg = [sum(x for x, cc in zip(inner, expl) if games.popcount(cc) == kk) for kk in range(n)]
                lobs = [float(x) for x in res[0]]
                if len(lobs) != n or any(abs(p - q) > 1e-12 for p, q in zip(lobs, agg)):
                    fails.append(("observation is not the per-size sum", lobs, agg))
                if float(res[1]) != float(env.reward) or bool(res[2]) != bool(env.done):
                    fails.append(("reward/done differ from the inner environment",))
                ops += [("lstep", k, a), ("q_lin",)]
                ob = envlib.observe(env)
                ob["info"] = c
                obs += [("state", ob), ("lin", lin_observe(lin))]
                sizes_seq.append(k)
                revealed.append(c)
                steps += 1
        if fails:
            ctx.violation(f"linear environment contradicts its specification: {fails[:3]}",
                          {"n": n, "comp": comp, "gap": gap, "v": [str(x) for x in v], "sizes": sizes_seq, "revealed": revealed,
                           "numpy_seed": ctx.seed % (2 ** 32), "failures": str(fails[:5])})
        jobs.append((envlib.env_line(n, comp, gap, budget, init_ids, ops), obs,
                     {"n": n, "comp": comp, "gap": gap, "budget": budget, "v": v, "sizes": sizes_seq, "revealed": revealed, "exact": exact, "expl": expl}))
        ctx.count("n", n)
        ctx.count("steps", len([x for x in sizes_seq if x != "reset"]))
        for k in sizes_seq:
            ctx.count("size_chosen", k)
    outs = run_driver_parallel([j[0] for j in jobs])
    mism = []
    for (line, obs, meta), out in zip(jobs, outs):
        ctx.evaluations += 1
        segs = out.split("|")[1:]
        n = meta["n"]
        d = None
        for i, ((kind, ob), seg) in enumerate(zip(obs, segs)):
            if kind == "state":
                m = envlib.parse_state(seg, n)
                d = envlib.compare_obs(ob, m, meta["gap"], meta["exact"])
                if d is None and "info" in ob and m.get("info") != ob["info"]:
                    d = f"info {ob['info']} vs {m.get('info')}"
            else:
                toks = seg.split()
                lm = [c == "1" for c in toks[toks.index("LM") + 1]]
                lo_i, lc_i = toks.index("LO"), toks.index("LC")
                lo = [tokq(x) for x in toks[lo_i + 1:lc_i]]
                if lm != ob["lmask"]:
                    d = f"linear mask {ob['lmask']} vs {lm}"
                elif len(lo) != len(ob["lobs"]) or any(abs(float(a) - b) > 1e-12 * max(1.0, abs(b)) for a, b in zip(lo, ob["lobs"])):
                    d = f"linear observation {ob['lobs']} vs {[float(x) for x in lo]}"
            if d is not None:
                d = f"call {i}: {d}"
                break
        if d is not None:
            mism.append((meta, d))
        if len([x for x in meta["sizes"] if x != "reset"]) >= 2:
            ctx.nontrivial.add((meta["comp"], meta["gap"], tuple(map(float, meta["v"])), tuple(meta["sizes"]), tuple(meta["revealed"])))
        ctx.sample({"n": n, "computer": meta["comp"], "gap": meta["gap"], "sizes": meta["sizes"], "revealed": meta["revealed"]}, limit=4)
    if mism and not any(v["found_input"] for v in ctx.violations):
        meta, d = mism[0]
        ctx.violation(f"correspondence 'ICG_Gym_Linear = Env.v lv_* model' broke: {d} ({len(mism)} disagreeing runs)",
                      {"first": {k: str(v) for k, v in meta.items()}, "detail": d}, found_input=False)

"""C03 - cached and reference superadditive computers are interchangeable."""
import hashlib

import numpy as np

import boundslib as bl
import campaign
import games
from common import run_driver

from incomplete_cooperative import bounds as impl_bounds

RULE = ("cases = (game, K containing the minimal information, stale rows) as in C01, n = 2..8; each case runs the "
        "implementation's cached AND reference computers and the model: exact stream must be bit-identical three ways, "
        "float stream 1e-12 impl/impl and 1e-9 impl/model; plus repeated invocation on one object and interleavings "
        "n1,n2,n1,... within this interpreter with the three memoised arrays hashed after every call; plus the memoised "
        "relation matrix compared with Structure.st_matrix. distinct_nontrivial = distinct (n, K, game) with a non-degenerate interval.")
TRUSTED = ["models: theories/Bounds.v (both computers), theories/Structure.v (relation matrix, memo); tie = correspondence",
           "functools.cache itself (keyed by the argument) is modelled as an association list, not verified"]
ASSUMPTIONS = ["known rows carry lower == upper (true of every table produced by the public value setters, see C17)"]
COMPS = ["superadditive", "superadditive_cached"]


def struct_hash(n):
    fn = getattr(impl_bounds, "_get_sub_super_coalition_structure", None)
    if fn is None:          # the memo lives under another name: only the behavioural part of the statement can be judged
        return None
    a, b, c = fn(n)
    h = hashlib.sha256()
    h.update(np.ascontiguousarray(a).tobytes())
    h.update(np.sort(np.ascontiguousarray(b)).tobytes())   # argsort order within a size class is not specified
    h.update(np.ascontiguousarray(c).tobytes())
    return h.hexdigest()


def run(ctx, proof):
    rng = ctx.rng
    plan = [(2, 3, "all"), (3, 6, "all"), (4, 4, 10), (5, 3, 5), (6, 2, 2)] if ctx.quick else \
           [(2, 10, "all"), (3, 30, "all"), (4, 2, "all"), (4, 30, 30), (5, 20, 20), (6, 8, 8)]
    cases = campaign.make_cases(ctx, ["superadditive_cached"], "sa", plan)
    # "every incomplete game on which both are defined": the known values need not come from a superadditive game
    plan_arb = [(3, 4, "all"), (4, 6, 10), (5, 6, 6)] if ctx.quick else [(3, 20, "all"), (4, 30, 30), (5, 30, 20), (6, 8, 8)]
    cases += campaign.make_cases(ctx, ["superadditive_cached"], "arbitrary", plan_arb)
    # impl vs impl oracle on every case (this IS the property), then impl vs model for both computers
    def oracle(c, tab_cached):
        st, tab_ref = bl.impl_compute("superadditive", c["n"], c["v"], c["K"], c["stale"])
        if st != "ok":
            return [("reference raised", tab_ref)]
        exact = c["stream"] == "exact"
        d = bl.compare_tables(tab_cached, [(k, l, h) for k, l, h in tab_ref] if not exact else
                              [(k, bl.frac(l), bl.frac(h)) for k, l, h in tab_ref], exact=exact, tol=1e-12)
        return [("cached != reference", d)] if d is not None else []
    ORACLES = [("C03 impl-cached == impl-reference", oracle)]
    mism = campaign.run_cases(ctx, cases, ORACLES)
    cases_ref = [dict(c, comp="superadditive") for c in cases[::3]]
    mism += campaign.run_cases(ctx, cases_ref, [])
    # "repeated invocation on one game object": ONE cached-computer object whose knowledge grows, shrinks and returns; after
    # every compute its table must equal what the reference computer gives for the same knowledge (and the model's table)
    mism += campaign.run_histories(ctx, ["superadditive_cached"], "sa",
                                   [(3, 15, 12), (4, 10, 14), (5, 3, 12)] if ctx.quick else [(3, 150, 30), (4, 120, 30), (5, 40, 24), (6, 6, 16)],
                                   ORACLES)

    # impl/impl only, larger n
    big = [(7, 2, 2), (8, 1, 1)] if ctx.quick else [(7, 6, 4), (8, 3, 2)]
    for (n, ng, nk) in big:
        for _ in range(ng):
            v = games.sa_closure_game(rng, n, rng.choice(["int", "dyadic"]))
            for _ in range(nk):
                K = games.random_knowledge(rng, n)
                ctx.evaluations += 1
                ctx.count("n", n)
                s1, t1 = bl.impl_compute("superadditive_cached", n, v, K)
                s2, t2 = bl.impl_compute("superadditive", n, v, K)
                if s1 != s2 or t1 != t2:
                    ctx.violation("cached and reference computers disagree (bitwise, exact stream)",
                                  {"n": n, "v": [str(x) for x in v], "K": K, "cached": str(t1)[:2000], "reference": str(t2)[:2000]})
                elif any((not k) and lo != hi for k, lo, hi in t1):
                    ctx.nontrivial.add(("big", n, tuple(K), tuple(map(float, v))))

    # impl/impl on arbitrary (not superadditive) tables, n = 5..7: a split of a coalition into two UNKNOWN parts can be the
    # only good one when the known coalitions have low values, which needs |coalition| >= 4 and so n >= 5
    arb = [(5, 60), (6, 80), (7, 8)] if ctx.quick else [(5, 600), (6, 500), (7, 60), (8, 10)]
    for (n, cnt) in arb:
        for _ in range(cnt):
            small = rng.random() < 0.5
            v = [0] + [(rng.randint(0, 2) if small else rng.randint(-20, 20)) for _ in range(2 ** n - 1)]
            K = games.random_knowledge(rng, n)
            ctx.evaluations += 1
            ctx.count("arbitrary_tables_n", n)
            s1, t1 = bl.impl_compute("superadditive_cached", n, v, K)
            s2, t2 = bl.impl_compute("superadditive", n, v, K)
            if s1 != s2 or t1 != t2:
                d = [(i, t1[i], t2[i]) for i in range(2 ** n) if t1[i] != t2[i]][:3] if s1 == s2 == "ok" else (s1, s2)
                ctx.violation(f"cached and reference computers disagree on a table that is not superadditive (bitwise, integers): {d}",
                              {"n": n, "v": [str(x) for x in v], "K": K, "differences(id, cached, reference)": str(d)})
                break
            elif any((not k) and lo != hi for k, lo, hi in t1):
                ctx.nontrivial.add(("arb", n, tuple(K), tuple(map(float, v))))

    # interleavings of player counts + repeated invocation; memo arrays must never change
    hashes = {}
    seq = [rng.randint(2, 6) for _ in range(30 if ctx.quick else 200)]
    for n in seq:
        v = games.sa_closure_game(rng, n, "int")
        K = games.random_knowledge(rng, n)
        g = bl.make_game("superadditive_cached", n, v, K)
        g.compute_bounds()
        first = bl.table_of(g)
        g.compute_bounds()
        again = bl.table_of(g)
        st, ref = bl.impl_compute("superadditive", n, v, K)
        ctx.evaluations += 1
        ctx.count("interleaved_n", n)
        h = struct_hash(n)
        if hashes.setdefault(n, h) != h:
            ctx.violation("memoised coalition structure changed between calls", {"n": n, "sequence": seq})
        if first != again or first != ref:
            ctx.violation("cached computer differs from reference under interleaved / repeated use",
                          {"n": n, "v": [str(x) for x in v], "K": K, "sequence": seq,
                           "first": str(first), "again": str(again), "reference": str(ref)})
    ctx.sample({"interleaving_of_player_counts": seq[:20]})

    # the memoised relation matrix vs Structure.st_matrix
    for n in ([1, 2, 3, 4, 5] if ctx.quick else [1, 2, 3, 4, 5, 6, 7]):
        out = run_driver([f"structure {n}"])[0]
        rows_m = [[int(x) for x in r.split()] for r in out.split("|") if r.strip()]
        fn = getattr(impl_bounds, "_get_sub_super_coalition_structure", None)
        if fn is None:
            mism.append(({"comp": "structure", "n": n, "v": [], "K": [], "stale": None, "stream": "exact", "src": "structure"},
                         "the memoised relation structure is no longer found under its anchored name; Structure.v is not tied to it"))
            break
        a, b, c = fn(n)
        rows_i = [[int(x) for x in row] for row in c]
        ctx.evaluations += 1
        if rows_m != rows_i or list(map(int, a)) != list(range(2 ** n)) or \
                [games.popcount(int(x)) for x in b] != sorted(games.popcount(i) for i in range(2 ** n)):
            mism.append(({"comp": "structure", "n": n, "v": [], "K": [], "stale": None, "stream": "exact", "src": "structure"},
                         f"relation matrix / sorted ids differ for n={n}"))
    import coqshard
    coqshard.cross_check(ctx, cases, limit=8 if ctx.quick else 40)
    campaign.report_mismatches(ctx, mism, ORACLES, "implementation (both computers, memoised structure) = Bounds.v / Structure.v model")

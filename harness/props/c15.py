"""C15 - normalisation maps superadditive games into [0,1] and is invertible (normalize.py, graph_game.py, icg_gym.state)."""
from __future__ import annotations

import math
from fractions import Fraction

import numpy as np

import common
import games
from common import frac, qtok, tokq, run_driver_parallel

from incomplete_cooperative.coalitions import Coalition, all_coalitions, minimal_game_coalitions
from incomplete_cooperative.game import IncompleteCooperativeGame
from incomplete_cooperative.game_properties import is_superadditive
from incomplete_cooperative.graph_game import GraphCooperativeGame
from incomplete_cooperative.normalize import denormalize_game, normalize_game

RULE = ("cases = full games in both representations. Value tables: exact stream (integer / dyadic superadditive games by closure and "
        "unanimity sums, exactly additive games, power-of-two-surplus games [whole result compared bit-for-bit], additive + 2^-k unanimity, "
        "plus non-superadditive / non-zero-normalised integer tables for the correspondence only) and float stream (every registered "
        "generator family that imports x n x seeds, closure-float, additive float games, additive + delta*unanimity for delta in 1e-18..1e-3); "
        "graph games: integer / dyadic / float weight matrices, every graph generator family, zero matrix, negative weights and raw "
        "(unpolished) matrices for the correspondence only; partially known tables (both sides must raise); ICG_Gym.state walked through "
        "every action for hidden games of several families. Each case: normalize_game (norm info, known/lower/upper table or matrix + "
        "values), denormalize_game with the returned info; model = Normalize.v through the extracted driver. "
        "distinct_nontrivial = distinct (representation, n, input values) on which normalisation is not the identity "
        "(some singleton value or the surplus is non-zero).")
TRUSTED = ["model of normalize.py / GraphCooperativeGame.get_value: theories/Normalize.v (hand-written, loop for loop); tie = correspondence on every run",
           "numpy in-place division of array views (upper_bounds /= g) and np.sum are modelled by exact rational arithmetic",
           "ICG_Gym.state is not modelled: only the oracle (observation inside the declared Box up to the tolerance) is run on it"]
ASSUMPTIONS = ["input game is full (every coalition known), v(empty) = 0 and superadditive as accepted by the library's is_superadditive "
               "(exact stream: exactly superadditive); graph weights >= 0",
               "theorems are over Q; on float inputs the oracle tolerance is eps + 8n*u*max|v|/|surplus| (u = 2^-53): the conditioning of "
               "(v(S)-sum singletons)/surplus under rounding of the input; a game whose exact surplus is <= 8n*u*max|v| is numerically "
               "additive and must normalise to ~0 (eps = 1e-9, scaled by max(1,max|v|)); a surplus <= 1e-9*max|v| (the library's own "
               "rtol) may be treated as additive by the implementation",
               "exact stream compared bit-for-bit except after a division by a non-power-of-two (1e-12)"]

EPS = 1e-9
U = 2.0 ** -53
KEY_RESIDUE = "C15:normalize:float-additive-residue"


# ---------------------------------------------------------------- helpers
def popcount(x):
    return bin(x).count("1")


def fl(v):
    return [float(x) for x in v]


def hexes(v):
    return [float(x).hex() for x in v]


def table_of(g):
    k = g.are_values_known()
    lo = g.get_lower_bounds()
    hi = g.get_upper_bounds()
    return [(bool(k[i]), float(lo[i]), float(hi[i])) for i in range(len(k))]


def table_line(tab):
    return " ".join(f"{1 if k else 0} {qtok(l)} {qtok(h)}" for k, l, h in tab)


def parse_table(toks, size):
    return [(toks[3 * i] == "1", tokq(toks[3 * i + 1]), tokq(toks[3 * i + 2])) for i in range(size)]


def make_icg(n, v, unknown=()):
    g = IncompleteCooperativeGame(n)
    g.set_values(np.array(fl(v), dtype=float))
    for i in unknown:
        g.unset_value(Coalition(i))
    return g


def exact_surplus(n, v):
    return frac(v[2 ** n - 1]) - sum(frac(v[1 << i]) for i in range(n))


def exact_is_sa(n, v):
    q = [frac(x) for x in v]
    return games.is_sa(q, n)


def impl_accepts_sa(n, v):
    try:
        return bool(is_superadditive(make_icg(n, v)))
    except Exception:
        return False


# ---------------------------------------------------------------- implementation runners
def impl_icg(n, v, unknown=()):
    """normalize_game on a value table, then denormalize_game with the returned info on a copy."""
    g = make_icg(n, v, unknown)
    try:
        s, sv = normalize_game(g)
    except ValueError:
        return {"status": "err"}
    res = {"status": "ok", "s": float(s), "sv": fl(sv), "table": table_of(g),
           "values": fl(g.get_values()), "value_each": [float(g.get_value(c)) for c in all_coalitions(g)]}
    h = g.copy()
    denormalize_game(h, (s, sv))
    res["rt"] = table_of(h)
    return res


def impl_graph(n, W, raw=False):
    """normalize_game on a graph game (raw: the matrix is assigned unpolished, as test_graph_zero_game does)."""
    A = np.array([[float(x) for x in row] for row in W], dtype=float).reshape(n, n)
    g = GraphCooperativeGame(A)
    if raw:
        g._graph_matrix = A.copy()
    before = fl(g.get_values())
    t = IncompleteCooperativeGame(n)
    t.set_values(np.array(before))
    s, sv = normalize_game(g)
    res = {"s": float(s), "sv": fl(sv), "before": before, "M": [fl(r) for r in g._graph_matrix], "values": fl(g.get_values())}
    normalize_game(t)
    res["tab"] = table_of(t)
    h = g.copy() if not raw else g
    denormalize_game(h, (s, sv))
    res["R"] = [fl(r) for r in h._graph_matrix]
    res["rt_values"] = fl(h.get_values())
    # ... and on the very object that was normalised and READ in between (no copy): values must come back as well
    if h is not g:
        denormalize_game(g, (s, sv))
    res["rt_same_object_values"] = fl(g.get_values())
    res["rt_same_object_value_each"] = [float(g.get_value(c)) for c in all_coalitions(g)]
    return res


# ---------------------------------------------------------------- the property itself, on implementation output
def tolerances(n, v):
    """(M, s_exact, eta, numerically_additive, tau, zero_tol) for an input value list (exact rationals of the inputs)."""
    M = max([abs(float(x)) for x in v] + [0.0])
    s = exact_surplus(n, v)
    exact_inputs = all(not isinstance(x, float) for x in v)
    if exact_inputs:
        return M, s, 0.0, s == 0, 1e-12, 0.0
    eta = 8 * n * U * M
    additive = abs(s) <= eta
    tau = EPS + (eta / abs(float(s)) if not additive else 0.0)
    return M, s, eta, additive, tau, EPS * max(1.0, M)


def sa_failures(n, x, tol):
    out = []
    for s in range(2 ** n):
        for a in games.proper_splits(s):
            if a < (s ^ a) and x[a] + x[s ^ a] > x[s] + tol:
                out.append((a, s ^ a, x[a], x[s ^ a], x[s]))
                if len(out) >= 3:
                    return out
    return out


def oracle_normalised(n, v, tab, values=None, value_each=None):
    """The property on the implementation's output for a superadditive zero-normalised input v.
    Returns (failures, branch); failures = list of (coalition id, what, observed)."""
    M, s, eta, additive, tau, ztol = tolerances(n, v)
    fails = []
    size = 2 ** n
    lo = [r[1] for r in tab]
    hi = [r[2] for r in tab]
    for i in range(size):
        if not tab[i][0]:
            fails.append((i, "known flag lost", tab[i]))
        if lo[i] != hi[i] and not (abs(lo[i] - hi[i]) <= 0.0):
            fails.append((i, "lower != upper after normalisation", (lo[i], hi[i])))
        if values is not None and values[i] != hi[i]:
            fails.append((i, "get_values() differs from upper column", (values[i], hi[i])))
        if value_each is not None and value_each[i] != lo[i]:
            fails.append((i, "get_value() differs from lower column", (value_each[i], lo[i])))
        if math.isnan(lo[i]) or math.isnan(hi[i]):
            fails.append((i, "NaN", (lo[i], hi[i])))
    if fails:
        return fails, "malformed"
    all_zero = all(abs(x) <= EPS * max(1.0, M) for x in lo + hi)
    if additive:
        for i in range(size):
            for col, x in (("lower", lo[i]), ("upper", hi[i])):
                if abs(x) > ztol:
                    fails.append((i, f"additive game: {col} value should be 0", x))
        return fails, "additive"
    # a surplus the library cannot tell from 0 may be treated as additive: for float inputs that is its own rtol = 1e-9 of the
    # largest value; for exactly representable inputs only the rounding of the n sequential subtractions (a few ulps of it)
    exact_inputs = all(not isinstance(x, float) for x in v)
    if all_zero and abs(float(s)) <= (1e-9 * M if not exact_inputs else 16 * n * 2.220446049250313e-16 * M):
        return [], "additive-within-library-rtol"
    for col, x in (("lower", lo), ("upper", hi)):
        for i in range(n):
            if abs(x[1 << i]) > tau:
                fails.append((1 << i, f"singleton {col} value not 0", x[1 << i]))
        for i in range(size):
            if x[i] < -tau or x[i] > 1 + tau:
                fails.append((i, f"{col} value outside [0,1]", x[i]))
        if abs(x[size - 1] - 1) > tau:
            fails.append((size - 1, f"grand coalition {col} value not 1", x[size - 1]))
        for f in sa_failures(n, x, 3 * tau):
            fails.append((f[0] | f[1], f"normalised game not superadditive ({col})", f))
    return fails, "normalised"


def oracle_roundtrip(n, v, rt):
    M = max([abs(float(x)) for x in v] + [0.0])
    exact_inputs = all(not isinstance(x, float) for x in v)
    fails = []
    for i in range(2 ** n):
        for col in (1, 2):
            if abs(rt[i][col] - float(v[i])) > 1e-9 * max(1.0, M):
                fails.append((i, "denormalised value differs from the original", (rt[i][col], float(v[i]))))
    return fails


# ---------------------------------------------------------------- generators (harness side)
def additive_game(rng, n, kind):
    if kind == "int":
        w = [rng.randint(-9, 12) for _ in range(n)]
    elif kind == "dyadic":
        w = [Fraction(rng.randint(-9 * 64, 12 * 64), 64) for _ in range(n)]
    else:
        sc = rng.choice([1.0, 1.0, 10.0, 1e-3, 1e4])
        w = [rng.random() * sc * rng.choice([1, 1, 1, -1]) for _ in range(n)]
    v = []
    for s in range(2 ** n):
        x = 0.0 if kind == "float" else 0
        for i in range(n):
            if (s >> i) & 1:
                x = x + w[i]
        v.append(x)
    return v


def nearly_additive(rng, n, kind):
    """additive + delta * unanimity game on a coalition of size >= 2."""
    v = additive_game(rng, n, kind if kind != "pow2" else "dyadic")
    T = rng.randrange(1, 2 ** n)
    while popcount(T) < 2:
        T = rng.randrange(1, 2 ** n)
    if kind == "float":
        delta = 10.0 ** rng.uniform(-18, -3)
        src = "additive+delta*unanimity(float)"
    else:
        delta = Fraction(1, 2 ** rng.randint(3, 44))
        src = "additive+2^-k*unanimity(dyadic)"
    out = [x + delta if (s & T) == T else x for s, x in enumerate(v)]
    if kind != "float":
        assert all(common.is_exact_float(frac(x)) for x in out)
    return out, src


def pow2_surplus_game(rng, n, kind):
    """closure game whose grand value is raised so that the surplus is a power of two (division exact)."""
    v = games.sa_closure_game(rng, n, kind)
    N = 2 ** n - 1
    s = frac(v[N]) - sum(frac(v[1 << i]) for i in range(n))
    p = Fraction(1, 4)
    while p < s or p == 0:
        p *= 2
    v[N] = sum(frac(v[1 << i]) for i in range(n)) + p
    if kind == "int":
        v[N] = int(v[N]) if v[N].denominator == 1 else v[N]
    return v


def arbitrary_int_table(rng, n):
    return [rng.randint(-20, 40) for _ in range(2 ** n)]


def repo_families():
    """(value-table families, graph families) of the registry that can be imported here."""
    from incomplete_cooperative.generators import GENERATORS
    return sorted(GENERATORS)


def seed_module_rng(seed):
    """graph_generator ignores its generator argument and draws from the module-level _gen: reseed it for replay."""
    import incomplete_cooperative.generators as G
    G._gen.bit_generator.state = np.random.default_rng(seed).bit_generator.state


def repo_game(name, n, seed):
    """Returns ('table', values) | ('graph', matrix) | ('raise', exception name)."""
    from incomplete_cooperative.generators import GENERATORS
    seed_module_rng(seed ^ 0x5EED)
    try:
        g = GENERATORS[name](n, np.random.default_rng(seed))
    except Exception as e:  # C10's concern (factory_cheerleader, convex without pyfmtools, graph generators at tiny n)
        return "raise", type(e).__name__
    if isinstance(g, GraphCooperativeGame):
        return "graph", [fl(r) for r in g._graph_matrix]
    return "table", fl(g.get_values())


# ---------------------------------------------------------------- case construction
def icg_cases(ctx):
    rng = ctx.rng
    q = ctx.quick
    cases = []

    def add(n, v, src, stream, gen=None, unknown=(), oracle=True):
        cases.append({"kind": "icg", "n": n, "v": v, "src": src, "stream": stream, "gen": gen,
                      "unknown": list(unknown), "oracle": oracle})

    # exact stream
    for n in ([2, 3, 4, 5] if q else [1, 2, 3, 4, 5, 6, 7]):
        reps = (6 if q else 80) if n <= 4 else (3 if q else (30 if n <= 6 else 4))
        for _ in range(reps):
            add(n, games.sa_closure_game(rng, n, "int"), "closure-int", "exact")
            add(n, games.sa_closure_game(rng, n, "dyadic"), "closure-dyadic", "exact")
            add(n, games.unanimity_game(rng, n), "unanimity", "exact")
            add(n, additive_game(rng, n, "int"), "additive-int", "exact")
            add(n, additive_game(rng, n, "dyadic"), "additive-dyadic", "exact")
            add(n, pow2_surplus_game(rng, n, rng.choice(["int", "dyadic"])), "closure-pow2-surplus", "exact")
            if n >= 2:
                v, src = nearly_additive(rng, n, "dyadic")
                add(n, v, src, "exact")
            add(n, arbitrary_int_table(rng, n), "arbitrary-int(not SA, v(0)!=0)", "exact", oracle=False)
            sam = games.sam_game(rng, n, rng.choice(["int", "dyadic"]))
            add(n, sam, "sam-" + ("int" if isinstance(sam[-1], int) else "dyadic"), "exact")
            if n >= 2:
                # singleton values of both signs that cancel exactly (their sum is 0 although none of them is)
                half = [rng.randint(1, 6) for _ in range(n // 2)]
                singles = half + [-x for x in half] + ([0] if n % 2 else [])
                rng.shuffle(singles)
                cv = [0] * (2 ** n)
                for c_ in games.ids_by_size(n):
                    if games.popcount(c_) == 1:
                        cv[c_] = singles[c_.bit_length() - 1]
                    elif c_:
                        cv[c_] = max(cv[a_] + cv[c_ ^ a_] for a_ in games.proper_splits(c_)) + rng.choice([0, 1, 2, 3])
                add(n, cv, "cancelling-singletons-int", "exact")
            if n >= 3:
                # one huge and several small singletons (all values even integers below 2^54, exactly representable; every
                # subtraction of a singleton is exact): the surplus must come from the table, not from a re-summation
                big = 2 ** rng.choice([52, 53])
                singles = [big] + [2 * rng.randint(1, 3) for _ in range(n - 1)]
                bonus = 2 * rng.randint(500, 1500)
                hs = [sum(singles[i] for i in range(n) if (c_ >> i) & 1)
                      + bonus * (games.popcount(c_) * (games.popcount(c_) - 1) // 2) for c_ in range(2 ** n)]
                if all(int(float(x)) == x for x in hs):
                    add(n, hs, "huge-spread-int", "exact")
                # the same with ODD small singletons (their plain sum with 2^53 is not representable, every table value is)
                singles = [2 ** 53] + [1] * (n - 1)
                hs = [0] + [sum(singles[i] for i in range(n) if (c_ >> i) & 1) + bonus * (games.popcount(c_) * (games.popcount(c_) - 1) // 2)
                            + games.popcount(c_) - 1 for c_ in range(1, 2 ** n)]
                if all(int(float(x)) == x for x in hs) and games.is_sa(hs, n):
                    add(n, hs, "huge-spread-int-odd", "exact")
    # float stream: harness generators
    for n in ([3, 4, 5] if q else [2, 3, 4, 5, 6]):
        reps = 6 if q else 80
        for _ in range(reps):
            add(n, games.sa_closure_game(rng, n, "float"), "closure-float", "float")
            sc = rng.choice([2.0 ** -20, 2.0 ** -40, 2.0 ** 20, 2.0 ** 40])        # power-of-two scaling keeps exact superadditivity
            add(n, [x * sc for x in games.sa_closure_game(rng, n, "float")], "closure-float-scaled", "float")
            add(n, additive_game(rng, n, "float"), "additive-float", "float")
            if n >= 3:
                # additive float game whose singletons nearly cancel: |v(N)| is far below max|v|, so that a guard scaled by the grand
                # coalition's value instead of the table's magnitude would divide the table by its rounding residue
                ws = [rng.random() * rng.choice([0.1, 1.0, 7.0]) for _ in range(n - 1)]
                ws.append(-(sum(ws)) + rng.choice([0.0, 1e-3, -1e-3, 1e-6]) * rng.random())
                rng.shuffle(ws)
                cvf = []
                for s_ in range(2 ** n):
                    x_ = 0.0
                    for i_ in range(n):
                        if (s_ >> i_) & 1:
                            x_ = x_ + ws[i_]
                    cvf.append(x_)
                add(n, cvf, "additive-float-cancelling-singletons", "float")
            for _ in range(2):
                v, src = nearly_additive(rng, n, "float")
                add(n, v, src, "float")
    # float stream: every registered family
    fams = repo_families()
    ns = [3, 4] if q else [3, 4, 5, 6]
    nseeds = 2 if q else 16
    for name in fams:
        for n in ns:
            for _ in range(nseeds if n <= 5 else max(2, nseeds // 3)):
                seed = rng.randrange(2 ** 31)
                kind, val = repo_game(name, n, seed)
                if kind == "raise":
                    ctx.count("generator_outcome", f"{name}: raises {val} (C10's concern)")
                    continue
                ctx.count("generator_outcome", "ok")
                if kind == "table":
                    add(n, val, "repo:" + name, "float", gen=(name, seed))
                else:
                    cases.append({"kind": "graph", "n": n, "W": val, "src": "repo:" + name, "stream": "float",
                                  "gen": (name, seed), "raw": False, "oracle": True})
    # the families named in the finding, more seeds (additive / nearly additive outputs are common there)
    for name in ["oxs", "xos2", "xos3", "xos", "xs2"]:
        for n in [3, 4]:
            for _ in range(4 if q else 60):
                seed = rng.randrange(2 ** 31)
                kind, val = repo_game(name, n, seed)
                if kind == "table":
                    add(n, val, "repo:" + name, "float", gen=(name, seed))
    from incomplete_cooperative.generators import additive as repo_additive
    for n in [3, 4, 5]:
        for _ in range(4 if q else 25):
            seed = rng.randrange(2 ** 31)
            g = repo_additive(n, np.random.default_rng(seed))
            add(n, fl(g.get_values()), "repo:additive()", "float", gen=("additive()", seed))
    # partially known tables: both sides must raise
    for n in [2, 3, 4]:
        for _ in range(2 if q else 10):
            v = games.sa_closure_game(rng, n, "int")
            for unk in ([2 ** n - 1], [1 << rng.randrange(n)], [rng.choice(games.optional_ids(n))] if n >= 3 else [2 ** n - 1]):
                add(n, v, "partially-known", "exact", unknown=unk, oracle=False)
    return cases


def graph_cases(ctx):
    rng = ctx.rng
    q = ctx.quick
    cases = []

    def add(n, W, src, stream, raw=False, oracle=True):
        cases.append({"kind": "graph", "n": n, "W": W, "src": src, "stream": stream, "gen": None, "raw": raw, "oracle": oracle})

    for n in ([2, 3, 4, 5] if q else [2, 3, 4, 5, 6]):
        for _ in range(4 if q else 25):
            add(n, [[rng.randint(0, 9) for _ in range(n)] for _ in range(n)], "graph-int", "exact")
            add(n, [[Fraction(rng.randint(0, 640), 64) for _ in range(n)] for _ in range(n)], "graph-dyadic", "exact")
            add(n, [[rng.random() * 10 for _ in range(n)] for _ in range(n)], "graph-float", "float")
            sc = rng.choice([1e-6, 1e-12, 1e6])
            add(n, [[rng.random() * sc for _ in range(n)] for _ in range(n)], "graph-float-scaled", "float")
            add(n, [[rng.randint(-9, 9) for _ in range(n)] for _ in range(n)], "graph-int-negative(not SA)", "exact", oracle=False)
            add(n, [[rng.randint(0, 9) for _ in range(n)] for _ in range(n)], "graph-int-raw-matrix", "exact", raw=True, oracle=False)
            add(n, [[rng.random() for _ in range(n)] for _ in range(n)], "graph-float-raw-matrix", "float", raw=True, oracle=False)
        add(n, [[0] * n for _ in range(n)], "graph-zero", "exact")
        # upper triangle zero, the rest not: the grand value is 0, the matrix must be left alone
        add(n, [[(rng.randint(1, 9) if j <= i else 0) for j in range(n)] for i in range(n)], "graph-raw-zero-value", "exact", raw=True, oracle=False)
        # sparse 0/1
        add(n, [[rng.choice([0, 0, 1]) for _ in range(n)] for _ in range(n)], "graph-01", "exact")
    return cases


# ---------------------------------------------------------------- comparison
def cmp_q(x, y, exact, tol, scale=1.0):
    """x: impl float, y: model Fraction."""
    if exact:
        return frac(x) == y
    return abs(float(x) - float(y)) <= tol * max(1.0, scale)


def is_pow2(f: Fraction) -> bool:
    f = abs(f)
    if f == 0:
        return False
    a, b = f.numerator, f.denominator
    return (a & (a - 1)) == 0 and (b & (b - 1)) == 0


def case_replay(c, extra=None):
    rep = {"kind": c["kind"], "n": c["n"], "source": c["src"], "stream": c["stream"]}
    if c.get("gen"):
        rep["generator"], rep["seed"] = c["gen"]
        rep["how"] = ("GENERATORS[generator](n, numpy.random.default_rng(seed))" if c["gen"][0] != "additive()"
                      else "incomplete_cooperative.generators.additive(n, numpy.random.default_rng(seed))")
    if c["kind"] == "icg":
        rep["values_hex"] = hexes(c["v"])
        rep["values"] = fl(c["v"])
        rep["unknown"] = c["unknown"]
    else:
        rep["matrix_hex"] = [hexes(r) for r in c["W"]]
        rep["matrix"] = [fl(r) for r in c["W"]]
        rep["raw"] = c["raw"]
    if extra:
        rep.update(extra)
    return rep


def excursion(f):
    """How far a failing observation lies outside [0,1] (0 if it is a number inside, or not a number)."""
    x = f[2]
    if isinstance(x, (int, float)) and not isinstance(x, bool):
        return max(0.0, -x, x - 1.0)
    return 0.0


PENDING = []


def report_oracle(ctx, c, fails, branch, impl, what):
    """Queue an oracle failure; flush_reports emits those with a value outside [0,1] first."""
    n = c["n"]
    c["_oracle_failed"] = True
    worst = max(fails, key=excursion)
    first = worst if excursion(worst) > EPS else fails[0]
    key = None
    if c["kind"] == "icg" and c["stream"] == "float" and branch == "additive":
        key = KEY_RESIDUE
    M, s, eta, additive, tau, ztol = tolerances(n, c["v"]) if c["kind"] == "icg" else (None, None, None, None, EPS, EPS)
    PENDING.append((0 if excursion(first) > EPS else 1, c["src"], dict(
        what=f"{what}: {c['src']} n={n}" + (f" seed={c['gen'][1]}" if c.get("gen") else "")
        + f": coalition {first[0]}: {first[1]}: {first[2]}",
        replay=case_replay(c, {"oracle": what, "offending_coalition": first[0], "offending": first[1], "observed": str(first[2]),
                               "value_outside_unit_interval": excursion(first) > EPS,
                               "all_failures": [str(f) for f in fails[:8]], "branch": branch,
                               "exact_surplus": float(s) if s is not None else None, "max_abs_value": M, "tolerance": tau,
                               "impl_norm_info": [impl.get("s"), impl.get("sv")],
                               "impl_values_after_normalize": impl.get("values"),
                               "expected": ("every value within 1e-9*max(1,max|v|) of 0 (the game is additive up to float rounding: exact surplus "
                                            "<= 8n*2^-53*max|v|)" if branch == "additive" else
                                            "singletons 0, values in [0,1], grand 1, superadditive, lower = upper (within tolerance)"),
                               "cmd": "cd /verif && ./check C15 --replay <this file>"}),
        found_input=True, key=key)))


def flush_reports(ctx, per_source=3, total=30):
    """Emit the queued oracle failures: values outside [0,1] first, at most `per_source` per input family;
    the full counts go to the evidence."""
    stats = ctx.coverage.setdefault("oracle_failures_on_implementation", {"total": 0, "by_source": {}, "by_known_finding_key": {}})
    emitted = {}
    n_emitted = 0
    for _, src, kw in sorted(PENDING, key=lambda p: p[0]):
        stats["total"] += 1
        stats["by_source"][src] = stats["by_source"].get(src, 0) + 1
        stats["by_known_finding_key"][str(kw["key"])] = stats["by_known_finding_key"].get(str(kw["key"]), 0) + 1
        if emitted.get((src, kw["key"]), 0) >= per_source or n_emitted >= total:
            continue
        emitted[(src, kw["key"])] = emitted.get((src, kw["key"]), 0) + 1
        n_emitted += 1
        ctx.violation(kw["what"], kw["replay"], found_input=kw["found_input"], key=kw["key"])
    del PENDING[:]


def run_icg(ctx, cases):
    lines = []
    for c in cases:
        n = c["n"]
        unk = set(c["unknown"])
        tab = [((i not in unk), (0.0 if i in unk else float(x)), (0.0 if i in unk else float(x))) for i, x in enumerate(c["v"])]
        lines.append(f"nz_norm {n} " + table_line(tab))
        lines.append(f"nz_rt {n} " + table_line(tab))
    outs = run_driver_parallel(lines)
    mism = []
    for k, c in enumerate(cases):
        n = c["n"]
        size = 2 ** n
        v = c["v"]
        exact = c["stream"] == "exact"
        ctx.evaluations += 1
        ctx.count("representation", "table")
        ctx.count("n", n)
        ctx.count("stream", c["stream"])
        ctx.count("source", c["src"])
        o_norm, o_rt = outs[2 * k].split(), outs[2 * k + 1].split()
        impl = impl_icg(n, v, c["unknown"])
        m_status = o_norm[0]
        if impl["status"] != m_status:
            mism.append((c, f"status impl={impl['status']} model={m_status}"))
            continue
        if m_status == "err":
            ctx.count("outcome", "both-raise-ValueError")
            continue
        # ---- parse model
        m_s = tokq(o_norm[1])
        m_sv = [tokq(x) for x in o_norm[2:2 + n]]
        p = 2 + n
        assert o_norm[p] == "|"
        m_tab = parse_table(o_norm[p + 1:p + 1 + 3 * size], size)
        p = p + 1 + 3 * size
        assert o_norm[p] == "|"
        m_pre = parse_table(o_norm[p + 1:p + 1 + 3 * size], size)
        m_rt = parse_table(o_rt[1:], size)
        M, s_exact, eta, additive, tau, ztol = tolerances(n, v)
        assert m_s == s_exact, (m_s, s_exact)
        nontrivial = s_exact != 0 or any(frac(v[1 << i]) != 0 for i in range(n))
        if nontrivial:
            ctx.nontrivial.add(("icg", n, tuple(fl(v))))
        # ---- correspondence
        detail = None
        # norm info
        # the REPORTED surplus is v(N) - (sum of the singleton values): that one sum need not be representable even when every
        # table value is (huge-spread-int-odd); there it is compared to float rounding of the values' magnitude
        if not cmp_q(impl["s"], m_s, exact and c["src"] != "huge-spread-int-odd", 1e-9, M):
            detail = f"norm info surplus impl={impl['s']!r} model={float(m_s)!r}"
        elif any(frac(a) != b for a, b in zip(impl["sv"], m_sv)) or len(impl["sv"]) != n:
            detail = f"norm info singleton values impl={impl['sv']} model={[float(x) for x in m_sv]}"
        branch_model = "no-division" if m_s == 0 else "division"
        # note: the model's guard reads the sequentially computed grand value, which == m_s in exact arithmetic
        if detail is None:
            impl_zero = all(abs(r[1]) <= EPS * max(1.0, M) and abs(r[2]) <= EPS * max(1.0, M) for r in impl["table"])
            if m_s != 0 and (not additive) and impl_zero and abs(float(m_s)) <= 1e-9 * M:
                # the library's own tolerance (is_superadditive: rtol 1e-9) cannot tell this game from an additive one
                ctx.count("table_comparison", "implementation treated a surplus <= 1e-9*max|v| as additive (accepted)")
            elif exact:
                divided_exactly = (m_s == 0) or is_pow2(m_s)
                ctx.count("exact_stream_table_comparison", "bit-for-bit" if divided_exactly else "1e-12 after the division")
                for i in range(size):
                    if impl["table"][i][0] != m_tab[i][0]:
                        detail = f"coalition {i} known flag impl={impl['table'][i][0]} model={m_tab[i][0]}"
                        break
                    for col, nm in ((1, "lower"), (2, "upper")):
                        a, b = impl["table"][i][col], m_tab[i][col]
                        ok = (frac(a) == b) if divided_exactly else abs(a - float(b)) <= 1e-12 * max(1.0, abs(float(b)))
                        if not ok:
                            detail = f"coalition {i} {nm} impl={a!r} model={float(b)!r} ({b})"
                            break
                    if detail:
                        break
            else:
                if additive and m_s != 0:
                    ctx.count("float_stream_table_comparison", "skipped: 0 < |exact surplus| <= 8n*u*max|v| (model divides a rounding residue of the input)")
                else:
                    ref = m_pre if additive else m_tab
                    tol = ztol if additive else tau
                    ctx.count("float_stream_table_comparison", "within tolerance eps + 8n*u*max|v|/|surplus|" if not additive
                              else "exactly additive float game: model leaves the table undivided")
                    for i in range(size):
                        if impl["table"][i][0] != ref[i][0]:
                            detail = f"coalition {i} known flag"
                            break
                        for col, nm in ((1, "lower"), (2, "upper")):
                            a, b = impl["table"][i][col], float(ref[i][col])
                            if not abs(a - b) <= tol:
                                detail = f"coalition {i} {nm} impl={a!r} model={b!r} (tolerance {tol:.3g}, exact surplus {float(m_s)!r})"
                                break
                        if detail:
                            break
        # round trip against the model's round trip
        if detail is None:
            for i in range(size):
                for col, nm in ((1, "lower"), (2, "upper")):
                    a, b = impl["rt"][i][col], m_rt[i][col]
                    ok = (frac(a) == b) if (exact and m_s == 0) else abs(a - float(b)) <= 1e-9 * max(1.0, M)
                    if not ok:
                        detail = f"round trip coalition {i} {nm} impl={a!r} model={float(b)!r}"
                        break
                if detail:
                    break
        if detail is not None:
            mism.append((c, detail))
        # ---- the property itself on the implementation
        sa_ok = exact_is_sa(n, v) if exact else impl_accepts_sa(n, v)
        zero_norm = frac(v[0]) == 0
        ctx.count("model_branch", branch_model)
        if c["oracle"] and sa_ok and zero_norm:
            fails, branch = oracle_normalised(n, v, impl["table"], impl["values"], impl["value_each"])
            ctx.count("oracle_branch", branch)
            if fails:
                report_oracle(ctx, c, fails, branch, impl, "C15 range/superadditivity oracle fails on normalize_game output")
            rfails = oracle_roundtrip(n, v, impl["rt"])
            if rfails:
                report_oracle(ctx, c, rfails, "roundtrip", impl, "C15 round-trip oracle fails (denormalize_game(normalize_game))")
            # the model must satisfy the exact statement too (cross-check of the theorem on this case)
            if exact or not additive:
                for i in range(size):
                    if not (0 <= m_tab[i][1] <= 1) or m_tab[i][1] != m_tab[i][2]:
                        if exact:
                            mism.append((c, f"model leaves [0,1] at coalition {i}: {m_tab[i]}"))
                            break
        else:
            ctx.count("oracle_branch", "not run: " + ("not accepted as superadditive" if not sa_ok else
                                                      "v(empty) != 0" if not zero_norm else "correspondence only"))
        ctx.sample({"representation": "table", "n": n, "source": c["src"], "values": fl(v)[:16],
                    "norm_info": [impl["s"], impl["sv"]], "normalised": impl["values"][:16]}, limit=4)
    return mism


def run_graph(ctx, cases):
    lines = []
    for c in cases:
        n = c["n"]
        W = c["W"]
        if not c["raw"]:
            W = [[(0 if j <= i else W[i][j]) for j in range(n)] for i in range(n)]
        lines.append(f"nz_graph {n} " + " ".join(qtok(x) for r in W for x in r))
    outs = run_driver_parallel(lines)
    mism = []
    for c, out in zip(cases, outs):
        n = c["n"]
        size = 2 ** n
        exact = c["stream"] == "exact"
        ctx.evaluations += 1
        ctx.count("representation", "graph")
        ctx.count("n", n)
        ctx.count("stream", c["stream"])
        ctx.count("source", c["src"])
        impl = impl_graph(n, c["W"], c["raw"])
        t = out.split()
        assert t[0] == "ok"
        m_s = tokq(t[1])
        m_sv = [tokq(x) for x in t[2:2 + n]]
        p = 2 + n
        assert t[p] == "M"
        m_M = [tokq(x) for x in t[p + 1:p + 1 + n * n]]
        p += 1 + n * n
        assert t[p] == "V"
        m_V = [tokq(x) for x in t[p + 1:p + 1 + size]]
        p += 1 + size
        assert t[p] == "T"
        m_T = parse_table(t[p + 1:p + 1 + 3 * size], size)
        p += 1 + 3 * size
        assert t[p] == "R"
        m_R = [tokq(x) for x in t[p + 1:p + 1 + n * n]]
        Mx = max([abs(x) for x in impl["before"]] + [0.0])
        if m_s != 0:
            ctx.nontrivial.add(("graph", n, c["raw"], tuple(x for r in c["W"] for x in fl(r))))
        ctx.count("model_branch", "graph-no-division" if m_s == 0 else "graph-division")
        detail = None
        tol = 1e-12 if exact else 1e-9
        if not cmp_q(impl["s"], m_s, exact, 1e-9, Mx):
            detail = f"norm info surplus impl={impl['s']!r} model={float(m_s)!r}"
        elif any(frac(a) != b for a, b in zip(impl["sv"], m_sv)):
            detail = f"norm info singleton values impl={impl['sv']}"
        if detail is None:
            flat = [x for r in impl["M"] for x in r]
            for idx, (a, b) in enumerate(zip(flat, m_M)):
                ok = (frac(a) == b) if (exact and (m_s == 0 or is_pow2(m_s) or b == 0)) else abs(a - float(b)) <= tol * max(1.0, abs(float(b)))
                if not ok:
                    detail = f"normalised matrix entry ({idx // n},{idx % n}) impl={a!r} model={float(b)!r}"
                    break
        if detail is None:
            for i in range(size):
                if abs(impl["values"][i] - float(m_V[i])) > tol * 4:
                    detail = f"normalised graph value of coalition {i} impl={impl['values'][i]!r} model={float(m_V[i])!r}"
                    break
                for col, nm in ((1, "lower"), (2, "upper")):
                    if abs(impl["tab"][i][col] - float(m_T[i][col])) > tol * 4:
                        detail = f"normalised tabulated game coalition {i} {nm} impl={impl['tab'][i][col]!r} model={float(m_T[i][col])!r}"
                        break
                if detail:
                    break
        if detail is None:
            flat = [x for r in impl["R"] for x in r]
            for idx, (a, b) in enumerate(zip(flat, m_R)):
                if abs(a - float(b)) > 1e-9 * max(1.0, abs(float(b))):
                    detail = f"denormalised matrix entry ({idx // n},{idx % n}) impl={a!r} model={float(b)!r}"
                    break
        if detail is None:
            # the model itself: graph and tabulated normalisation agree (graph_commutes on this case)
            for i in range(size):
                if m_V[i] != m_T[i][1] or m_V[i] != m_T[i][2]:
                    detail = f"MODEL: tabulate(normalize_graph W) != normalize_icg(tabulate W) at coalition {i}"
                    break
        if detail is not None:
            mism.append((c, detail))
        if c["oracle"]:
            fails = []
            for i in range(size):
                a = impl["values"][i]
                for col, nm in ((1, "lower"), (2, "upper")):
                    if abs(a - impl["tab"][i][col]) > EPS:
                        fails.append((i, f"graph game and its tabulated form normalise differently ({nm})", (a, impl["tab"][i][col])))
                if abs(impl["rt_values"][i] - impl["before"][i]) > 1e-9 * max(1.0, Mx):
                    fails.append((i, "denormalised graph value differs from the original", (impl["rt_values"][i], impl["before"][i])))
                for key_ in ("rt_same_object_values", "rt_same_object_value_each"):
                    if abs(impl[key_][i] - impl["before"][i]) > 1e-9 * max(1.0, Mx):
                        fails.append((i, "normalise, read, de-normalise on ONE graph-game object: value differs from the original (" + key_ + ")",
                                      (impl[key_][i], impl["before"][i])))
            f2, branch = oracle_normalised(n, impl["before"] if not exact else [frac(x) for x in impl["before"]], impl["tab"])
            fails += f2
            vals = impl["values"]
            if m_s == 0:
                fails += [(i, "zero graph game: value should stay 0", x) for i, x in enumerate(vals) if x != 0]
            else:
                fails += [(i, "graph value outside [0,1]", x) for i, x in enumerate(vals) if x < -EPS or x > 1 + EPS]
                if abs(vals[-1] - 1) > EPS:
                    fails.append((size - 1, "graph grand value not 1", vals[-1]))
                fails += [(f[0] | f[1], "normalised graph game not superadditive", f) for f in sa_failures(n, vals, 3 * EPS)]
            ctx.count("oracle_branch", "graph:" + branch)
            if fails:
                c["_oracle_failed"] = True
                PENDING.append((0, c["src"], dict(
                    what=f"C15 graph oracle fails: {c['src']} n={n}: coalition {fails[0][0]}: {fails[0][1]}: {fails[0][2]}",
                    replay=case_replay(c, {"oracle": "graph", "offending_coalition": fails[0][0], "offending": fails[0][1],
                                           "observed": str(fails[0][2]), "all_failures": [str(f) for f in fails[:8]],
                                           "impl_values_after_normalize": impl["values"]}),
                    found_input=True, key=None)))
        else:
            ctx.count("oracle_branch", "graph: not run (correspondence only)")
        ctx.sample({"representation": "graph", "n": n, "source": c["src"], "matrix": [fl(r) for r in c["W"]][:4],
                    "norm_info": [impl["s"], impl["sv"]], "normalised_values": impl["values"][:16]}, limit=6)
    return mism


# ---------------------------------------------------------------- the environment's observation
def run_gym(ctx):
    from incomplete_cooperative.bounds import BOUNDS
    from incomplete_cooperative.exploitability import compute_exploitability
    from incomplete_cooperative.generators import GENERATORS
    from incomplete_cooperative.generators import additive as repo_additive
    from incomplete_cooperative.icg_gym import ICG_Gym
    rng = ctx.rng
    gym_reported = {}
    fams = ["oxs", "xos2", "xos3", "xos", "xs", "factory", "noisy_factory", "k_budget_generator", "covg_fn_generator",
            "graph_cycle", "graph_random", "additive()"]
    for name in fams:
        for n in [3, 4]:
            for _ in range(2 if ctx.quick else 10):
                seed = rng.randrange(2 ** 31)
                gen = np.random.default_rng(seed)
                fn = (lambda: repo_additive(n, gen)) if name == "additive()" else (lambda: GENERATORS[name](n, gen))
                try:
                    env = ICG_Gym(IncompleteCooperativeGame(n, BOUNDS["superadditive"]), fn,
                                  minimal_game_coalitions(n), compute_exploitability)
                    env.reset()
                except Exception as e:
                    ctx.count("gym", f"{name}: construction raises {type(e).__name__}")
                    continue
                ctx.evaluations += 1
                ctx.count("representation", "gym-observation")
                ctx.count("source", "gym:" + name)
                hidden = fl(env.full_game.get_values())
                if not impl_accepts_sa(n, hidden):
                    ctx.count("gym", "hidden game not accepted as superadditive")
                    continue
                M, s, eta, additive, tau, ztol = tolerances(n, hidden)
                lowb = env.observation_space.low
                highb = env.observation_space.high
                order = list(range(len(env.explorable_coalitions)))
                rng.shuffle(order)
                bad = None
                for a in order:
                    obs, _, _, _, _ = env.step(a)
                    for k, x in enumerate(obs):
                        t = ztol if additive else tau
                        lo_k, hi_k = (0.0, 0.0) if additive else (float(lowb[k]), float(highb[k]))
                        if not (lo_k - t <= x <= hi_k + t):
                            bad = (env.explorable_coalitions[k].id, float(x))
                            break
                    if bad:
                        break
                ctx.count("gym", "observation inside Box(0,1)" if not bad else "observation OUTSIDE Box(0,1)")
                if any(v != 0 for v in hidden):
                    ctx.nontrivial.add(("gym", n, tuple(hidden)))
                if bad:
                    ctx.coverage["gym_observations_outside_box"] = ctx.coverage.get("gym_observations_outside_box", 0) + 1
                if bad and gym_reported.get(name, 0) < 2:
                    gym_reported[name] = gym_reported.get(name, 0) + 1
                    c = {"kind": "icg", "n": n, "v": hidden, "src": "gym:" + name, "stream": "float", "gen": (name, seed), "unknown": []}
                    ctx.violation(f"ICG_Gym.state leaves its declared Box(0,1): hidden game {name} n={n} seed={seed}: coalition {bad[0]} observed {bad[1]}",
                                  case_replay(c, {"oracle": "gym observation inside observation_space", "offending_coalition": bad[0],
                                                  "observed": bad[1], "hidden_game_is_numerically_additive": additive,
                                                  "note": "the hidden game is the second game drawn from the generator (the constructor draws one, reset() another)",
                                                  "expected": "0 <= state <= 1 (within tolerance)"}),
                                  found_input=True, key=KEY_RESIDUE if additive else None)


# ---------------------------------------------------------------- extraction cross-check (model evaluated inside Coq)
def coq_q(f: Fraction) -> str:
    return f"(Qmake ({f.numerator})%Z {f.denominator}%positive)"


def cross_check_extraction(ctx, cases, limit):
    """Evaluate the model on a shard of the cases inside Coq (vm_compute) and require the result of the extracted OCaml
    model (as printed by the driver) - removes extraction + driver printing from the trusted base for that shard."""
    import subprocess
    shard = [c for c in cases if c["kind"] == "icg" and c["n"] <= 4 and not c["unknown"]][:limit]
    if not shard:
        return
    lines = []
    for c in shard:
        tab = [(True, float(x), float(x)) for x in c["v"]]
        lines.append(f"nz_norm {c['n']} " + table_line(tab))
    outs = common.run_driver(lines)
    body = ["From ICG Require Import Prelude Bits Table Bounds GameOps Normalize.",
            "Definition canon (n : nat) (r : option (table * (Q * list Q))) :=",
            "  option_map (fun r => (map (fun c => let x := get (fst r) c in (known x, Qred (lo x), Qred (hi x))) (alln n),",
            "                        (Qred (fst (snd r)), map Qred (snd (snd r))))) r."]
    for k, (c, out) in enumerate(zip(shard, outs)):
        n = c["n"]
        size = 2 ** n
        t = out.split()
        s = tokq(t[1])
        sv = [tokq(x) for x in t[2:2 + n]]
        tab = parse_table(t[3 + n:3 + n + 3 * size], size)
        rows = "; ".join(f"mkrow true {coq_q(frac(x))} {coq_q(frac(x))}" for x in c["v"])
        exp_rows = "; ".join(f"({'true' if r[0] else 'false'}, {coq_q(r[1])}, {coq_q(r[2])})" for r in tab)
        exp_sv = "; ".join(coq_q(x) for x in sv)
        body.append(f"Example shard_{k} : canon {n} (nz_normalize_icg {n} (of_fun (alln {n}) (fun c => nth (N.to_nat c) [{rows}] row0)))")
        body.append(f"  = Some ([{exp_rows}], ({coq_q(s)}, [{exp_sv}])).")
        body.append("Proof. vm_compute. reflexivity. Qed.")
    d = ctx.work / "shard"
    d.mkdir(exist_ok=True)
    (d / "cases_C15.v").write_text("\n".join(body) + "\n")
    p = subprocess.run(["timeout", "600", "coqc", "-Q", str(common.COQ / "theories"), "ICG", "cases_C15.v"], cwd=d,
                       capture_output=True, text=True)
    ctx.coverage["extraction_cross_check"] = {"cases_evaluated_by_vm_compute_in_coq": len(shard), "agree_with_extracted_model": p.returncode == 0}
    if p.returncode != 0:
        ctx.violation("extracted OCaml model and the model evaluated inside Coq (vm_compute) disagree on a shard of the cases",
                      {"relation": "driver output = vm_compute of nz_normalize_icg", "log": (p.stdout + p.stderr)[-1500:]}, found_input=False)


# ---------------------------------------------------------------- search around a broken correspondence
def search_neighbours(ctx, mism):
    """Model and implementation disagree but no oracle failed so far: try the oracles on neighbours of the disagreeing cases."""
    rng = ctx.rng
    for c, detail in mism[:6]:
        n = c["n"]
        if c["kind"] != "icg":
            continue
        for trial in range(60):
            kind = rng.choice(["int", "dyadic", "float"])
            r = rng.random()
            if r < 0.4:
                v = games.sa_closure_game(rng, n, kind)
            elif r < 0.7:
                v = additive_game(rng, n, kind)
            else:
                v, _ = nearly_additive(rng, n, "float" if kind == "float" else "dyadic")
            impl = impl_icg(n, v)
            if impl["status"] != "ok":
                continue
            ok_sa = exact_is_sa(n, v) if kind != "float" else impl_accepts_sa(n, v)
            if not ok_sa:
                continue
            fails, branch = oracle_normalised(n, v, impl["table"], impl["values"], impl["value_each"])
            if fails and kind == "float" and branch == "additive":
                continue        # that is the separately keyed finding, not an explanation of this disagreement
            fails = fails or oracle_roundtrip(n, v, impl["rt"])
            if fails:
                cc = {"kind": "icg", "n": n, "v": v, "src": "search-neighbour", "stream": "float" if kind == "float" else "exact",
                      "gen": None, "unknown": []}
                report_oracle(ctx, cc, fails, branch, impl, "C15 oracle fails (found while searching around a model/implementation disagreement)")
                flush_reports(ctx)
                return True
    return False


def run(ctx, proof):
    cases = icg_cases(ctx)
    gcases = [c for c in cases if c["kind"] == "graph"] + graph_cases(ctx)
    cases = [c for c in cases if c["kind"] == "icg"]
    cases.sort(key=lambda c: 0 if c.get("gen") else 1)      # registry-generated games first (their replays name generator and seed)
    mism = run_icg(ctx, cases)
    mism += run_graph(ctx, gcases)
    flush_reports(ctx)
    run_gym(ctx)
    cross_check_extraction(ctx, cases, 6 if ctx.quick else 120)
    ctx.coverage["exhaustive"] = False
    ctx.coverage["model_implementation_disagreements"] = len(mism)
    ctx.coverage["first_disagreements"] = [{"source": c["src"], "n": c["n"], "generator": c.get("gen"), "detail": d} for c, d in mism[:8]]
    if mism:
        # a disagreement explained by an oracle failure on the same case needs no separate report
        unexplained = [(c, d) for c, d in mism if not c.get("_oracle_failed")]
        ctx.coverage["disagreements_without_oracle_failure_on_the_same_case"] = len(unexplained)
        if unexplained and not any(v["found_input"] and v.get("key") is None for v in ctx.violations):
            if not search_neighbours(ctx, unexplained):
                c, d = unexplained[0]
                ctx.violation(f"correspondence 'normalize_game / denormalize_game (impl) = Normalize.v model' no longer holds: {c['src']} n={c['n']}: {d} "
                              f"({len(unexplained)} disagreeing cases without an oracle failure)",
                              {"relation": "normalize_game/denormalize_game (impl) = nz_normalize_icg/nz_normalize_graph/nz_denormalize (model)",
                               "first_disagreement": case_replay(c), "detail": d, "disagreeing_cases": len(unexplained)},
                              found_input=False)


# ---------------------------------------------------------------- replay
def replay(ctx, rep):
    n = rep["n"]
    if rep.get("kind") == "icg" or "values_hex" in rep:
        v = [float.fromhex(x) for x in rep["values_hex"]]
        impl = impl_icg(n, v, rep.get("unknown", []))
        print("input values      :", v)
        print("norm info         :", impl.get("s"), impl.get("sv"))
        print("after normalize   :", impl.get("values"))
        fails, branch = oracle_normalised(n, v, impl["table"], impl["values"], impl["value_each"])
        fails = fails or oracle_roundtrip(n, v, impl["rt"])
        print("oracle branch     :", branch)
        print("oracle failures   :", fails[:5])
        return 1 if fails else 0
    if "first_disagreement" in rep:
        return replay(ctx, rep["first_disagreement"])
    W = [[float.fromhex(x) for x in r] for r in rep["matrix_hex"]]
    impl = impl_graph(n, W, rep.get("raw", False))
    print("matrix            :", W)
    print("after normalize   :", impl["M"], impl["values"])
    print("tabulated         :", [r[1] for r in impl["tab"]])
    bad = [i for i in range(2 ** n) if abs(impl["values"][i] - impl["tab"][i][1]) > EPS]
    print("graph != tabulated at:", bad)
    return 1 if bad else 0

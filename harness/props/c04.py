"""C04 - approximate superadditive-monotone bounds: sound, ordered, self-consistent."""
import boundslib as bl
import campaign
import games

RULE = ("cases = (SAM game: negated monotone-subadditive integer/dyadic closures [exact stream], repository XOS/XS/OXS/K-budget/"
        "coverage outputs [float stream]) x knowledge set K (all K for n<=3 quick / n<=4 thorough, sampled above) x repetition "
        "count r in 0..10 and the registered 1,10,100,1000 x optional stale rows; implementation vs model, plus oracles on the "
        "implementation: truth containment, comparison with its own superadditive output, monotonicity in r (r vs r+1), "
        "antitone lower bounds, upper-bound caps. distinct_nontrivial = distinct (r, n, K, game) with a non-degenerate interval.")
TRUSTED = ["model: theories/Bounds.v compute_sam (loop for loop, all r+1 rounds executed); tie = correspondence"]
ASSUMPTIONS = ["hidden game superadditive AND monotone non-increasing with v(empty)=0 (generator-checked exactly on the exact stream)"]


def regen(ctx):
    import registry_dump
    registry_dump.regen_registry()


def run(ctx, proof):
    rng = ctx.rng
    rs_quick = [0, 1, 2, 3, 10]
    rs_full = list(range(0, 11)) + [100, 1000]
    plan = [(2, 2, "all"), (3, 5, "all"), (4, 5, 8), (5, 3, 4)] if ctx.quick else \
           [(2, 6, "all"), (3, 25, "all"), (4, 2, "all"), (4, 20, 20), (5, 10, 10), (6, 3, 4)]
    base = campaign.make_cases(ctx, ["x"], "sam", plan)
    cases = []
    for c in base:
        rs = rs_quick if ctx.quick else rs_full
        r = rng.choice(rs)
        if c["n"] >= 5 and r > 10:
            r = 10
        cases.append(dict(c, comp=f"sam:{r}", r=r))
    # sparse knowledge x small repetition counts: several consecutive unknown size levels, where information has to
    # travel through more than one level of the monotone closure within one round
    for n in ([4, 5] if ctx.quick else [4, 5, 6]):
        for c in [c for c in base if c["n"] == n][::max(1, len([c for c in base if c["n"] == n]) // (3 if ctx.quick else 8))][:(3 if ctx.quick else 8)]:
            opt = games.optional_ids(n)
            for K in (games.minimal_ids(n), sorted(games.minimal_ids(n) + rng.sample(opt, 1)),
                      sorted(games.minimal_ids(n) + [i for i in opt if games.popcount(i) == n - 1][:2])):
                for r in (0, 1):
                    cases.append(dict(c, K=sorted(K), stale=None, comp=f"sam:{r}", r=r))

    # r = 0 at n >= 5: one monotone-closure sweep only, so an unknown super-coalition whose lower bound comes from known
    # blocks is the only carrier of that information (no later superadditive pass repairs a shortcut)
    pool5 = campaign.make_cases(ctx, ["x"], "sam", [(5, 10, 3), (6, 5, 3)] if ctx.quick else [(5, 60, 5), (6, 30, 4), (7, 4, 2)])
    for c in pool5:
        cases.append(dict(c, comp="sam:0", r=0))

    # beyond 8 players (table-size / dtype limits of the memoised structure shared by all sam_apx computers)
    for (n9, cnt) in ([(9, 2)] if ctx.quick else [(9, 8), (10, 2)]):
        for _ in range(cnt):
            v9, src9 = campaign.repo_generator_game(rng, n9, campaign.SAM_GENS)
            K9 = sorted(games.minimal_ids(n9) + rng.sample(games.optional_ids(n9), rng.choice([0, 0, 3, 8])))
            r9 = rng.choice([0, 1, 1, 2])
            cases.append({"comp": f"sam:{r9}", "r": r9, "n": n9, "v": v9, "K": K9, "stale": None, "stream": "float", "src": src9})

    def oracle(c, tab):
        if "r" not in c:
            c = dict(c, r=int(c["comp"].split(":")[1]))
        n, v, K, r = c["n"], c["v"], c["K"], c["r"]
        exact = c["stream"] == "exact"
        fails = bl.oracle_sound(n, v, K, tab, exact)
        eps = 0 if exact else 1e-9 * max([1.0] + [abs(float(x)) for x in v])
        # never looser than SA
        st, sa = bl.impl_compute("superadditive_cached", n, v, K, c["stale"])
        if st == "ok":
            for i, (a, b) in enumerate(zip(tab, sa)):
                if a[1] < b[1] - eps or a[2] > b[2] + eps:
                    fails.append((i, "looser than superadditive bounds", (a, b)))
        # monotone in r
        st2, nxt = bl.impl_compute(f"sam:{r + 1}", n, v, K, c["stale"])
        if st2 == "ok":
            for i, (a, b) in enumerate(zip(tab, nxt)):
                if b[1] < a[1] - eps or b[2] > a[2] + eps:
                    fails.append((i, f"r={r + 1} looser than r={r}", (a, b)))
        # antitone lower bounds, caps
        Ks = set(K)
        for s in range(2 ** n):
            for i in range(n):
                if not (s >> i) & 1:
                    b = s | (1 << i)
                    if tab[b][1] > tab[s][1] + eps:
                        fails.append((s, "lower bound not antitone", (tab[s][1], b, tab[b][1])))
            if s not in Ks:
                for a in games.proper_splits(s):
                    if a in Ks and tab[s][2] > float(v[a]) + eps:
                        fails.append((s, "upper exceeds known sub-coalition value", (tab[s][2], a, float(v[a]))))
                for T in Ks:
                    if T != s and T & s == s and tab[s][2] > float(v[T]) - tab[T ^ s][1] + eps:
                        fails.append((s, "upper exceeds v(T)-lower(T\\S)", (tab[s][2], T)))
        return fails

    ORACLES = [("C04 oracle (containment, vs SA, monotone in r, antitone, caps)", oracle)]
    for c in cases:
        ctx.count("repetitions", c["r"])
    mism = campaign.run_cases(ctx, cases, ORACLES)
    # the same statement on ONE long-lived object whose knowledge changes and returns (gym step/unstep, meta-game resets):
    # every compute of the history is judged by the oracle and compared with the model
    hcomps = ["sam:0", "sam:1", "sam:2", "sam:10"]
    mism += campaign.run_histories(ctx, hcomps, "sam", [(3, 12, 12), (4, 12, 14), (5, 4, 12)] if ctx.quick else
                                   [(3, 150, 30), (4, 120, 30), (5, 40, 24)], ORACLES)
    import coqshard
    coqshard.cross_check(ctx, cases, limit=8 if ctx.quick else 40)
    campaign.report_mismatches(ctx, mism, ORACLES, "compute_bounds_superadditive_monotone_approx_cached (impl) = compute_sam (model)")

"""C19 - saved results read back faithfully and are never overwritten."""
from __future__ import annotations

import importlib
import json
import shutil
from pathlib import Path

import numpy as np

import storelib as sl
import common
from common import run_driver

RULE = ("three streams. (1) save histories: 1-8 saves through save_json into one data.json, names drawn from a pool so that "
        "repeats occur, every Output = (data matrix, actions matrix, Namespace): rank 1-3, dims 1-5, float classes "
        "{small int, dyadic, double, |x| up to 1e308, down to 5e-324, specials incl. -0.0} with NaN padding patterns "
        "{none, tail, random, all}, int64 action arrays, metadata values {int, float, NaN, str (unicode, quotes, newline), bool, "
        "None, Path, tuple, list, dict, function, functools.partial, numpy scalars, opaque object}, func of 9 kinds, optionally "
        "a user key named run_type; a small share has a zero-length dimension or no func (exception path). After EVERY save the "
        "parsed file is compared with the model store (st_run_outputs), and after the history every entry is read back through "
        "Output.from_file and get_outputs_from_file and compared with st_from_json. (2) np.array(nested list) vs st_of_list on "
        "rectangular and ragged nestings. (3) the solve / greedy / ugreedy / best_states command functions on n=3..4 players "
        "with evaluate / get_greedy_rewards / get_best_exploitability wrapped to capture what was computed. "
        "distinct_nontrivial = distinct (history of names, shapes, cells, args) with at least 2 saves or a NaN cell or a "
        "non-JSON metadata value, plus distinct nestings of depth>=2, plus distinct command configurations.")
TRUSTED = ["model of run/save.py: theories/Store.v (hand-written); tie = correspondence on every run",
           "NOT modelled, exercised only: CPython's json text codec (json.dump / json.loads, the NaN literal, string escapes) and "
           "float repr's shortest round trip; the model's store is the parsed dictionary, numbers are exact rationals",
           "numpy's ndarray.tolist and np.array(nested list) are modelled (st_tolist / st_of_list) and compared on every case; "
           "dtype is not modelled (int vs float is checked by the implementation-side oracle only)",
           "repr() of functions / objects is taken from CPython and handed to the model as a string"]
ASSUMPTIONS = ["round-trip theorems: every dimension >= 1 (the property's 'at least one row and column'); "
               "tolist_roundtrip_needs_nonempty shows the hypothesis is needed",
               "metadata: Namespace has a func entry (otherwise Output.metadata raises KeyError, modelled as None)",
               "infinities, integers beyond 2^63 and non-str dict keys are outside the model and not generated"]


def _mods():
    save = importlib.import_module("incomplete_cooperative.run.save")
    return save


# ---------------------------------------------------------------- stream 1: histories
def _loaded_line(out) -> str:
    return ("ok " + sl.arr_tok(out.data) + " ; " + sl.arr_tok(out.actions) + " ; " + sl.jv_tok(out.metadata))


def _arr_eq(a, b) -> bool:
    return a.shape == b.shape and bool(np.array_equal(np.asarray(a, dtype=float), np.asarray(b, dtype=float), equal_nan=True))


def run_history(ctx, hist_spec, workdir: Path):
    """Run one history on the implementation.  Returns (impl_lines, oracle_failures, info)."""
    save = _mods()
    path = workdir / "data.json"
    if path.exists():
        path.unlink()
    outs = [sl.build_output(h["out"]) for h in hist_spec]
    names = [h["name"] for h in hist_spec]
    step_lines, fails = [], []
    prev = None
    first = {}
    for i, (name, out) in enumerate(zip(names, outs)):
        exc = None
        try:
            save.save_json(path, name, out)
        except KeyError as e:      # Output.metadata without func
            exc = e
        except Exception as e:  # noqa: BLE001  (a run of at least one step must be saved: any other exception is a failure)
            fails.append({"step": i, "what": f"save_json raised {type(e).__name__}: {str(e)[:120]} - the run is not saved",
                          "name": name})
            break
        cur = sl.read_parsed(path)
        if exc is not None:
            step_lines.append("exc")
            if not _same_store(prev, cur):
                fails.append({"step": i, "what": "a save that raised changed the file", "before": prev, "after": cur})
            continue
        step_lines.append(sl.store_tok(cur))
        # ---- oracle: never overwritten
        prevd = prev or {}
        if name in prevd:
            if not _same_store(prevd, cur):
                fails.append({"step": i, "what": "saving under an existing name changed the file",
                              "name": name, "before": prevd, "after": cur})
        else:
            first[name] = i
            if sorted(cur.keys()) != sorted(list(prevd.keys()) + [name]):
                fails.append({"step": i, "what": "keys after saving a new name are not old keys + new name",
                              "before_keys": list(prevd.keys()), "after_keys": list(cur.keys())})
            for k, v in prevd.items():
                if k not in cur or not sl.json_same(v, cur[k]):
                    fails.append({"step": i, "what": "an earlier entry changed when a new name was saved",
                                  "entry": k, "before": v, "after": cur.get(k)})
        prev = cur
    # ---- read back
    load_lines = []
    if prev:
        try:
            allout = save.get_outputs_from_file(path)
        except Exception as e:
            allout = None
            fails.append({"what": f"get_outputs_from_file raised {type(e).__name__}: {e}"})
        for name, i in first.items():
            orig = outs[i]
            nonempty = all(d >= 1 for d in orig.data.shape + orig.actions.shape)
            try:
                one = save.Output.from_file(path, name)
            except Exception as e:
                load_lines.append("none")
                if nonempty:
                    fails.append({"what": f"Output.from_file raised {type(e).__name__}: {e}", "name": name})
                continue
            load_lines.append(_loaded_line(one))
            for tag, got in (("from_file", one), ("get_outputs_from_file", allout[name] if allout else None)):
                if got is None:
                    continue
                if _loaded_line(got) != load_lines[-1]:
                    fails.append({"what": "from_file and get_outputs_from_file disagree", "name": name})
                if not nonempty:
                    continue
                if not _arr_eq(got.data, orig.data):
                    fails.append({"what": f"{tag}: gap matrix does not round-trip", "name": name,
                                  "expected_shape": orig.data.shape, "got_shape": got.data.shape,
                                  "expected": orig.data.tolist(), "got": got.data.tolist()})
                if not _arr_eq(got.actions, orig.actions):
                    fails.append({"what": f"{tag}: action matrix does not round-trip", "name": name,
                                  "expected_shape": orig.actions.shape, "got_shape": got.actions.shape,
                                  "expected": orig.actions.tolist(), "got": got.actions.tolist()})
                exp_meta = sl.expected_metadata(orig.parsed_args)
                if not sl.json_same(exp_meta, got.metadata, ordered=False):
                    fails.append({"what": f"{tag}: metadata differs beyond JSON stringification", "name": name,
                                  "expected": exp_meta, "got": got.metadata})
    return step_lines, load_lines, fails, {"parsed": prev, "first": first}


def _same_store(a, b) -> bool:
    if a is None or b is None:
        return a is None and b is None
    return sl.json_same(a, b)


def model_history_line(hist_spec) -> str:
    outs = [sl.build_output(h["out"]) for h in hist_spec]
    return " ".join(["st_hist", str(len(outs))] + [sl.str_tok(h["name"]) + " " + sl.output_tok(o)
                                                    for h, o in zip(hist_spec, outs)])


def split_model_hist(line: str) -> list[str]:
    return [s.strip() for s in line.split("|")[1:]]


def hist_key(hist_spec) -> str:
    return sl.hashlib.md5(json.dumps(hist_spec, sort_keys=True).encode()).hexdigest()


def hist_nontrivial(hist_spec) -> bool:
    if len(hist_spec) >= 2:
        return True
    o = hist_spec[0]["out"]
    if "nan" in o["data"]["cells"] or "nan" in o["actions"]["cells"]:
        return True
    return any(v[0] in ("path", "tuple", "callable", "partial", "opaque", "npint") for _, v in o["args"])


def stream_histories(ctx, n_cases: int):
    work = ctx.work / "hist"
    work.mkdir(parents=True, exist_ok=True)
    cases = []
    for c in range(n_cases):
        r = ctx.rng.random()
        hist = sl.gen_history_spec(ctx.rng, zero_dim_rate=0.15 if r < 0.15 else 0.0, nofunc_rate=0.2 if 0.15 <= r < 0.25 else 0.0)
        cases.append(hist)
    # corpus: the unit tests' own cases and the refutation witness of tolist_roundtrip_needs_nonempty
    cases.insert(0, [{"name": "foobar", "out": {"data": {"shape": [1, 3], "dtype": "int", "cells": [3, 1, 2]},
                                                  "actions": {"shape": [0, 3], "dtype": "float", "cells": []},
                                                  "args": [["foo", ["str", "bar"]], ["baz", ["int", 42]], ["func", ["str", "eval"]]]}}])
    lines = [model_history_line(h) for h in cases]
    model_out = run_driver(lines)
    SHARD.extend(("hist", l, o) for l, o in list(zip(lines, model_out))[:400] if len(l) < 6000)
    mism = []
    load_queries = []   # (case index, name, parsed entry)
    impl_results = []
    for idx, (hist, mo) in enumerate(zip(cases, model_out)):
        steps, loads, fails, info = run_history(ctx, hist, work)
        impl_results.append((steps, loads, info))
        ctx.evaluations += 1
        if hist_nontrivial(hist):
            ctx.nontrivial.add(("hist", hist_key(hist)))
        ctx.count("history_length", len(hist))
        ctx.count("distinct_names", len({h["name"] for h in hist}))
        ctx.count("repeated_name_saves", len(hist) - len({h["name"] for h in hist}))
        for h in hist:
            o = h["out"]
            ctx.count("rank(data,actions)", f"{len(o['data']['shape'])},{len(o['actions']['shape'])}")
            ctx.count("nan_cells", "some" if ("nan" in o["data"]["cells"] or "nan" in o["actions"]["cells"]) else "none")
            for _, v in o["args"]:
                ctx.count("metadata_value_kind", v[0])
        if idx in (1, 2):
            ctx.sample({"stream": "history", "history": hist, "file_after_last_save": info["parsed"]})
        for f in fails:
            ctx.violation("C19 oracle: " + f.get("what", "?"), {"stream": "history", "history": hist, "failure": f},
                          found_input=True)
        msteps = split_model_hist(mo)
        if msteps != steps:
            j = next((k for k in range(min(len(msteps), len(steps))) if msteps[k] != steps[k]), min(len(msteps), len(steps)))
            mism.append({"stream": "history", "history": hist, "first_disagreeing_save": j,
                         "model": msteps[j][:2000] if j < len(msteps) else None, "impl": steps[j][:2000] if j < len(steps) else None})
        if info["parsed"]:
            for name in info["first"]:
                load_queries.append((idx, name, info["parsed"][name]))
    # read-back correspondence
    qtoks = [sl.jv_tok(e) for _, _, e in load_queries]
    lq_ok = run_driver(["st_load " + t for t in qtoks if not sl.has_inf(t)])
    it = iter(lq_ok)
    lq = ["(infinity in the file: outside the model)" if sl.has_inf(t) else next(it) for t in qtoks]
    pos = {}
    for (idx, name, _), ml in zip(load_queries, lq):
        k = pos.get(idx, 0)
        pos[idx] = k + 1
        il = impl_results[idx][1][k]
        ctx.evaluations += 1
        ctx.count("read_back", "none" if il == "none" else "ok")
        if " ".join(ml.split()) != " ".join(il.split()):
            mism.append({"stream": "read-back", "history": cases[idx], "name": name, "model": ml[:2000], "impl": il[:2000]})
    return mism


# ---------------------------------------------------------------- stream 2: np.array(nested) vs st_of_list
def gen_nested(rng, depth):
    if depth == 0:
        return rng.choice([1, 2.5, float("nan"), -3, 0.0, 1e30])
    return [gen_nested(rng, depth - 1) for _ in range(rng.randint(0, 3))]


def rect_nested(rng, shape):
    if not shape:
        return rng.choice([1, 2.5, float("nan"), -3])
    return [rect_nested(rng, shape[1:]) for _ in range(shape[0])]


def stream_nested(ctx, n_cases: int):
    cases = [[], [[], []], [[1, 2], [3]], [[1], 2], [[], [1]], 1.5, [[[]]], [[[], []], [[], []]], [[1.0], [float("nan")]]]
    for _ in range(n_cases):
        if ctx.rng.random() < 0.5:
            x = rect_nested(ctx.rng, [ctx.rng.randint(0, 3) for _ in range(ctx.rng.randint(1, 3))])
            if ctx.rng.random() < 0.4 and isinstance(x, list) and x:      # perturb one place
                i = ctx.rng.randrange(len(x))
                x[i] = ctx.rng.choice([[], 7, [1], x[i] + [0] if isinstance(x[i], list) else [x[i]]])
        else:
            x = gen_nested(ctx.rng, ctx.rng.randint(1, 3))
        cases.append(x)
    mo = run_driver(["st_arr " + sl.jv_tok(x) for x in cases])
    SHARD.extend(("arr", "st_arr " + sl.jv_tok(x), m) for x, m in list(zip(cases, mo))[:120])
    mism = []
    for x, m in zip(cases, mo):
        ctx.evaluations += 1
        try:
            a = np.array(x, dtype=np.float64)
            il = "ok " + sl.arr_tok(a)
        except ValueError:
            il = "none"
        ctx.count("nested_list", "ragged(ValueError)" if il == "none" else f"rank{il.split()[1]}")
        depth = 0
        y = x
        while isinstance(y, list) and y:
            depth += 1
            y = y[0]
        if depth >= 2:
            ctx.nontrivial.add(("nested", json.dumps(x)))
        if il != " ".join(m.split()):
            mism.append({"stream": "np.array(nested list)", "input": json.dumps(x), "model": m, "impl": il})
    return mism


# ---------------------------------------------------------------- stream 3: commands
def command_configs(ctx, n_cfg):
    gens = ["factory", "factory_fixed", "graph", "xs", "k_budget_generator", "noisy_factory"]
    cfgs = []
    for i in range(n_cfg):
        cmd = ["solve", "greedy", "ugreedy", "best_states"][i % 4]
        n = ctx.rng.choice([3, 3, 3, 4])
        steps = ctx.rng.randint(1, 3 if n == 3 else 4)
        common_args = ["--number-of-players", str(n), "--run-steps-limit", str(steps), "--parallel-environments", "1",
                       "--seed", str(ctx.rng.randint(0, 10 ** 6)), "--game-generator", ctx.rng.choice(gens),
                       "--game-class", ctx.rng.choice(["superadditive", "superadditive_cached", "sam_apx_1"]),
                       "--gap-function", ctx.rng.choice(["exploitability", "l1_norm", "linf_norm"])]
        if cmd == "solve":
            sub = ["solve", "--solver", ctx.rng.choice(["greedy", "greedy_worst", "random", "largest"]),
                   "--solve-repetitions", str(ctx.rng.randint(1, 3))]
        elif cmd in ("greedy", "ugreedy"):
            sub = [cmd, "--sampling-repetitions", str(ctx.rng.randint(1, 3))]
        else:
            sub = ["best_states", "--sampling-repetitions", str(ctx.rng.randint(1, 3)),
                   "--eval-repetitions", str(ctx.rng.randint(1, 3))]
        # names repeat every 5 runs; several differ only after their last dot (version suffixes, the default ISO timestamps
        # with fractional seconds) - they are different names and must stay different entries
        names5 = ["run0", "ppo.v1", "ppo.v2", "2026-09-30T12:00:00.104233", "2026-09-30T12:00:00.871902"]
        cfgs.append({"cmd": cmd, "common": common_args, "sub": sub, "name": names5[i % 5]})
    return cfgs


class _Capture:
    def __init__(self):
        self.calls = []

    def wrap(self, f):
        def g(*a, **k):
            r = f(*a, **k)
            self.calls.append(tuple(np.array(x, copy=True) if isinstance(x, np.ndarray) else json.loads(json.dumps(x)) for x in r))
            return r
        return g


def run_command(ctx, cfg, model_dir: Path):
    """Run one command function; returns (captured Output handed to the saver, expected (data, actions) recomputed from the
    captured search/evaluation results, notes)."""
    save = _mods()
    mainmod = importlib.import_module("incomplete_cooperative.__main__")
    target = {"solve": ("incomplete_cooperative.run.solve", "evaluate"),
              "greedy": ("incomplete_cooperative.run.greedy", "get_greedy_rewards"),
              "ugreedy": ("incomplete_cooperative.run.greedy", "get_greedy_rewards"),
              "best_states": ("incomplete_cooperative.run.best_states", "get_best_exploitability")}[cfg["cmd"]]
    mod = importlib.import_module(target[0])
    cap = _Capture()
    handed = []
    real_save_json = save.save_json

    def saver(path, unique_name, output):
        handed.append(output)
        real_save_json(path, unique_name, output)

    orig_fn = getattr(mod, target[1], None)
    orig_savers = save.SAVERS
    notes = []
    try:
        if orig_fn is not None:
            setattr(mod, target[1], cap.wrap(orig_fn))
        else:
            notes.append(f"{target[0]}.{target[1]} not found: deep capture skipped")
        save.SAVERS = {"data.json": saver}
        argv = ["icg"] + cfg["common"] + ["--model-dir", str(model_dir), "--unique-name", cfg["name"]] + cfg["sub"]
        mainmod.main(mainmod.get_argument_parser(), argv)
    finally:
        save.SAVERS = orig_savers
        if orig_fn is not None:
            setattr(mod, target[1], orig_fn)
    expected = None
    if cap.calls:
        if cfg["cmd"] == "solve":
            expected = cap.calls[-1]
        elif cfg["cmd"] in ("greedy", "ugreedy"):
            expl, coals = cap.calls[-1]
            expected = (expl, np.array(coals, dtype=float).reshape(len(coals), 1))
        else:
            steps = int(cfg["common"][cfg["common"].index("--run-steps-limit") + 1])
            reps = len(cap.calls)
            expl = np.hstack([c[0] for c in cap.calls])
            act = np.full((steps + 1, reps, steps), np.nan)
            for r, (_, best) in enumerate(cap.calls):
                for ep, coal in enumerate(best):
                    for j, cid in enumerate(coal):
                        act[ep, r, j] = cid
            expected = (expl, act)
    return handed, expected, notes


def stream_commands(ctx, n_cfg):
    model_dir = ctx.work / "cmd_model_dir"
    if model_dir.exists():
        shutil.rmtree(model_dir)
    cfgs = command_configs(ctx, n_cfg)
    save = _mods()
    path = model_dir / "data.json"
    mism, model_hist = [], []
    prev = None
    expected_store = {}
    for cfg in cfgs:
        handed, expected, notes = run_command(ctx, cfg, model_dir)
        for nt in notes:
            ctx.notes.append(nt)
        ctx.evaluations += 1
        ctx.nontrivial.add(("cmd", json.dumps(cfg, sort_keys=True)))
        ctx.count("command", cfg["cmd"])
        cur = sl.read_parsed(path)
        rep = {"stream": "command", "config": cfg, "argv_prefix": "python -m incomplete_cooperative"}
        if len(handed) != 1:
            ctx.violation("C19 oracle: the command did not hand exactly one Output to the saver", dict(rep, handed=len(handed)))
            continue
        out = handed[0]
        name = cfg["name"]
        if expected is not None:
            if not (_arr_eq(out.data, expected[0]) and _arr_eq(out.actions, expected[1])):
                ctx.violation("C19 oracle: the Output handed to save() is not what the evaluation / search returned",
                              dict(rep, expected_data=expected[0].tolist(), got_data=out.data.tolist(),
                                   expected_actions=expected[1].tolist(), got_actions=out.actions.tolist()))
            ctx.count("steps>=1", str(expected[0].shape[0] >= 2))
        is_new = name not in expected_store
        if is_new:
            expected_store[name] = out
        model_hist.append((name, out))
        # oracle on the file
        if cur is None or name not in cur:
            ctx.violation("C19 oracle: the run is missing from data.json", dict(rep, file=cur))
            continue
        if prev is not None:
            for k, v in prev.items():
                if k not in cur or not sl.json_same(v, cur[k]):
                    ctx.violation("C19 oracle: an earlier run changed when a later command saved",
                                  dict(rep, entry=k, before=v, after=cur.get(k)))
        first = expected_store[name]
        loaded = save.Output.from_file(path, name)
        if not (_arr_eq(loaded.data, first.data) and _arr_eq(loaded.actions, first.actions)):
            ctx.violation("C19 oracle: data.json does not hold the matrices that were computed for this name first",
                          dict(rep, expected_data=first.data.tolist(), got_data=loaded.data.tolist(),
                               expected_actions=first.actions.tolist(), got_actions=loaded.actions.tolist()))
        if not sl.json_same(sl.expected_metadata(first.parsed_args), loaded.metadata, ordered=False):
            ctx.violation("C19 oracle: metadata of the command run differs beyond JSON stringification",
                          dict(rep, expected=sl.expected_metadata(first.parsed_args), got=loaded.metadata))
        if len(ctx.samples) < 5 and is_new:
            ctx.sample({"stream": "command", "argv": cfg["common"] + cfg["sub"], "name": name,
                        "data_shape": list(out.data.shape), "actions_shape": list(out.actions.shape),
                        "file_entry_data": cur[name]["data"]})
        prev = cur
    # model: the whole sequence of command saves as one history; compare the final file
    line = " ".join(["st_hist", str(len(model_hist))] + [sl.str_tok(n) + " " + sl.output_tok(o) for n, o in model_hist])
    mo = split_model_hist(run_driver([line])[0])
    if prev is not None and mo and mo[-1] != sl.store_tok(prev):
        mism.append({"stream": "command", "configs": cfgs, "model_final": mo[-1][:3000], "impl_final": sl.store_tok(prev)[:3000]})
    return mism


# ---------------------------------------------------------------- in-Coq shard
SHARD = []


def coq_shard(ctx, limit=200):
    """Re-evaluate a sample of the driver's answers inside Coq (vm_compute): removes extraction + OCaml printing from the
    trusted base for that sample."""
    ex = []
    hist_n = 0
    for kind, line, out in SHARD:
        if len(ex) >= limit:
            break
        if kind == "arr":
            t = sl._Toks(line)
            t.next()
            inp = sl.coq_jv(t)
            o = sl._Toks(out)
            res = "None" if o.next() == "none" else f"Some {sl.coq_arr(o)}"
            ex.append(f"st_of_list {inp} = {res}")
        elif hist_n < limit // 2:
            # only the final store of histories in which no save raised
            parts = split_model_hist(out)
            if "exc" in parts or not parts:
                continue
            t = sl._Toks(line)
            t.next()
            k = int(t.next())
            items = []
            for _ in range(k):
                nm = sl.coq_str(t.next())
                items.append(f"({nm}, {sl.coq_output(t)})")
            final = sl.coq_store(sl._Toks(parts[-1]))
            ex.append(f"st_run_outputs [] [{'; '.join(items)}] = Some {final}")
            hist_n += 1
    ok, log, secs = sl.run_coq_shard(ctx, "C19", "Store", ex)
    ctx.coverage["in_coq_shard"] = {"examples": len(ex), "compiled": ok, "seconds": secs}
    if not ok:
        ctx.violation("in-Coq evaluation (vm_compute) disagrees with the extracted model's answers on the shard",
                      {"log": log}, found_input=False)


# ---------------------------------------------------------------- the real save() with every saver; other writers
def stream_full_save(ctx, n_cases: int):
    """(A) save() as the commands call it - ALL registered savers, plots included - must store exactly the matrices it was
    handed and leave the Output untouched; (B) saves interleaved with another writer of the same results file (another
    process; the same file under another spelling of its path) must keep every entry."""
    import os
    import subprocess
    import sys
    import tempfile
    import matplotlib
    matplotlib.use("Agg")
    from argparse import Namespace
    save = _mods()
    rng = ctx.rng
    for i in range(n_cases):
        rows, cols = rng.randint(1, 5), rng.randint(1, 4)
        data = np.array([[rng.choice([rng.uniform(-3, 3), -1.1e-16, -2.2e-16, 0.0, rng.uniform(0, 50)]) for _ in range(cols)]
                         for _ in range(rows)], dtype=float)
        actions = np.array([[float(rng.randint(3, 30)) for _ in range(cols)] for _ in range(max(rows - 1, 1))])
        data0, actions0 = data.copy(), actions.copy()
        out = save.Output(data, actions, Namespace(func=print, number_of_players=3, tag=f"t{i}"))
        with tempfile.TemporaryDirectory(dir=str(ctx.work)) as d:
            md = Path(d) / "model"
            save.save(md, f"run{i}", out)
            back = save.Output.from_file(md / "data.json", f"run{i}")
        ctx.evaluations += 1
        ctx.count("full_save", "negative" if (data0 < 0).any() else "non-negative")
        if not (_arr_eq(back.data, data0) and _arr_eq(back.actions, actions0)):
            ctx.violation("save() (all savers) stored a gap/action matrix different from the one it was handed",
                          {"handed_data": data0.tolist(), "stored_data": np.asarray(back.data).tolist(),
                           "handed_actions": actions0.tolist(), "stored_actions": np.asarray(back.actions).tolist()})
        elif not (_arr_eq(out.data, data0) and _arr_eq(out.actions, actions0)):
            ctx.violation("save() modified the Output it was handed", {"before": data0.tolist(), "after": np.asarray(out.data).tolist()})
    # (A0) infinite entries (outside the rational model, so judged on the implementation alone): they round-trip like any value
    for i in range(6 if ctx.quick else 60):
        rows, cols = rng.randint(1, 4), rng.randint(1, 4)
        pal = [float("inf"), float("-inf"), float("nan"), 4.0, -2.5, 1e308]
        data = np.array([[rng.choice(pal) for _ in range(cols)] for _ in range(rows)], dtype=float)
        actions = np.array([[rng.choice([float("nan"), float("inf"), 7.0, 12.0]) for _ in range(cols)] for _ in range(rows)], dtype=float)
        with tempfile.TemporaryDirectory(dir=str(ctx.work)) as d:
            path = Path(d) / "data.json"
            save.save_json(path, "first", save.Output(np.array([[1.0]]), np.array([[3.0]]), Namespace(func=print)))
            save.save_json(path, "inf-run", save.Output(data.copy(), actions.copy(), Namespace(func=print)))
            backs = [save.Output.from_file(path, "inf-run"), save.get_outputs_from_file(path)["inf-run"]]
        ctx.evaluations += 1
        ctx.count("full_save", "infinite entries")
        for back in backs:
            if not (_arr_eq(back.data, data) and _arr_eq(back.actions, actions)):
                ctx.violation("a gap/action matrix with infinite entries does not round-trip through save_json / from_file",
                              {"saved_data": str(data.tolist()), "read_data": str(np.asarray(back.data).tolist()),
                               "saved_actions": str(actions.tolist()), "read_actions": str(np.asarray(back.actions).tolist())})
                break
    # (A') a sequence of saves with every saver into ONE model directory under names that differ only after their last dot
    # (version suffixes, ISO timestamps with fractional seconds, decimal hyper-parameters): all are NEW names
    names = ["ppo.v1", "ppo.v2", "2026-09-30T12:00:00.104233", "2026-09-30T12:00:00.871902", "lr=0.0003", "lr=0.001", "plain"]
    rng.shuffle(names)
    with tempfile.TemporaryDirectory(dir=str(ctx.work)) as d:
        md = Path(d) / "model"
        saved = {}
        for j, name in enumerate(names[: (5 if ctx.quick else 7)]):
            data = np.array([[float(j + 1), float(rng.randint(0, 9))]])
            actions = np.array([[float(rng.randint(3, 30))]])
            save.save(md, name, save.Output(data.copy(), actions.copy(), Namespace(func=print, number_of_players=3, tag=name)))
            saved[name] = (data, actions)
            ctx.evaluations += 1
            ctx.count("full_save", "dotted-name sequence")
            try:
                stored = save.get_outputs_from_file(md / "data.json")
            except Exception as e:  # noqa: BLE001
                ctx.violation(f"results file unreadable after save() under the name {name!r}: {type(e).__name__}: {e}", {"names": list(saved)})
                break
            missing = [k for k in saved if k not in stored]
            wrong = [k for k in saved if k in stored and not (_arr_eq(stored[k].data, saved[k][0]) and _arr_eq(stored[k].actions, saved[k][1]))]
            if missing or wrong:
                ctx.violation(f"after save() under the new name {name!r} the results file lacks {missing} / holds other matrices for {wrong}",
                              {"names_saved_in_order": list(saved), "missing": missing, "wrong": wrong, "file_has": sorted(stored)})
                break
    # (B) another writer between two saves of this process
    helper = ("import sys, numpy as np; from argparse import Namespace; from pathlib import Path; "
              "from incomplete_cooperative.run.save import Output, save_json; "
              "save_json(Path(sys.argv[1]), sys.argv[2], Output(np.array([[float(sys.argv[3])]]), np.array([[1.0]]), Namespace(func=print)))")
    for variant in ("other-process", "other-spelling"):
        with tempfile.TemporaryDirectory(dir=str(ctx.work)) as d:
            path = Path(d) / "data.json"
            mk = lambda x: save.Output(np.array([[float(x)]]), np.array([[1.0]]), Namespace(func=print))
            save.save_json(path, "a", mk(1))
            if variant == "other-process":
                env = dict(os.environ, PYTHONPATH=str(common.REPO))
                subprocess.run([sys.executable, "-W", "ignore", "-c", helper, str(path), "b", "2"], check=True, env=env,
                               stdout=subprocess.DEVNULL, stderr=subprocess.DEVNULL)
            else:
                cwd = os.getcwd()
                os.chdir(d)
                try:
                    save.save_json(Path("data.json"), "b", mk(2))
                finally:
                    os.chdir(cwd)
            save.save_json(path, "c", mk(3))
            save.save_json(path, "b", mk(4))          # existing name: must change nothing
            got = {k: float(v.data[0][0]) for k, v in save.get_outputs_from_file(path).items()}
        ctx.evaluations += 1
        ctx.count("interleaved_writer", variant)
        if got != {"a": 1.0, "b": 2.0, "c": 3.0}:
            ctx.violation(f"an entry saved by another writer ({variant}) was lost or overwritten by a later save",
                          {"variant": variant, "file_holds": got, "expected": {"a": 1.0, "b": 2.0, "c": 3.0}})


# ---------------------------------------------------------------- entry points
def run(ctx, proof):
    quick = ctx.quick
    mism = []
    mism += stream_histories(ctx, 150 if quick else 4000)
    mism += stream_nested(ctx, 150 if quick else 3000)
    mism += stream_commands(ctx, 12 if quick else 120)
    stream_full_save(ctx, 12 if quick else 80)
    if mism and not any(v["found_input"] for v in ctx.violations):
        ctx.violation("correspondence broken: save_json / Output.from_json / np.array (impl) vs st_run_outputs / st_from_json / "
                      "st_of_list (Store.v); no input violating the property found", {"mismatches": len(mism), "first": mism[0]},
                      found_input=False)
    elif mism:
        ctx.coverage["model_impl_mismatches"] = len(mism)
        ctx.coverage["first_mismatch"] = mism[0]
    ctx.coverage["exhaustive"] = False
    if not quick:
        coq_shard(ctx)


def replay(ctx, rep):
    if rep.get("stream") == "history":
        work = ctx.work / "replay"
        work.mkdir(parents=True, exist_ok=True)
        steps, loads, fails, info = run_history(ctx, rep["history"], work)
        for f in fails:
            print("REPRODUCED:", f.get("what"))
        print("file after the history:", json.dumps(info["parsed"])[:2000])
        return 1 if fails else 0
    print("replay of this stream: re-run ./check C19 with the same VERIF_SEED")
    return 2

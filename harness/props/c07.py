"""C07 - more information never hurts: intervals shrink, every gap function is non-increasing."""
import numpy as np

import boundslib as bl
import campaign
import games
from common import run_driver_parallel

from incomplete_cooperative.bounds import BOUNDS
from incomplete_cooperative.coalitions import Coalition

RULE = ("for each game, EVERY edge K -> K+{S} of the knowledge lattice for n=3 (quick) / n<=4 (thorough), sampled maximal chains "
        "for n=4,5(,6): implementation bounds before/after compared with the model and, on the implementation alone, interval "
        "inclusion and decrease / non-negativity / zero-at-full of all four registered gap functions (exact on the exact stream, "
        "2e-9 relative allowance on the float stream); superadditive computers on superadditive games, SAM approximations on SAM games. "
        "distinct_nontrivial = distinct (computer, n, game, K, S) edges along which some interval strictly shrinks.")
TRUSTED = ["models: theories/Bounds.v; gap functions: implementation-side oracle (and theories/Norms.v when present); tie = correspondence"]
ASSUMPTIONS = ["hidden game of the class matching the computer"]


def gaps_of(g):
    from incomplete_cooperative.run.model import GAP_FUNCTIONS
    return {k: float(f(g)) for k, f in GAP_FUNCTIONS.items()}


def state(comp, n, v, K):
    g = bl.make_game(comp, n, v, K)
    g.compute_bounds()
    return bl.table_of(g), gaps_of(g)


def check_edge(ctx, comp, n, v, K, s, exact, cache):
    key = tuple(K)
    if key not in cache:
        cache[key] = state(comp, n, v, K)
    K2 = sorted(K + [s])
    key2 = tuple(K2)
    if key2 not in cache:
        cache[key2] = state(comp, n, v, K2)
    (t1, g1), (t2, g2) = cache[key], cache[key2]
    ctx.evaluations += 1
    scale = max([1.0] + [abs(float(x)) for x in v])
    eps = 0.0 if exact else 2e-9 * scale
    fails = []
    shrink = False
    for i, (a, b) in enumerate(zip(t1, t2)):
        if b[1] < a[1] - eps or b[2] > a[2] + eps:
            fails.append((i, "interval widened", a, b))
        if b[1] > a[1] or b[2] < a[2]:
            shrink = True
    geps = 1e-9 * scale * (2 ** n)
    for name in g1:
        tol = geps if (name in ("exploitability", "l2_norm") or not exact) else 0.0
        if g2[name] > g1[name] + tol:
            fails.append((name, "gap increased", g1[name], g2[name]))
        if g2[name] < -tol or g1[name] < -tol:
            fails.append((name, "gap negative", g1[name], g2[name]))
    if len(K2) == 2 ** n:
        for name in g2:
            if abs(g2[name]) > geps:
                fails.append((name, "gap not zero at full knowledge", g2[name]))
    if fails:
        ctx.violation(f"revealing coalition {s} hurts ({comp}): {fails[:3]}",
                      {"comp": comp, "n": n, "v": [str(x) for x in v], "K": K, "revealed": s, "failures": str(fails[:6])})
    if shrink:
        ctx.nontrivial.add((comp, n, tuple(map(float, v)), key, s))
    return shrink


def regen(ctx):
    import registry_dump
    registry_dump.regen_registry()


def run(ctx, proof):
    rng = ctx.rng
    sa_comps = ["superadditive", "superadditive_cached"]
    sam_comps = ["sam_apx_1", "sam_apx_10"] if ctx.quick else [k for k in BOUNDS if k.startswith("sam")]
    jobs = []
    for klass, comps in (("sa", sa_comps), ("sam", sam_comps)):
        for comp in comps:
            ng3, ng4 = (2, 1) if ctx.quick else (8, 2)
            for _ in range(ng3):
                jobs.append((klass, comp, 3, "all"))
            heavy = comp in ("sam_apx_100", "sam_apx_1000")
            for _ in range(ng4):
                jobs.append((klass, comp, 4, "all" if (not ctx.quick and not heavy) else "chains"))
            for _ in range(1 if ctx.quick else 4):
                jobs.append((klass, comp, 5, "chains"))
    model_cases = []
    for klass, comp, n, mode in jobs:
        r = rng.random()
        if klass == "sa":
            if r < 0.6:
                v, exact = games.sa_closure_game(rng, n, rng.choice(["int", "dyadic"])), True
            else:
                v, exact = games.sa_closure_game(rng, n, "float"), False
        else:
            if r < 0.6:
                v, exact = games.sam_game(rng, n, rng.choice(["int", "dyadic"])), True
            else:
                v, _ = campaign.repo_generator_game(rng, n, campaign.SAM_GENS)
                exact = False
        ctx.count("class", klass)
        ctx.count("computer", comp)
        ctx.count("n", n)
        ctx.count("stream", "exact" if exact else "float")
        cache = {}
        opt = games.optional_ids(n)
        if mode == "all":
            for K in games.all_knowledge_sets(n):
                for s in opt:
                    if s not in K:
                        check_edge(ctx, comp, n, v, K, s, exact, cache)
            ctx.coverage.setdefault("lattices_completed", []).append({"computer": comp, "n": n})
        else:
            for _ in range(3 if ctx.quick else 10):
                order = rng.sample(opt, len(opt))
                K = games.minimal_ids(n)
                K = sorted(K)
                for s in order:
                    check_edge(ctx, comp, n, v, K, s, exact, cache)
                    K = sorted(K + [s])
        # a sample of the visited knowledge sets goes to the model as well
        keys = list(cache.keys())
        for key in rng.sample(keys, min(len(keys), 6 if ctx.quick else 40)):
            model_cases.append({"comp": comp, "n": n, "v": v, "K": list(key), "stale": None,
                                "stream": "exact" if exact else "float", "src": "c07-" + klass})
        ctx.sample({"computer": comp, "n": n, "game": [float(x) for x in v][:16], "mode": mode}, limit=4)
    # the same statement on ONE long-lived object (how the environments use it): reveal after reveal on the same game object,
    # recomputing in place; also beyond 8 players for the memoised computers (prefixes of chains; negative-valued families
    # included, where a too-high stale number is not a valid lower bound)
    chain_plan = [("superadditive_cached", "sa", 5, 2, 99), ("sam_apx_1", "sam", 5, 2, 99), ("superadditive", "sa", 4, 1, 99),
                  ("superadditive_cached", "sam", 9, 2, 7), ("sam_apx_1", "sam", 9, 1, 5)]
    if not ctx.quick:
        chain_plan = [(c, k, n, cnt * 5, pre) for (c, k, n, cnt, pre) in chain_plan] + \
            [("superadditive_cached", "sam", 10, 2, 6), ("sam_apx_10", "sam", 9, 2, 5), ("superadditive_cached", "sa", 9, 3, 8)]
    for comp, klass, n, cnt, prefix in chain_plan:
        for _ in range(cnt):
            if klass == "sam":
                v, src = campaign.repo_generator_game(rng, n, campaign.SAM_GENS)
            else:
                v, src = campaign.repo_generator_game(rng, n, campaign.SA_GENS)
            if len(v) != 2 ** n:
                continue
            scale = max([1.0] + [abs(float(x)) for x in v])
            eps = 2e-9 * scale
            g = bl.make_game(comp, n, v, games.minimal_ids(n))
            g.compute_bounds()
            prev, prev_g = bl.table_of(g), gaps_of(g)
            opt = games.optional_ids(n)
            order = rng.sample(opt, min(len(opt), prefix))
            done = []
            for s_ in order:
                g.reveal_value(float(v[s_]), Coalition(s_))
                g.compute_bounds()
                done.append(s_)
                cur, cur_g = bl.table_of(g), gaps_of(g)
                ctx.evaluations += 1
                ctx.count("same_object_chain_n", n)
                fails = [(i, "interval widened", a, b) for i, (a, b) in enumerate(zip(prev, cur))
                         if b[1] < a[1] - eps or b[2] > a[2] + eps]
                geps = 1e-9 * scale * (2 ** n)
                fails += [(name, "gap increased", prev_g[name], cur_g[name]) for name in cur_g if cur_g[name] > prev_g[name] + geps]
                if fails:
                    ctx.violation(f"same object, reveals {done}: revealing coalition {s_} hurts ({comp}, {src}, n={n}): {fails[:3]}",
                                  {"comp": comp, "n": n, "generator": src, "v": [float(x) for x in v] if n <= 6 else "regenerate from generator@seed",
                                   "reveals_in_order": done, "failures": str(fails[:6])})
                    break
                if any(b[1] > a[1] or b[2] < a[2] for a, b in zip(prev, cur)):
                    ctx.nontrivial.add(("chain", comp, n, src, tuple(done)))
                prev, prev_g = cur, cur_g
    evals = ctx.evaluations
    # the four registered gap functions against the model (theories/Env.v ev_gap; l2 through its square)
    glines, gmeta = [], []
    for c in model_cases:
        st, tab = bl.impl_compute(c["comp"], c["n"], c["v"], c["K"])
        if st != "ok":
            continue
        g = bl.make_game(c["comp"], c["n"], c["v"], c["K"])
        g.compute_bounds()
        glines.append(f"gaps {c['n']} " + bl.table_line(tab))
        gmeta.append((c, gaps_of(g)))
    from common import tokq, close
    gm = 0
    for (c, gi), out in zip(gmeta, run_driver_parallel(glines)):
        vals = [None if x == "E" else float(tokq(x)) for x in out.split()]
        scale = max([1.0] + [abs(float(x)) for x in c["v"]]) * 2 ** c["n"]
        ok = (vals[0] is not None and close(gi["exploitability"], vals[0], 1e-8, scale) and close(gi["l1_norm"], vals[1], 1e-8, scale)
              and close(gi["l2_norm"] ** 2, vals[2], 1e-8, scale * scale) and close(gi["linf_norm"], vals[3], 1e-8, scale))
        if not ok:
            gm += 1
            if gm == 1 and not any(v["found_input"] for v in ctx.violations):
                ctx.violation(f"correspondence 'GAP_FUNCTIONS = ev_gap model' broke: impl {gi} vs model {vals}",
                              {"case": campaign.case_json(c), "impl": gi, "model": vals}, found_input=False)
    ctx.coverage["gap_values_compared_with_model"] = len(gmeta)
    # oracle on the implementation alone (theorem C07_gap_functions_comparable): the four gap functions measure one width vector -
    # linf <= l1, exploitability <= l1, linf^2 <= l2^2 <= linf * l1, linf <= C(n, n//2) * exploitability (so that they vanish together), up to rounding
    from math import comb
    cmp_fail = 0
    for c, gi in gmeta:
        scale = max([1.0] + [abs(float(x)) for x in c["v"]]) * 2 ** c["n"]
        t1, t2 = 1e-9 * scale, 1e-9 * scale * scale
        e, l1, l2, li = gi["exploitability"], gi["l1_norm"], gi["l2_norm"], gi["linf_norm"]
        bad = [w for w, okk in [("linf <= l1", li <= l1 + t1), ("exploitability <= l1", e <= l1 + t1),
                                ("linf^2 <= l2^2", li * li <= l2 * l2 + t2), ("l2^2 <= linf*l1", l2 * l2 <= li * l1 + t2),
                                ("linf <= C(n,n//2)*exploitability", li <= comb(c["n"], c["n"] // 2) * e + t1 * comb(c["n"], c["n"] // 2))]
               if not okk]
        ctx.count("gap_comparability", "ok" if not bad else "fail")
        if bad:
            cmp_fail += 1
            if cmp_fail <= 3:
                ctx.violation(f"gap functions of one incomplete game are not comparable ({'; '.join(bad)}): {gi}",
                              {"case": campaign.case_json(c), "impl_gaps": gi, "violated": bad}, found_input=True)
    mism = campaign.run_cases(ctx, model_cases, [])
    campaign.report_mismatches(ctx, mism, [], "compute_bounds (impl) = compute (model) on knowledge sets visited along the lattice")
    ctx.coverage["edges_checked"] = evals
    mulfactor_stage(ctx)


# ---------------------------------------------------------------------------------------------------------------------
# multiplicative factors (incomplete_cooperative/multiplicative/multiplicative_factor.py; model: theories/MulFactor.v)
# ---------------------------------------------------------------------------------------------------------------------
MF_RULE = ("multiplicative factors: positive superadditive int/dyadic games (closure game + |S|; 15% left unshifted so that a "
           "zero lower bound makes the asserts fire), bounds computed by compute_bounds along a random reveal chain, plus raw "
           "tables with arbitrary positive/zero bound columns; approximating game = lower bounds | (lower+v)/2 | random values. "
           "A case (n, game, table, approximation) is distinct by that tuple and non-trivial when some result is a number > 1 "
           "or an assert fires")


def _mf_call(f, *args):
    try:
        return float(f(*args))
    except AssertionError:
        return "err"
    except ValueError:
        return "err"


def mulfactor_stage(ctx):
    from fractions import Fraction
    from common import tokq, qtok, is_exact_float, run_driver
    from incomplete_cooperative.multiplicative.multiplicative_factor import (
        mul_factor_lower_upper_bound, mul_factor_to_approximation, mul_factor_to_lower_bound,
        mul_factor_upper_to_approximation)
    rng = ctx.rng
    names = ["to_approximation", "upper_to_approximation", "to_lower_bound", "lower_upper_bound"]
    lines, meta = [], []
    tol = 1e-12

    def one(n, v, g, full, positive, where, chain_state):
        tab = bl.table_of(g)
        mode = rng.choice(["lower", "mid", "random"])
        if mode == "lower":
            a = [Fraction(r[1]) for r in tab]
        elif mode == "mid":
            a = [(Fraction(r[1]) + Fraction(v[i])) / 2 for i, r in enumerate(tab)]
        else:
            a = [games.rand_value(rng, "dyadic") for _ in tab]
        approx = bl.make_game("superadditive", n, a, list(range(2 ** n)))
        res = [_mf_call(mul_factor_to_approximation, full, approx), _mf_call(mul_factor_upper_to_approximation, approx, g),
               _mf_call(mul_factor_to_lower_bound, full, g), _mf_call(mul_factor_lower_upper_bound, g)]
        ctx.evaluations += 1
        for nm, r in zip(names, res):
            ctx.count("mulfactor_" + nm, "err" if r == "err" else ("one" if r == 1.0 else "above_one"))
        ctx.count("mulfactor_table", where)
        key = ("mf", n, tuple(float(x) for x in v), tuple(tab), mode)
        if any(r == "err" or r > 1.0 for r in res):
            ctx.nontrivial.add(key)
        lines.append(f"mf {n} " + " ".join(qtok(x) for x in v) + " " + " ".join(qtok(x) for x in a) + " " + bl.table_line(tab))
        rep = {"n": n, "game": [float(x) for x in v], "approximation": [float(x) for x in a], "table": [list(r) for r in tab],
               "where": where}
        meta.append((rep, res))
        # oracle on the implementation alone
        if where == "computed":
            tl, lu = res[2], res[3]
            if positive and (tl == "err" or lu == "err"):
                ctx.violation(f"multiplicative factor of computed bounds of a positive superadditive game raises: to_lower={tl}, "
                              f"lower_upper={lu}", dict(rep, expected="1 <= to_lower <= lower_upper", observed=[tl, lu]))
            elif tl != "err" and lu != "err" and not (1.0 - tol <= tl <= lu * (1 + tol)):
                ctx.violation(f"multiplicative factors out of order: to_lower={tl}, lower_upper={lu} (expected 1 <= to_lower <= lower_upper)",
                              dict(rep, expected="1 <= to_lower <= lower_upper", observed=[tl, lu]))
            if chain_state.get("prev") is not None and lu != "err":
                plu, ptl = chain_state["prev"]
                if plu != "err" and lu > plu * (1 + tol):
                    ctx.violation(f"mul_factor_lower_upper_bound increased along a reveal: {plu} -> {lu}",
                                  dict(rep, reveals=list(chain_state["done"]), expected="non-increasing", observed=[plu, lu]))
                if ptl != "err" and tl != "err" and tl > ptl * (1 + tol):
                    ctx.violation(f"mul_factor_to_lower_bound increased along a reveal: {ptl} -> {tl}",
                                  dict(rep, reveals=list(chain_state["done"]), expected="non-increasing", observed=[ptl, tl]))
                if plu != "err" and lu < plu:
                    ctx.nontrivial.add(("mf-strict", key))
            chain_state["prev"] = (lu, tl)

    ngames = 40 if ctx.quick else 200
    for _ in range(ngames):
        n = rng.choice([2, 3, 3, 4, 4] + ([5] if not ctx.quick or rng.random() < 0.3 else [3]))
        kind = rng.choice(["int", "dyadic"])
        v = games.sa_closure_game(rng, n, kind, neg_singletons=False)
        positive = rng.random() < 0.85
        if positive:
            v = [x + games.popcount(s) for s, x in enumerate(v)]
        comp = rng.choice(["superadditive", "superadditive_cached"])
        ctx.count("mulfactor_n", n)
        full = bl.make_game(comp, n, v, list(range(2 ** n)))
        g = bl.make_game(comp, n, v, games.minimal_ids(n))
        g.compute_bounds()
        st = {"prev": None, "done": []}
        one(n, v, g, full, positive, "computed", st)
        opt = games.optional_ids(n)
        for s_ in rng.sample(opt, min(len(opt), 6 if ctx.quick else 12)):
            g.reveal_value(float(v[s_]), Coalition(s_))
            g.compute_bounds()
            st["done"].append(s_)
            one(n, v, g, full, positive, "computed", st)
        # raw tables: arbitrary bound columns (every row, coalition 1 included), never recomputed
        for _ in range(2):
            stale = {}
            for i in range(1, 2 ** n):
                l = games.rand_value(rng, "dyadic") if rng.random() < 0.97 else 0
                h = l + games.rand_value(rng, "dyadic") if rng.random() < 0.97 else l - Fraction(1, 4)
                stale[i] = (l, h)
            graw = bl.make_game(comp, n, v, [0], stale)
            one(n, v, graw, full, positive, "raw", {})
    outs = run_driver(lines)
    bad = 0
    for (rep, res), out in zip(meta, outs):
        toks = out.split()
        ok = len(toks) == 4
        for r, tk in zip(res, toks):
            if tk == "err" or r == "err":
                ok = ok and (tk == "err") == (r == "err")
                continue
            m = tokq(tk)
            if is_exact_float(m):
                ok = ok and Fraction(*float(r).as_integer_ratio()) == m
            else:
                ok = ok and abs(r - float(m)) <= 1e-9 * max(1.0, abs(float(m)))
        if not ok:
            bad += 1
            if bad == 1 and not any(x["found_input"] for x in ctx.violations):
                ctx.violation(f"correspondence 'multiplicative_factor.py = MulFactor.v mf_all' broke: impl {res} vs model {toks}",
                              dict(rep, impl=res, model=toks), found_input=False)
    ctx.coverage["mulfactor_cases_compared_with_model"] = len(meta)
    ctx.coverage["mulfactor_mismatches"] = bad


RULE = RULE + " | " + MF_RULE
TRUSTED = TRUSTED + ["multiplicative factors: theories/MulFactor.v models a `Game` argument by its value vector (get_values()) and "
                     "float division by exact rational division; tie = correspondence stage mulfactor_stage"]

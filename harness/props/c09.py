"""C09 - the reveal-one-coalition environment reflects exactly what was revealed."""
import itertools

import numpy as np

import campaign
import envlib
import games
from common import run_driver_parallel

from incomplete_cooperative.bounds import BOUNDS
from incomplete_cooperative.run.model import GAP_FUNCTIONS

RULE = ("lock-step traces of reset / step / unstep with valid actions on ICG_Gym vs the Env.v state machine: for n=3 ALL "
        "action sequences without repetition (all orderings of the 3 explorable coalitions, every prefix, with unsteps interleaved), "
        "sampled for n=4,5; hidden games from integer/dyadic closures and from repository generator families; every registered "
        "computer matching the class; all four gap functions; budgets None / k; extra initially known coalitions. After EVERY call: "
        "mask, observation, reward (1e-9; l2 via its square), done, info, step counter and the whole table are compared, and an "
        "oracle on the implementation checks knowledge = initial + chosen with hidden values, mask, observation, reward = -gap of "
        "freshly recomputed bounds <= 0. distinct_nontrivial = distinct (config, game, trace) with at least 2 steps and an unstep or reset.")
TRUSTED = ["model: theories/Env.v (+ Bounds.v, Exploit.v, Norms.v); the normalised hidden game is an input of the model (normalisation is C15)",
           "gymnasium's Env base class / spaces are outside the model"]
ASSUMPTIONS = ["valid actions only (step on an allowed action, unstep on a coalition chosen since the last reset)"]


def gen_trace(rng, n_expl, length, allow_reset=True):
    ops, chosen = [], []
    for _ in range(length):
        r = rng.random()
        free = [a for a in range(n_expl) if a not in chosen]
        if r < 0.55 and free:
            a = rng.choice(free)
            ops.append(("step", a))
            chosen.append(a)
        elif r < 0.85 and chosen:
            a = rng.choice(chosen)
            ops.append(("unstep", a))
            chosen.remove(a)
        elif allow_reset and r < 0.93:
            ops.append(("reset",))
            chosen = []
        elif free:
            a = rng.choice(free)
            ops.append(("step", a))
            chosen.append(a)
    return ops


def run_trace(ctx, n, comp, gap, budget, init_ids, hidden_games, trace, exact, klass_ok=True):
    """Returns (driver line, per-call impl observations, meta) after running the implementation."""
    env, feed = envlib.make_env(n, comp, gap, budget, init_ids, hidden_games)
    expl = [c.id for c in env.explorable_coalitions]
    cur = hidden_games[(feed.i - 1) % len(hidden_games)]
    model_ops = [("reset", cur, [float(x) for x in env.normalized_game.get_values()])]
    impl_obs = [envlib.observe(env)]
    chosen = []
    fails = envlib.oracle_env(env, [], cur, n, init_ids, klass_ok)
    for o in trace:
        if o[0] == "reset":
            env.reset()
            cur = hidden_games[(feed.i - 1) % len(hidden_games)]
            model_ops.append(("reset", cur, [float(x) for x in env.normalized_game.get_values()]))
            chosen = []
            ob = envlib.observe(env)
        else:
            a = o[1]
            res = env.step(a) if o[0] == "step" else env.unstep(a)
            ob = envlib.observe(env)
            ob["info"] = int(res[4]["chosen_coalition"])
            # returned tuple must agree with the properties
            if [float(x) for x in res[0]] != ob["obs"] or (ob["reward"] is not None and float(res[1]) != ob["reward"]) or bool(res[2]) != ob["done"]:
                fails.append(("returned tuple differs from state/reward/done properties", o))
            if ob["info"] != expl[a]:
                fails.append(("info reports another coalition", ob["info"], expl[a]))
            if o[0] == "step":
                chosen.append(expl[a])
            else:
                chosen.remove(expl[a])
            model_ops.append(o)
        impl_obs.append(ob)
        fails += envlib.oracle_env(env, chosen, cur, n, init_ids, klass_ok)
        # done predicate, stated independently
        widths = [h - l for _, l, h in ob["table"]]
        want_done = (budget is not None and ob["steps"] >= budget) or (not any(ob["mask"])) or all(w == 0 for w in widths)
        if want_done != ob["done"]:
            fails.append(("done predicate", ob["done"], want_done))
    if fails:
        ctx.violation(f"environment contradicts its specification: {fails[:3]}",
                      {"n": n, "comp": comp, "gap": gap, "budget": budget, "init": init_ids,
                       "hidden_games": [[str(x) for x in g] for g in hidden_games], "trace": [list(map(str, o)) for o in trace],
                       "failures": str(fails[:6])})
    return envlib.env_line(n, comp, gap, budget, init_ids, model_ops), impl_obs


def regen(ctx):
    import registry_dump
    registry_dump.regen_registry()


def siblings(ctx):
    """Several environments made by ONE ModelInstance (what learn/solve/eval do) used in an interleaved way: each must keep
    satisfying the statement with respect to its OWN hidden game and its OWN history."""
    from incomplete_cooperative.run.model import ModelInstance
    rng = ctx.rng
    for _ in range(6 if ctx.quick else 60):
        n = rng.choice([3, 3, 4])
        klass = rng.choice(["sa", "sam"])
        comp = rng.choice(["superadditive", "superadditive_cached"]) if klass == "sa" else rng.choice(["sam_apx_1", "sam_apx_10"])
        gen = rng.choice([g for g in (campaign.SA_GENS if klass == "sa" else campaign.SAM_GENS)
                          if g not in ("factory_cheerleader_next",)])
        gap = rng.choice(list(GAP_FUNCTIONS.keys()))
        seed = rng.randrange(2 ** 31)
        mi = ModelInstance(number_of_players=n, game_class=comp, game_generator=gen, gap_function=gap, seed=seed,
                           run_steps_limit=rng.choice([None, None, 3]))
        envs = [mi.get_env() for _ in range(rng.choice([2, 2, 3]))]
        for e_ in envs:
            e_.verif_computer = BOUNDS[comp]
        chosen = [None] * len(envs)          # None = not reset yet
        trace = []
        init_ids = games.minimal_ids(n)
        bad = None
        for _ in range(14):
            j = rng.randrange(len(envs))
            env = envs[j]
            expl = [c.id for c in env.explorable_coalitions]
            if chosen[j] is None or rng.random() < 0.15:
                env.reset()
                chosen[j] = []
                trace.append((j, "reset"))
            else:
                free = [a for a in range(len(expl)) if expl[a] not in chosen[j]]
                if chosen[j] and (rng.random() < 0.3 or not free):
                    cid = rng.choice(chosen[j])
                    env.unstep(expl.index(cid))
                    chosen[j].remove(cid)
                    trace.append((j, "unstep", expl.index(cid)))
                elif free and not (mi.run_steps_limit and len(chosen[j]) >= mi.run_steps_limit):
                    a = rng.choice(free)
                    try:
                        env.step(a)
                    except AssertionError as e:
                        bad = (j, [("step raised AssertionError on a valid action", a, str(e)[:80])])
                        trace.append((j, "step", a))
                        break
                    chosen[j].append(expl[a])
                    trace.append((j, "step", a))
                else:
                    continue
            ctx.evaluations += 1
            ctx.count("sibling_env_calls", trace[-1][1])
            for jj, e2 in enumerate(envs):          # EVERY environment is re-examined after every call
                if chosen[jj] is None:
                    continue
                hidden = [float(x) for x in e2.full_game.get_values()]
                fails = envlib.oracle_env(e2, chosen[jj], hidden, n, init_ids, True)
                if fails:
                    bad = (jj, fails)
                    break
            if bad:
                break
        if bad:
            ctx.violation(f"environments made by one ModelInstance.get_env() interfere: after the interleaved calls {trace} environment "
                          f"{bad[0]} no longer satisfies the statement for its own hidden game and history: {bad[1][:3]}",
                          {"ModelInstance": {"number_of_players": n, "game_class": comp, "game_generator": gen, "gap_function": gap,
                                             "seed": seed, "run_steps_limit": mi.run_steps_limit},
                           "environments": len(envs), "calls (env index, call, action)": [list(t) for t in trace],
                           "failing_environment": bad[0], "failures": str(bad[1][:5])})
            return
        ctx.nontrivial.add(("siblings", n, comp, gen, seed))


def budget_walks(ctx):
    """Budget games v(S) = -min(k, |S|) (the K-budget family) with n = 5 under the monotone approximations: many coalitions
    are pinned down by the bounds before they are revealed, yet their reveal moves other bounds - the reward must be the
    negated gap of FRESHLY recomputed bounds after every step and unstep."""
    rng = ctx.rng
    for kb in ([2, 3] if ctx.quick else [1, 2, 3, 4]):
        for comp in (["sam_apx_1"] if ctx.quick else ["sam_apx_1", "sam_apx_10"]):
            n = 5
            v = [-min(kb, games.popcount(i)) for i in range(2 ** n)]
            gap = rng.choice(list(GAP_FUNCTIONS.keys()))
            env, _ = envlib.make_env(n, comp, gap, None, games.minimal_ids(n), [v])
            expl = [c.id for c in env.explorable_coalitions]
            for walk in range(6 if ctx.quick else 20):
                env.reset()
                chosen, trace, bad = [], [], None
                for _ in range(12):
                    free = [a for a in range(len(expl)) if expl[a] not in chosen]
                    if chosen and rng.random() < 0.25:
                        cid = rng.choice(chosen)
                        env.unstep(expl.index(cid))
                        chosen.remove(cid)
                        trace.append(("unstep", expl.index(cid)))
                    else:
                        a = rng.choice(free)
                        env.step(a)
                        chosen.append(expl[a])
                        trace.append(("step", a))
                    ctx.evaluations += 1
                    ctx.count("budget_game_calls", comp)
                    fails = envlib.oracle_env(env, chosen, v, n, games.minimal_ids(n), True)
                    if fails:
                        bad = fails
                        break
                if bad:
                    ctx.violation(f"budget game -min({kb},|S|), n=5, {comp}, {gap}: after reset and {trace} the environment contradicts the "
                                  f"statement: {bad[:3]}",
                                  {"n": n, "comp": comp, "gap": gap, "v": v, "calls": [list(t) for t in trace], "failures": str(bad[:5])})
                    return
            ctx.nontrivial.add(("budget", kb, comp, gap))


def run(ctx, proof):
    siblings(ctx)
    budget_walks(ctx)
    rng = ctx.rng
    gaps = list(GAP_FUNCTIONS.keys())
    sa_comps = ["superadditive", "superadditive_cached"]
    sam_comps = ["sam_apx_1", "sam_apx_10"] if ctx.quick else [k for k in BOUNDS if k.startswith("sam")]
    jobs = []   # (line, impl_obs, meta)

    def hidden(klass, n, exact_only=False):
        r = rng.random()
        if klass == "sa" and r < 0.12:
            # large values, small cooperation surplus: intervals are narrow RELATIVE to the values but not degenerate
            off = 10 ** rng.randint(5, 7)
            base = games.sa_closure_game(rng, n, "int", neg_singletons=False)
            return [off * games.popcount(i) + base[i] for i in range(2 ** n)], True
        if klass == "sa" and 0.12 <= r < 0.22:
            # very small values (exact multiples of 2^-30): observations are normalised, so nothing else may change
            from fractions import Fraction
            base = games.sa_closure_game(rng, n, "int", neg_singletons=False)
            return [Fraction(x, 2 ** 30) for x in base], True
        if klass == "sa":
            if r < 0.6 or exact_only:
                return games.sa_closure_game(rng, n, rng.choice(["int", "dyadic"]), neg_singletons=False), True
            return campaign.repo_generator_game(rng, n, campaign.SA_GENS)[0], False
        if r < 0.6 or exact_only:
            return games.sam_game(rng, n, "int"), True
        return campaign.repo_generator_game(rng, n, campaign.SAM_GENS)[0], False

    def add(n, klass, comp, gap, budget, init_extra, trace):
        g1, e1 = hidden(klass, n)
        g2, e2 = hidden(klass, n)
        g3, e3 = hidden(klass, n)
        init_ids = games.minimal_ids(n) + init_extra
        line, obs = run_trace(ctx, n, comp, gap, budget, init_ids, [g1, g2, g3], trace, e1 and e2 and e3)
        jobs.append((line, obs, {"n": n, "comp": comp, "gap": gap, "budget": budget, "init": init_ids,
                                 "games": [g1, g2, g3], "trace": trace, "exact": e1 and e2 and e3}))
        ctx.count("n", n)
        ctx.count("computer", comp)
        ctx.count("gap", gap)
        ctx.count("budget", budget)
        ctx.count("trace_length", len(trace))

    # n = 3: all orderings of the three explorable coalitions, every prefix, then unsteps in every order of a subset
    seqs3 = []
    for k in range(0, 4):
        for p in itertools.permutations(range(3), k):
            seqs3.append([("step", a) for a in p])
            if k >= 1:
                for q in itertools.permutations(p, min(k, 2)):
                    seqs3.append([("step", a) for a in p] + [("unstep", a) for a in q] + [("step", q[0])])
    combos = [(klass, comp) for klass, comps in (("sa", sa_comps), ("sam", sam_comps)) for comp in comps]
    for klass, comp in combos:
        for gap in gaps:
            sel = seqs3 if not ctx.quick else rng.sample(seqs3, 10)
            for tr in sel:
                add(3, klass, comp, gap, rng.choice([None, None, 0, 1, 2]), [], tr)
    ctx.coverage["n3_sequences_per_config"] = len(seqs3)
    ctx.coverage["exhaustive"] = False
    # n = 4, 5 sampled, with resets and extra initial knowledge
    for _ in range(20 if ctx.quick else 300):
        n = rng.choice([4, 4, 5])
        klass, comp = rng.choice(combos)
        gap = rng.choice(gaps)
        opt = games.optional_ids(n)
        extra = rng.sample(opt, rng.choice([0, 0, 1, 2]))
        nexpl = len(opt) - len(extra)
        tr = gen_trace(rng, nexpl, rng.randint(2, 8 if ctx.quick else 14))
        add(n, klass, comp, gap, rng.choice([None, None, 0, 3, 5]), extra, tr)

    outs = run_driver_parallel([j[0] for j in jobs])
    mism = []
    for (line, obs, meta), out in zip(jobs, outs):
        ctx.evaluations += 1
        segs = [s for s in out.split("|")[1:]]
        d = None
        for i, (ob, seg) in enumerate(zip(obs, segs)):
            m = envlib.parse_state(seg, meta["n"])
            d = envlib.compare_obs(ob, m, meta["gap"], meta["exact"])
            if d is None and "info" in ob and m.get("info") != ob["info"]:
                d = f"info {ob['info']} vs {m.get('info')}"
            if d is not None:
                d = f"call {i}: {d}"
                break
        if d is not None:
            mism.append((meta, d))
        tr = meta["trace"]
        if sum(1 for o in tr if o[0] == "step") >= 2 and any(o[0] != "step" for o in tr):
            ctx.nontrivial.add((meta["comp"], meta["gap"], str(meta["budget"]), tuple(map(float, meta["games"][1])), tuple(tr)))
        ctx.sample({"n": meta["n"], "computer": meta["comp"], "gap": meta["gap"], "budget": meta["budget"],
                    "trace": [list(o) for o in tr]}, limit=4)
    if mism and not any(v["found_input"] for v in ctx.violations):
        meta, d = mism[0]
        ctx.violation(f"correspondence 'ICG_Gym = Env.v state machine' broke: {d} ({len(mism)} disagreeing traces)",
                      {"first": {k: (str(v) if k == "games" else v) for k, v in meta.items()}, "detail": d}, found_input=False)

"""C05 - exploitability = summed best-case Shapley gain = binomially weighted gap."""
from __future__ import annotations

import math
from fractions import Fraction

import numpy as np

from common import close, frac, qtok, run_driver_parallel, tokq
import shapleylib

RULE = ("cases = IncompleteCooperativeGame objects on n = 2..8 players whose lower/upper columns are written directly "
        "(set_lower_bound / set_upper_bound per coalition; grand coalition revealed with lower = upper), value classes "
        "int / dyadic (k/64) / float, box shapes: random boxes, all-degenerate, half-degenerate, ONE coalition size widened "
        "(every size 1..n-1 for every n), ONE single coalition widened (isolates the weight 1/C(n,|S|)), only the coalitions "
        "containing / not containing one player widened (a lower/upper swap for one family is visible), inverted boxes "
        "(lower > upper somewhere: the identity does not need lower <= upper). Every object respects the class invariant "
        "(known row => lower = upper; empty coalition known with value 0). compute_exploitability and l1/l2/linf norms are "
        "compared with Exploit.v / Norms.v (1e-9; l1 and linf exactly on the int and dyadic streams, l2 through its square). "
        "Independent oracles on the implementation: exploitability = sum (u-l)/C(n,|S|) in exact Fractions, >= 0 and "
        "= 0 iff degenerate when lower <= upper, per-player domination of random completions and box vertices by MaxGainGame. "
        "distinct_nontrivial = distinct (n, known, lower, upper) with at least one non-degenerate interval whose widths are not "
        "all equal (so a wrong weight for a size or a lower/upper swap changes the result).")
TRUSTED = ["model of exploitability.py / shapley.py / norms.py: theories/Exploit.v, Shapley.v, Norms.v (hand-written); tie = correspondence on every run",
           "numpy broadcasting in MaxGainGame.get_values (upper*mask + lower*(1-mask)) and np.linalg.norm validated by correspondence only",
           "the l2 norm is compared through its square (no square root in the model)"]
ASSUMPTIONS = ["the grand coalition is known (lower = upper there) and upper(empty) = 0, as in every game object; "
               "without upper(empty) = 0 the identity reads exploitability = weighted gap - upper(empty) (proved as exploit_weighted_gap_general)",
               "float stream compared within 1e-9 relative to n * the largest |bound|"]


def popcount(x):
    return bin(x).count("1")


# ---------------------------------------------------------------- implementation side
def impl_game(c):
    from incomplete_cooperative.coalitions import Coalition
    from incomplete_cooperative.game import IncompleteCooperativeGame
    n = c["n"]
    g = IncompleteCooperativeGame(n)
    for s in c["known"]:
        g.set_value(float(c["l"][s]), Coalition(s))
    for s in range(2 ** n):
        g.set_lower_bound(float(c["l"][s]), Coalition(s))
        g.set_upper_bound(float(c["u"][s]), Coalition(s))
    return g


def impl_run(c):
    from incomplete_cooperative.exploitability import compute_exploitability
    from incomplete_cooperative.norms import l1_norm, l2_norm, linf_norm
    g = impl_game(c)
    try:
        ex = ("ok", float(compute_exploitability(g)))
    except ValueError:
        ex = ("err", None)
    return ex, float(l1_norm(g)), float(l2_norm(g)), float(linf_norm(g)), g


# ---------------------------------------------------------------- oracles
def weighted_gap(n, l, u):
    return sum((frac(u[s]) - frac(l[s])) / math.comb(n, popcount(s)) for s in range(2 ** n))


def scale_of(c):
    return c["n"] * max([1.0] + [abs(float(x)) for x in c["l"]] + [abs(float(x)) for x in c["u"]])


def oracle(c, ex, game, rng, completions=3):
    """Failures of the property on the implementation's own output (hypotheses: grand known with l = u, u(0) = 0)."""
    n, l, u = c["n"], c["l"], c["u"]
    fails = []
    if ex[0] != "ok":
        return [f"compute_exploitability raised although the grand coalition is known"]
    x = ex[1]
    sc = scale_of(c)
    rhs = weighted_gap(n, l, u)
    if not close(x, float(rhs), 1e-9, sc):
        fails.append(f"exploitability {x!r} != sum (u-l)/C(n,|S|) = {float(rhs)!r} (= {rhs})")
    boxed = all(frac(l[s]) <= frac(u[s]) for s in range(2 ** n))
    if boxed:
        if x < -1e-9 * sc:
            fails.append(f"negative exploitability {x!r} on a box with lower <= upper")
        degenerate = all(frac(l[s]) == frac(u[s]) for s in range(2 ** n))
        if degenerate and abs(x) > 1e-9 * sc:
            fails.append(f"degenerate box but exploitability {x!r}")
        if not degenerate and float(rhs) > 1e-6 * sc and not x > 0:
            fails.append(f"non-degenerate box but exploitability {x!r}")
        # domination: no completion inside the box gives player i more than the MaxGainGame does
        from incomplete_cooperative.exploitability import MaxGainGame
        from incomplete_cooperative.game import IncompleteCooperativeGame
        from incomplete_cooperative.shapley import compute_shapley_value_for_player
        best = [float(compute_shapley_value_for_player(i, MaxGainGame(game, i))) for i in range(n)]
        if not close(sum(best) - float(frac(l[2 ** n - 1])), x, 1e-9, sc):
            fails.append(f"exploitability {x!r} is not (sum of per-player maxima {best}) - v(N)")
        for k in range(completions):
            if k == 0:
                w = [float(rng.choice([l[s], u[s]])) for s in range(2 ** n)]       # a vertex of the box
            else:
                w = [float(l[s]) + rng.random() * (float(u[s]) - float(l[s])) for s in range(2 ** n)]
                w = [min(max(x_, float(l[s])), float(u[s])) for s, x_ in enumerate(w)]
            cg = IncompleteCooperativeGame(n)
            cg.set_values(np.array(w, dtype=np.float64))
            for i in range(n):
                phi = float(compute_shapley_value_for_player(i, cg))
                if phi > best[i] + 1e-9 * sc:
                    fails.append(f"completion inside the box gives player {i} Shapley value {phi!r} > per-player maximum {best[i]!r}")
                    break
    return fails


# ---------------------------------------------------------------- case generation
def val(rng, kind, lo=-12, hi=12):
    if kind == "int":
        return rng.randint(lo, hi)
    if kind == "dyadic":
        return Fraction(rng.randint(lo * 64, hi * 64), 64)
    return rng.uniform(lo, hi) * (10 ** rng.randint(-1, 1))


def widen(rng, kind):
    if kind == "int":
        return rng.randint(1, 9)
    if kind == "dyadic":
        return Fraction(rng.randint(1, 9 * 64), 64)
    return rng.uniform(0.01, 9)


def make_case(rng, n, kind, shape, param=None):
    size = 2 ** n
    base = [val(rng, kind) for _ in range(size)]
    base[0] = 0
    l = list(base)
    u = list(base)
    grand = size - 1

    def wide(s):
        u[s] = l[s] + widen(rng, kind)
    if shape == "random":
        for s in range(1, grand):
            if rng.random() < 0.8:
                wide(s)
    elif shape == "degenerate":
        pass
    elif shape == "half":
        for s in range(1, grand):
            if rng.random() < 0.5:
                wide(s)
    elif shape == "one-size":
        for s in range(1, grand):
            if popcount(s) == param:
                wide(s)
    elif shape == "one-coalition":
        wide(param)
    elif shape == "with-player":
        for s in range(1, grand):
            if (s >> param) & 1:
                wide(s)
    elif shape == "without-player":
        for s in range(1, grand):
            if not (s >> param) & 1:
                wide(s)
    elif shape == "inverted":
        for s in range(1, grand):
            r = rng.random()
            if r < 0.5:
                wide(s)
            elif r < 0.8:
                u[s] = l[s] - widen(rng, kind)
    known = [0, grand] + [s for s in range(1, grand) if frac(l[s]) == frac(u[s]) and rng.random() < 0.5]
    return {"n": n, "l": l, "u": u, "known": sorted(set(known)), "kind": kind, "shape": shape, "param": param,
            "hyp": True}


def gen_cases(ctx):
    rng = ctx.rng
    cases = []
    kinds = ["int", "dyadic", "float"]
    reps = 2 if ctx.quick else 10
    for n in range(2, 9):
        for kind in kinds:
            for _ in range(reps):
                for shape in ("random", "half", "inverted"):
                    cases.append(make_case(rng, n, kind, shape))
            cases.append(make_case(rng, n, kind, "degenerate"))
        for k in range(1, n):                       # one coalition size at a time, every size
            for kind in (kinds if not ctx.quick else [rng.choice(kinds)]):
                cases.append(make_case(rng, n, kind, "one-size", k))
        singles = list(range(1, 2 ** n - 1)) if n <= (4 if ctx.quick else 6) else rng.sample(range(1, 2 ** n - 1), 12 if ctx.quick else 60)
        for s in singles:                           # one coalition at a time
            cases.append(make_case(rng, n, rng.choice(kinds), "one-coalition", s))
        for i in range(n):                          # one family at a time
            cases.append(make_case(rng, n, rng.choice(kinds), "with-player", i))
            cases.append(make_case(rng, n, rng.choice(kinds), "without-player", i))
        # grand coalition not flagged known (outside the property): the code raises ValueError, the model returns None;
        # recorded in the histogram only
        c = make_case(rng, n, "int", "random")
        c["known"] = [s for s in c["known"] if s != 2 ** n - 1]
        c["shape"], c["hyp"] = "grand-unknown", False
        cases.append(c)
    # beyond the symbolically listed range ("explored numerically beyond"): n = 9, 10, with the highest player involved
    for n in ((9, 10) if not ctx.quick else (9,)):
        cases.append(make_case(rng, n, "int", "random"))
        cases.append(make_case(rng, n, "int", "one-coalition", 1 << (n - 1)))          # singleton of the last player
        cases.append(make_case(rng, n, "dyadic", "with-player", n - 1))
        cases.append(make_case(rng, n, "int", "one-size", n - 1))
    # narrow intervals on values of large magnitude: the gap is tiny RELATIVE to the values, yet must be reported
    for n in (3, 4, 5):
        for _ in range(2 if ctx.quick else 8):
            c = make_case(rng, n, "int", rng.choice(["random", "half", "one-coalition"]), rng.randrange(1, 2 ** n - 1))
            off = 10 ** rng.randint(5, 7)
            for s in range(1, 2 ** n):
                shift = off * popcount(s) ** 2
                c["l"][s] += shift
                c["u"][s] += shift
            c["shape"] = "large-offset-" + c["shape"]
            cases.append(c)
    return cases


def model_line(c):
    n = c["n"]
    K = set(c["known"])
    cells = []
    for s in range(2 ** n):
        cells.append("%d %s %s" % (1 if s in K else 0, qtok(c["l"][s]), qtok(c["u"][s])))
    return "exploit %d %s" % (n, " ".join(cells))


def parse_model(out):
    t = out.split()
    if t[0] == "err":
        ex, rest = ("err", None), t[1:]
    else:
        ex, rest = ("ok", tokq(t[1])), t[2:]
    wgap, l1, linf, l2sq = (tokq(x) for x in rest)
    return ex, wgap, l1, linf, l2sq


def case_key(c):
    return (c["n"], tuple(c["known"]), tuple(float(x) for x in c["l"]), tuple(float(x) for x in c["u"]))


def nontrivial(c):
    w = {frac(a) - frac(b) for a, b in zip(c["u"], c["l"])}
    return len(w) >= 2


def case_json(c):
    d = {k: v for k, v in c.items() if k not in ("l", "u")}
    d["l"] = [str(x) for x in c["l"]]
    d["u"] = [str(x) for x in c["u"]]
    d["l_float"] = [float(x) for x in c["l"]]
    d["u_float"] = [float(x) for x in c["u"]]
    return d


def compare(c, ex, l1, l2, linf, m):
    m_ex, m_wgap, m_l1, m_linf, m_l2sq = m
    sc = scale_of(c)
    if ex[0] != m_ex[0]:
        return f"status: impl={ex[0]} model={m_ex[0]}"
    if ex[0] == "ok" and not close(ex[1], float(m_ex[1]), 1e-9, sc):
        return f"compute_exploitability: impl={ex[1]!r} model={m_ex[1]} ({float(m_ex[1])!r})"
    exact = c["kind"] in ("int", "dyadic")
    if (exact and (frac(l1) != m_l1 or frac(linf) != m_linf)) or not close(l1, float(m_l1), 1e-9, sc * 2 ** c["n"]) \
            or not close(linf, float(m_linf), 1e-9, sc):
        return f"l1/linf norm: impl={l1!r},{linf!r} model={m_l1},{m_linf}"
    if not close(l2 * l2, float(m_l2sq), 1e-9, max(1.0, float(m_l2sq))):
        return f"l2 norm: impl^2={l2 * l2!r} model l2sq={m_l2sq} ({float(m_l2sq)!r})"
    return None


def run(ctx, proof):
    rng = ctx.rng
    cases = gen_cases(ctx)
    outs = run_driver_parallel([model_line(c) for c in cases])
    mism = []
    for c, out in zip(cases, outs):
        n = c["n"]
        ctx.evaluations += 1
        ctx.count("n", n)
        ctx.count("value_class", c["kind"])
        ctx.count("shape", c["shape"])
        if c["shape"] == "one-size":
            ctx.count("widened_size", f"n={n},|S|={c['param']}")
        try:
            ex, l1, l2, linf, game = impl_run(c)
        except Exception as e:
            ctx.violation(f"implementation raised {type(e).__name__}: {e}", {"case": case_json(c)})
            continue
        m = parse_model(out)
        ctx.count("outcome", ex[0])
        if c["shape"] == "grand-unknown":
            ctx.count("grand_unknown", f"impl={ex[0]},model={m[0][0]}")
            ex_cmp, m_cmp = ("err", None), (("err", None),) + tuple(m[1:])      # norms are still compared
        else:
            ex_cmp, m_cmp = ex, m
        d = compare(c, ex_cmp, l1, l2, linf, m_cmp)
        if d is not None:
            mism.append((c, d))
        if m[0][0] == "ok" and c["hyp"] and m[0][1] != m[1]:
            mism.append((c, f"model: ex_exploit {m[0][1]} != ex_wgap {m[1]} (cannot happen: exploit_weighted_gap)"))
        if c["hyp"]:
            fails = oracle(c, ex, game, rng, completions=2 if (ctx.quick or n >= 7) else 4)
            if fails:
                ctx.violation(f"C05 oracle fails on the implementation: {fails[:3]}",
                              {"case": case_json(c), "failures": fails[:6], "impl_exploitability": ex[1]})
        if nontrivial(c):
            ctx.nontrivial.add(case_key(c))
        ctx.sample({"n": n, "shape": c["shape"], "param": c["param"], "class": c["kind"],
                    "lower": [float(x) for x in c["l"]][:16], "upper": [float(x) for x in c["u"]][:16],
                    "exploitability": ex[1], "l1": l1, "l2": l2, "linf": linf}, limit=5)
    # the same OBJECT evaluated again after its bounds were rewritten under an unchanged set of known values (what
    # compute_bounds() does after a reveal, or the bulk bound setters): the reported number must follow the current bounds
    from incomplete_cooperative.coalitions import Coalition
    from incomplete_cooperative.exploitability import compute_exploitability
    redo = [c for c in cases if c["hyp"] and c["shape"] != "grand-unknown" and c["n"] <= 6]
    rng.shuffle(redo)
    for c in redo[: (40 if ctx.quick else 400)]:
        n = c["n"]
        g = impl_game(c)
        try:
            first = float(compute_exploitability(g))
            known = set(c["known"])
            l2, u2 = list(c["l"]), list(c["u"])
            mode = rng.choice(["rewrite", "degenerate", "shrink"])
            for s_ in range(1, 2 ** n):
                if s_ in known:
                    continue
                if mode == "rewrite":
                    a, b = sorted([val(rng, "int"), val(rng, "int")])
                    l2[s_], u2[s_] = a, b
                elif mode == "degenerate":
                    u2[s_] = l2[s_]
                else:
                    if rng.random() < 0.5:
                        u2[s_] = l2[s_]
            if rng.random() < 0.5:
                g.set_lower_bounds(np.array([float(x) for x in l2]))
                g.set_upper_bounds(np.array([float(x) for x in u2]))
            else:
                for s_ in range(2 ** n):
                    if s_ not in known:
                        g.set_lower_bound(float(l2[s_]), Coalition(s_))
                        g.set_upper_bound(float(u2[s_]), Coalition(s_))
            second = float(compute_exploitability(g))
        except Exception as e:
            ctx.violation(f"implementation raised {type(e).__name__} on a re-evaluated object: {e}", {"case": case_json(c)})
            continue
        ctx.evaluations += 1
        ctx.count("re_evaluated_object", mode)
        c2 = dict(c, l=l2, u=u2)
        rhs = weighted_gap(n, l2, u2)
        if not close(second, float(rhs), 1e-9, max(scale_of(c), scale_of(c2))):
            ctx.violation(f"second evaluation of one game object after its bounds changed ({mode}) reports {second!r}, but "
                          f"sum (u-l)/C(n,|S|) of the current bounds is {float(rhs)!r} (first evaluation gave {first!r})",
                          {"case_before": case_json(c), "lower_after": [str(x) for x in l2], "upper_after": [str(x) for x in u2],
                           "mode": mode, "first": first, "second": second, "expected_second": str(rhs)})
            break

    # "any incomplete game": an implementation of the package's IncompleteGame protocol that is NOT the package's own class
    # and keeps its bounds in arrays of other dtypes (integer lower bounds with float upper bounds, all-integer, object/Fraction)
    class ProtoGame:
        def __init__(self, n, lo, up, lo_dtype, up_dtype):
            self._n, self._lo, self._up = n, np.array(lo, dtype=lo_dtype), np.array(up, dtype=up_dtype)

        @property
        def number_of_players(self):
            return self._n

        def _sel(self, arr, coalitions):
            return arr if coalitions is None else arr[[c.id for c in coalitions]]

        def get_upper_bounds(self, coalitions=None):
            return self._sel(self._up, coalitions)

        def get_lower_bounds(self, coalitions=None):
            return self._sel(self._lo, coalitions)

        def get_upper_bound(self, coalition):
            return self._up[coalition.id]

        def get_lower_bound(self, coalition):
            return self._lo[coalition.id]

        def get_interval(self, coalition):
            return np.array([self._lo[coalition.id], self._up[coalition.id]])

        def get_intervals(self, coalitions=None):
            return np.stack([self.get_lower_bounds(coalitions), self.get_upper_bounds(coalitions)], axis=1)

        def is_value_known(self, coalition):
            return bool(self._lo[coalition.id] == self._up[coalition.id])

        def are_values_known(self, coalitions=None):
            return self.get_lower_bounds(coalitions) == self.get_upper_bounds(coalitions)

        def get_value(self, coalition):
            if not self.is_value_known(coalition):
                raise ValueError("unknown")
            return self._up[coalition.id]

        def get_values(self, coalitions=None):
            return self.get_upper_bounds(coalitions)

        def get_known_value(self, coalition):
            return self._up[coalition.id] if self.is_value_known(coalition) else None

        def get_known_values(self, coalitions=None):
            return np.where(self.are_values_known(coalitions), self.get_upper_bounds(coalitions), np.nan)

        def compute_bounds(self):
            pass

        def copy(self):
            return ProtoGame(self._n, self._lo, self._up, self._lo.dtype, self._up.dtype)

        def __add__(self, other):
            raise NotImplementedError

    for _ in range(30 if ctx.quick else 300):
        n = rng.randint(2, 5)
        lo = [0] + [rng.randint(-6, 6) for _ in range(2 ** n - 1)]
        kind = rng.choice(["int-lower/float-upper", "all-int", "float32", "object-fractions"])
        if kind == "int-lower/float-upper":
            up = [0.0] + [lo[s_] + rng.choice([0, 0.5, 1.25, 2.75]) for s_ in range(1, 2 ** n)]
            dts = (np.int64, np.float64)
        elif kind == "all-int":
            up = [0] + [lo[s_] + rng.randint(0, 4) for s_ in range(1, 2 ** n)]
            dts = (np.int64, np.int64)
        elif kind == "float32":
            up = [0.0] + [lo[s_] + rng.choice([0, 0.5, 1.25, 2.75]) for s_ in range(1, 2 ** n)]
            dts = (np.float32, np.float32)
        else:
            lo = [Fraction(x) for x in lo]
            up = [Fraction(0)] + [lo[s_] + Fraction(rng.randint(0, 12), 4) for s_ in range(1, 2 ** n)]
            dts = (object, object)
        up[-1] = lo[-1]                                        # the grand coalition is known
        g = ProtoGame(n, lo, up, *dts)
        ctx.evaluations += 1
        ctx.count("protocol_game_dtypes", kind)
        rhs = weighted_gap(n, [frac(x) for x in lo], [frac(x) for x in up])
        try:
            got = compute_exploitability(g)
        except Exception as e:
            ctx.violation(f"compute_exploitability raised {type(e).__name__} on an IncompleteGame implementation with {kind} bounds: {e}",
                          {"n": n, "kind": kind, "lower": [str(x) for x in lo], "upper": [str(x) for x in up]})
            break
        if abs(float(got) - float(rhs)) > 1e-6 * max(1.0, abs(float(rhs))):
            ctx.violation(f"exploitability of an IncompleteGame implementation with {kind} bounds is {float(got)!r}, but "
                          f"sum (u-l)/C(n,|S|) = {float(rhs)!r}",
                          {"n": n, "kind": kind, "lower": [str(x) for x in lo], "upper": [str(x) for x in up],
                           "observed": float(got), "expected": str(rhs)})
            break
        ctx.nontrivial.add(("proto", kind, n, tuple(map(str, lo)), tuple(map(str, up))))

    # in-Coq shard: the same cases evaluated by vm_compute on the Gallina model; must equal the extracted model's output
    shard = [(c, out) for c, out in zip(cases, outs) if c["n"] <= 5 and c["shape"] != "grand-unknown"]
    rng.shuffle(shard)
    shard = shard[: (30 if ctx.quick else 200)]
    exprs = []
    for c, _ in shard:
        lo, up = "(sh_game_of_list %s)" % shapleylib.qlist(c["l"]), "(sh_game_of_list %s)" % shapleylib.qlist(c["u"])
        w = f"(nm_width {lo} {up})"
        exprs.append(f"[ex_exploit {c['n']} {lo} {up}; ex_wgap {c['n']} {w}; nm_l1 {c['n']} {w}; "
                     f"nm_linf {c['n']} {w}; nm_l2sq {c['n']} {w}]")
    coq_vals = shapleylib.eval_in_coq(ctx, "c05", exprs)
    for (c, out), cv in zip(shard, coq_vals):
        m = parse_model(out)
        if cv != [m[0][1], m[1], m[2], m[3], m[4]]:
            mism.append((c, f"extracted model {[m[0][1], m[1], m[2], m[3], m[4]]} != vm_compute inside Coq {cv}"))
    ctx.coverage["in_coq_vm_compute_shard"] = len(shard)

    report(ctx, mism)
    ctx.coverage["exhaustive"] = False
    ctx.coverage["every_size_widened_alone_for_n"] = list(range(2, 9))
    ctx.coverage["every_single_coalition_widened_alone_for_n"] = list(range(2, (4 if ctx.quick else 6) + 1))


def report(ctx, mism):
    """Model/implementation disagreement: search single-coalition boxes (they isolate each weight and each bound
    column) for an input on which the property's own oracle fails; else no-failing-input-found."""
    if not mism or any(v["found_input"] for v in ctx.violations):
        return
    rng = ctx.rng
    for c, detail in mism[:4]:
        n = c["n"]
        ids = list(range(1, 2 ** n - 1))
        if len(ids) > 40:
            ids = rng.sample(ids, 40)
        cands = [make_case(rng, n, "int", "one-coalition", s) for s in ids] + [make_case(rng, n, "int", "random") for _ in range(10)]
        for c2 in cands:
            try:
                ex, l1, l2, linf, game = impl_run(c2)
            except Exception as e:
                ctx.violation(f"implementation raised {type(e).__name__}: {e}", {"case": case_json(c2)})
                return
            fails = oracle(c2, ex, game, rng, completions=2)
            if fails:
                ctx.violation(f"C05 oracle fails on the implementation (found while searching around a model/implementation "
                              f"disagreement): {fails[:3]}",
                              {"case": case_json(c2), "failures": fails[:6], "impl_exploitability": ex[1]})
                return
    c, detail = mism[0]
    rel = ("compute_exploitability / l1_norm / l2_norm / linf_norm (impl) = ex_exploit_tab / nm_l1 / nm_l2sq / nm_linf "
           "(Exploit.v, Norms.v) on the same table")
    ctx.violation(f"correspondence '{rel}' no longer holds: {detail} ({len(mism)} disagreeing cases)",
                  {"relation": rel, "first_disagreement": case_json(c), "detail": detail,
                   "disagreeing_cases": len(mism)}, found_input=False)


def replay(ctx, rep):
    import random
    c = rep.get("case") or rep.get("first_disagreement")
    if c is None:
        print("replay: nothing to re-run in", list(rep))
        return 2
    c = dict(c)
    c["l"] = [Fraction(x) if "/" in str(x) or str(x).lstrip("-").isdigit() else float(x) for x in c["l"]]
    c["u"] = [Fraction(x) if "/" in str(x) or str(x).lstrip("-").isdigit() else float(x) for x in c["u"]]
    ex, l1, l2, linf, game = impl_run(c)
    print("n =", c["n"], "known =", c["known"])
    print("lower =", [float(x) for x in c["l"]])
    print("upper =", [float(x) for x in c["u"]])
    print("implementation: exploitability", ex, "l1", l1, "l2", l2, "linf", linf)
    print("sum (u-l)/C(n,|S|) =", weighted_gap(c["n"], c["l"], c["u"]))
    fails = oracle(c, ex, game, random.Random(0), completions=3) if c.get("hyp", True) else []
    print("oracle failures:", fails)
    return 1 if fails else 0

"""Translator (C18 tie, id-array side): regenerate coq/theories/gen/CoalitionIdsGen.v from the repository's
incomplete_cooperative/coalition_ids.py.

Python `ast` based and FAIL-CLOSED: every construct outside the grammar below raises TranslateError (also every
module-level statement and every function that is not expected), so an edit the translator cannot understand breaks
the build / the C18 obligation instead of being ignored.  The emitted terms are built from the operators of
theories/NpArr.v (hand-written meaning of the numpy operators) and mirror the source expressions one to one;
gen/CoalitionIdsGenProps.v proves them equal to the hand model of Enum.v.

Kinds: int (scalar, N), arr (1-d int array, list N), barr (boolean array, list bool), bool.  Arrays carry a symbolic
shape (a string); `a[m]` is only accepted when a and m have the same symbolic shape.

Grammar (anything else => TranslateError):
  module ::= docstring | `import numpy as np` | `from typing import Any` | `CoalitionId = np.int32` | def*
  def    ::= exactly the functions of ENTRIES, positional parameters only (all scalars), no decorators
  body   ::= [docstring] stmt* `return expr`
  stmt   ::= `assert int > int [, message]`      -> npa_assert (npa_gt a b) (rest)     (message: str / f-string, ignored)
           | `NAME = expr`                       -> let NAME := expr in rest
  expr   ::= NAME | non-negative INT
           | `2 ** int` -> npa_pow2 | `2 ** arr` -> npa_apow2 | `(2 ** int) - 1` -> npa_pred | `int + int` -> npa_add
           | `int ^ int` -> npa_xor | `arr & int`, `arr | int`, `arr ^ int` -> npa_and_s / npa_or_s / npa_xor_s
           | `arr != 0` -> npa_ne0 | `arr == int` -> npa_eq_s | `arr[barr]` (same shape) -> npa_mask
           | `barr.sum()` -> npa_sum_b | `np.arange(int [, dtype=CoalitionId])` -> npa_arange
           | `np.max(arr, initial=int)` -> npa_max_init
           | `f(int, ...)` for an earlier translated f -> idg_f ...; when f contains an assert (returns option) the
             call is hoisted in front of the statement as npa_bind (idg_f ...) (fun r => ...).
"""
from __future__ import annotations

import ast
from pathlib import Path

import common
from translate import COQ_KEYWORDS, GEN_DIR, TranslateError, write_if_changed

SRC_REL = Path("incomplete_cooperative") / "coalition_ids.py"
I, A, BA, B = "int", "arr", "barr", "bool"
COQ_TY = {I: "N", A: "list N", BA: "list bool", B: "bool"}
# python function -> (coq name, number of parameters), in source order; each may only call earlier ones
ENTRIES = [("get_all_coalitions", "idg_get_all_coalitions", 1), ("players", "idg_players", 2),
           ("get_size", "idg_get_size", 2), ("sub_coalitions", "idg_sub_coalitions", 2),
           ("super_coalitions", "idg_super_coalitions", 2)]
ARR_SCALAR = {ast.BitAnd: "npa_and_s", ast.BitOr: "npa_or_s", ast.BitXor: "npa_xor_s"}


def _fail(node, msg):
    raise TranslateError(f"coalition_ids.py:{getattr(node, 'lineno', '?')}: outside the translated grammar: {msg}")


def _ident(name: str) -> str:
    if not name.isidentifier() or name.startswith(("npa_", "idg_", "r_")):
        raise TranslateError(f"bad identifier {name!r}")
    return name + "_" if name in COQ_KEYWORDS else name


def _is_docstring(s) -> bool:
    return isinstance(s, ast.Expr) and isinstance(s.value, ast.Constant) and isinstance(s.value.value, str)


def _is_np(e, attr) -> bool:
    return (isinstance(e, ast.Attribute) and isinstance(e.value, ast.Name) and e.value.id == "np" and e.attr == attr)


class Val:
    def __init__(self, kind, term, shape=None):
        self.kind, self.term, self.shape = kind, term, shape


class Translator:
    def __init__(self, src: str):
        self.tree = ast.parse(src)
        self.funcs: dict[str, ast.FunctionDef] = {}
        self.done: dict[str, tuple] = {}     # python name -> (coq name, nparams, result kind, fallible)
        self.fresh = 0
        self.check_module()

    def check_module(self):
        seen_alias = False
        for node in self.tree.body:
            if _is_docstring(node):
                continue
            if isinstance(node, ast.Import):
                if [(a.name, a.asname) for a in node.names] != [("numpy", "np")]:
                    _fail(node, "import other than `import numpy as np`")
                continue
            if isinstance(node, ast.ImportFrom):
                if node.module != "typing":
                    _fail(node, f"from {node.module} import ...")
                continue
            if isinstance(node, ast.Assign):
                if (len(node.targets) == 1 and isinstance(node.targets[0], ast.Name)
                        and node.targets[0].id == "CoalitionId" and _is_np(node.value, "int32")):
                    seen_alias = True
                    continue
                _fail(node, "module-level assignment other than `CoalitionId = np.int32`")
            if isinstance(node, ast.FunctionDef):
                if node.name in self.funcs:
                    _fail(node, f"{node.name} defined twice")
                self.funcs[node.name] = node
                continue
            _fail(node, f"module-level {type(node).__name__}")
        if not seen_alias:
            raise TranslateError("coalition_ids.py: `CoalitionId = np.int32` not found")
        if list(self.funcs) != [e[0] for e in ENTRIES]:
            raise TranslateError(f"coalition_ids.py: functions {list(self.funcs)} differ from the expected "
                                 f"{[e[0] for e in ENTRIES]}")

    # ---------------------------------------------------------------- functions
    def function(self, py, coq, nparams) -> list[str]:
        f = self.funcs[py]
        a = f.args
        if a.vararg or a.kwarg or a.kwonlyargs or a.posonlyargs or a.defaults or f.decorator_list:
            _fail(f, "unsupported parameter list / decorator")
        params = [p.arg for p in a.args]
        if len(params) != nparams or len(set(params)) != nparams:
            _fail(f, f"{py} takes {len(params)} parameters, expected {nparams}")
        env = {p: Val(I, _ident(p)) for p in params}
        self.fallible = False
        body = [s for s in f.body if not _is_docstring(s)]
        kind, term = self.block(body, env, f)
        fallible = self.fallible
        self.done[py] = (coq, nparams, kind, fallible)
        ty = f"option ({COQ_TY[kind]})" if fallible else COQ_TY[kind]
        if not fallible:
            term = term[len("Some ("):-1]
        return [f"(* {py}({', '.join(params)}) *)",
                f"Definition {coq} ({' '.join(_ident(p) for p in params)} : N) : {ty} :=", f"  {term}.", ""]

    def block(self, stmts, env, where):
        """Returns (kind of the returned value, coq term of type option _); the term always starts with
        `Some (` when nothing in the block can fail."""
        if not stmts:
            _fail(where, "function can fall off its end without returning")
        s, rest = stmts[0], stmts[1:]
        self.pending = []
        if isinstance(s, ast.Return):
            if s.value is None:
                _fail(s, "bare return")
            if rest:
                _fail(rest[0], "statement after return")
            v = self.expr(s.value, env)
            if v.kind == B:
                _fail(s, "returns a bool")
            return v.kind, self.wrap(f"Some ({v.term})")
        if isinstance(s, ast.Assert):
            t = s.test
            if not (isinstance(t, ast.Compare) and len(t.ops) == 1 and isinstance(t.ops[0], ast.Gt)):
                _fail(s, "assert other than `a > b`")
            if s.msg is not None and not (isinstance(s.msg, ast.JoinedStr)
                                          or (isinstance(s.msg, ast.Constant) and isinstance(s.msg.value, str))):
                _fail(s, "assert message")
            l, r = self.expr(t.left, env), self.expr(t.comparators[0], env)
            if l.kind != I or r.kind != I:
                _fail(s, f"assert compares {l.kind} > {r.kind}")
            wrap_pending = self.pending
            self.fallible = True
            kind, k = self.block(rest, env, s)
            self.pending = wrap_pending
            return kind, self.wrap(f"npa_assert (npa_gt {l.term} {r.term})\n  ({k})")
        if isinstance(s, ast.Assign):
            if len(s.targets) != 1 or not isinstance(s.targets[0], ast.Name):
                _fail(s, "assignment target")
            name = s.targets[0].id
            v = self.expr(s.value, env)
            wrap_pending = self.pending
            env2 = dict(env)
            env2[name] = Val(v.kind, _ident(name), v.shape if v.kind in (A, BA) else None)
            kind, k = self.block(rest, env2, s)
            self.pending = wrap_pending
            if k.startswith("Some ("):
                return kind, self.wrap(f"Some (let {_ident(name)} := {v.term} in\n  {k[len('Some ('):-1]})")
            return kind, self.wrap(f"let {_ident(name)} := {v.term} in\n  {k}")
        _fail(s, f"statement {type(s).__name__}")

    def wrap(self, term: str) -> str:
        """Put the hoisted fallible calls of the current statement in front of it."""
        for (var, call) in reversed(self.pending):
            term = f"npa_bind ({call}) (fun {var} =>\n  {term})"
        self.pending = []
        return term

    # ---------------------------------------------------------------- expressions
    def expr(self, e, env) -> Val:
        if isinstance(e, ast.Name):
            if e.id not in env:
                _fail(e, f"free variable {e.id}")
            return env[e.id]
        if isinstance(e, ast.Constant):
            if type(e.value) is int and e.value >= 0:
                return Val(I, str(e.value))
            _fail(e, f"constant {e.value!r}")
        if isinstance(e, ast.BinOp):
            return self.binop(e, env)
        if isinstance(e, ast.Compare):
            if len(e.ops) != 1:
                _fail(e, "chained comparison")
            l, r = self.expr(e.left, env), self.expr(e.comparators[0], env)
            c = e.comparators[0]
            if isinstance(e.ops[0], ast.NotEq) and l.kind == A and isinstance(c, ast.Constant) and c.value == 0 \
                    and type(c.value) is int:
                return Val(BA, f"(npa_ne0 {l.term})", l.shape)
            if isinstance(e.ops[0], ast.Eq) and l.kind == A and r.kind == I:
                return Val(BA, f"(npa_eq_s {l.term} {r.term})", l.shape)
            _fail(e, f"comparison {type(e.ops[0]).__name__} on {l.kind}, {r.kind}")
        if isinstance(e, ast.Subscript):
            a, m = self.expr(e.value, env), self.expr(e.slice, env)
            if a.kind == A and m.kind == BA:
                if a.shape != m.shape:
                    _fail(e, f"boolean mask of shape [{m.shape}] on an array of shape [{a.shape}]")
                self.fresh += 1
                return Val(A, f"(npa_mask {a.term} {m.term})", f"mask#{self.fresh}")
            _fail(e, f"indexing {a.kind}[{m.kind}]")
        if isinstance(e, ast.Call):
            return self.call(e, env)
        _fail(e, f"expression {type(e).__name__}")

    def binop(self, e, env) -> Val:
        if isinstance(e.op, ast.Pow):
            if not (isinstance(e.left, ast.Constant) and type(e.left.value) is int and e.left.value == 2):
                _fail(e, "power other than 2 ** x")
            r = self.expr(e.right, env)
            if r.kind == I:
                return Val(I, f"(npa_pow2 {r.term})")
            if r.kind == A:
                return Val(A, f"(npa_apow2 {r.term})", r.shape)
            _fail(e, f"2 ** {r.kind}")
        if isinstance(e.op, ast.Sub):
            if (isinstance(e.left, ast.BinOp) and isinstance(e.left.op, ast.Pow) and isinstance(e.right, ast.Constant)
                    and type(e.right.value) is int and e.right.value == 1):
                l = self.expr(e.left, env)
                if l.kind == I:
                    return Val(I, f"(npa_pred {l.term})")
            _fail(e, "subtraction other than (2 ** int) - 1")
        l, r = self.expr(e.left, env), self.expr(e.right, env)
        if isinstance(e.op, ast.Add) and l.kind == I and r.kind == I:
            return Val(I, f"(npa_add {l.term} {r.term})")
        if isinstance(e.op, ast.BitXor) and l.kind == I and r.kind == I:
            return Val(I, f"(npa_xor {l.term} {r.term})")
        if type(e.op) in ARR_SCALAR and l.kind == A and r.kind == I:
            return Val(A, f"({ARR_SCALAR[type(e.op)]} {l.term} {r.term})", l.shape)
        _fail(e, f"operator {type(e.op).__name__} on {l.kind}, {r.kind}")

    def call(self, e, env) -> Val:
        f = e.func
        if any(k.arg is None for k in e.keywords) or any(isinstance(a, ast.Starred) for a in e.args):
            _fail(e, "* / ** arguments")
        if _is_np(f, "arange"):
            for k in e.keywords:
                if not (k.arg == "dtype" and isinstance(k.value, ast.Name) and k.value.id == "CoalitionId"):
                    _fail(e, f"np.arange keyword {k.arg}")
            if len(e.args) != 1:
                _fail(e, "np.arange with other than one positional argument")
            n = self.expr(e.args[0], env)
            if n.kind != I:
                _fail(e, f"np.arange({n.kind})")
            return Val(A, f"(npa_arange {n.term})", f"arange {n.term}")
        if _is_np(f, "max"):
            if len(e.args) != 1 or [k.arg for k in e.keywords] != ["initial"]:
                _fail(e, "np.max other than np.max(arr, initial=int)")
            a, i = self.expr(e.args[0], env), self.expr(e.keywords[0].value, env)
            if a.kind != A or i.kind != I:
                _fail(e, f"np.max({a.kind}, initial={i.kind})")
            return Val(I, f"(npa_max_init {a.term} {i.term})")
        if isinstance(f, ast.Attribute) and f.attr == "sum" and not _is_np(f, "sum"):
            if e.args or e.keywords:
                _fail(e, ".sum with arguments")
            a = self.expr(f.value, env)
            if a.kind != BA:
                _fail(e, f".sum() of {a.kind}")
            return Val(I, f"(npa_sum_b {a.term})")
        if isinstance(f, ast.Name):
            if f.id not in self.done:
                _fail(e, f"call of {f.id} (not an earlier translated function)")
            coq, nparams, kind, fallible = self.done[f.id]
            if e.keywords or len(e.args) != nparams:
                _fail(e, f"{f.id} called with other than {nparams} positional arguments")
            args = [self.expr(a, env) for a in e.args]
            if any(a.kind != I for a in args):
                _fail(e, f"{f.id} called on {[a.kind for a in args]}")
            term = f"{coq} {' '.join(a.term for a in args)}"
            if not fallible:
                return Val(kind, f"({term})", f"len ({term})")
            self.fresh += 1
            var = f"r_{self.fresh}"
            self.pending.append((var, term))
            self.fallible = True
            return Val(kind, var, f"len {var}")
        _fail(e, "call form")


def translate(repo: Path | None = None) -> str:
    repo = Path(repo) if repo is not None else common.REPO
    tr = Translator((repo / SRC_REL).read_text())
    out = ["(* GENERATED on every run by harness/translate_ids.py from incomplete_cooperative/coalition_ids.py - do not edit.",
           "   One definition per function, built from the NpArr.v operators, mirroring the source expressions;",
           "   scalars are N, int arrays list N, boolean arrays list bool, a failing assert is None. *)",
           "From Coq Require Import NArith List.", "From ICG Require Import NpArr.", "Local Open Scope N_scope.", ""]
    for (py, coq, nparams) in ENTRIES:
        out += tr.function(py, coq, nparams)
    return "\n".join(out)


def regen_coalition_ids(repo: Path | None = None) -> bool:
    """Regenerate gen/CoalitionIdsGen.v (rewritten only when its text changes).  A translation failure propagates."""
    return write_if_changed(GEN_DIR / "CoalitionIdsGen.v", translate(repo))


if __name__ == "__main__":
    print(translate())

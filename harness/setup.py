"""setup: regenerate translated files, full Coq build from clean, extraction, OCaml driver."""
import importlib
import os
import subprocess
import sys
sys.path.insert(0, os.path.dirname(os.path.abspath(__file__)))
import common  # noqa: E402


def main():
    try:
        tr = importlib.import_module("translate")
        tr.regen_all()
    except ModuleNotFoundError:
        pass
    try:
        log = common.build(timeout=3400, strict=True)
    except common.BuildError as e:
        print(e.log[-4000:])
        print("SETUP FAILED:", e)
        return 1
    print("setup ok")
    return 0


if __name__ == "__main__":
    sys.exit(main())

"""Lock-step runner for the environment state machine (C09, C13, C16): the same operation trace is applied to
the implementation's ICG_Gym and encoded for the model driver; every observable is compared after every call."""
from __future__ import annotations

import math

import numpy as np

import boundslib as bl
from common import close, frac, qtok, tokq, run_driver_parallel

from incomplete_cooperative.coalitions import Coalition, minimal_game_coalitions
from incomplete_cooperative.game import IncompleteCooperativeGame
from incomplete_cooperative.icg_gym import ICG_Gym
from incomplete_cooperative.icg_gym_linear import ICG_Gym_Linear
from incomplete_cooperative.run.model import GAP_FUNCTIONS


def full_game(n, v):
    g = IncompleteCooperativeGame(n)
    g.set_values(np.array([float(x) for x in v]))
    return g


class GameFeed:
    """A game_generator returning predetermined hidden games (cycling)."""

    def __init__(self, n, games):
        self.n, self.games, self.i = n, games, 0

    def __call__(self):
        v = self.games[self.i % len(self.games)]
        self.i += 1
        return full_game(self.n, v)


def make_env(n, comp, gap, budget, init_ids, games):
    feed = GameFeed(n, games)
    g = IncompleteCooperativeGame(n, bl.computer_fn(comp))
    env = ICG_Gym(g, feed, [Coalition(i) for i in init_ids], GAP_FUNCTIONS[gap], done_after_n_actions=budget)
    env.verif_computer = bl.computer_fn(comp)     # harness-owned note: which computer the oracle's fresh game must use
    return env, feed


def observe(env):
    d = {"mask": [bool(x) for x in env.action_masks()],
         "obs": [float(x) for x in env.state],
         "done": bool(env.done),
         "steps": int(env.steps_taken),
         "table": bl.table_of(env.incomplete_game)}
    try:
        d["reward"] = float(env.reward)
    except ValueError:
        d["reward"] = None
    return d


def parse_state(seg: str, n: int):
    """Parse 'ok steps M bits O q.. G q D b T table [I id]' or 'err' / 'dead'."""
    toks = seg.split()
    if toks[0] != "ok":
        return {"status": toks[0]}
    d = {"status": "ok", "steps": int(toks[1])}
    i = toks.index("M")
    j = toks.index("O")
    d["mask"] = [c == "1" for c in (toks[i + 1] if j > i + 1 else "")]
    k = toks.index("G")
    d["obs"] = [tokq(x) for x in toks[j + 1:k]]
    d["gap"] = None if toks[k + 1] == "E" else tokq(toks[k + 1])
    dd = toks.index("D")
    d["done"] = toks[dd + 1] == "1"
    tt = toks.index("T")
    size = 2 ** n
    d["table"] = bl.parse_table_tokens(toks[tt + 1:tt + 1 + 3 * size], size)
    if "I" in toks[tt + 1 + 3 * size:]:
        d["info"] = int(toks[toks.index("I", tt + 1 + 3 * size) + 1])
    return d


def compare_obs(impl, model, gap, exact_tables, tol=1e-9):
    """None if the observables agree, else a description."""
    if model["status"] != "ok":
        return f"model status {model['status']} but implementation succeeded"
    if impl["steps"] != model["steps"]:
        return f"steps {impl['steps']} vs {model['steps']}"
    if impl["mask"] != model["mask"]:
        return f"mask {impl['mask']} vs {model['mask']}"
    if len(impl["obs"]) != len(model["obs"]) or any(frac(a) != b for a, b in zip(impl["obs"], model["obs"])):
        return f"observation {impl['obs']} vs {[float(x) for x in model['obs']]}"
    d = bl.compare_tables(impl["table"], model["table"], exact=exact_tables)
    if d is not None:
        return f"table differs at coalition {d[0]} column {d[1]}: impl={d[2]} model={d[3]}"
    if (impl["reward"] is None) != (model["gap"] is None):
        return f"reward {impl['reward']} vs gap {model['gap']}"
    if impl["reward"] is not None:
        g = float(model["gap"])
        r = -impl["reward"]
        scale = max([1.0] + [abs(x) for row in impl["table"] for x in row[1:]])
        if gap == "l2_norm":
            if not close(r * r, g, tol * 2 ** 6, scale * scale):
                return f"l2 gap^2 {r * r} vs {g}"
        elif not close(r, g, tol * 2 ** 6, scale):
            return f"gap {r} vs {g}"
    widths = [abs(h - l) for _, l, h in impl["table"]]
    mwidths = [abs(float(h - l)) for _, l, h in model["table"]]
    ambiguous = (not exact_tables) and (any(0 < w < 1e-9 for w in widths) or any(0 < w < 1e-9 for w in mwidths))
    if not ambiguous and impl["done"] != model["done"]:
        return f"done {impl['done']} vs {model['done']}"
    return None


def env_line(n, comp, gap, budget, init_ids, ops):
    """ops: list of tuples ('reset', v, nv) | ('step', a) | ('unstep', a) | ('q_...', args) | ('lstep', k, a)."""
    parts = [f"env {n} {bl.model_name(comp)} {gap} {-1 if budget is None else budget} {len(init_ids)} "
             + " ".join(map(str, init_ids)), str(len(ops))]
    for o in ops:
        if o[0] == "reset":
            parts.append("reset " + " ".join(qtok(x) for x in o[1]) + " " + " ".join(qtok(x) for x in o[2]))
        else:
            parts.append(" ".join(str(int(x)) if not isinstance(x, str) else x for x in o))
    return " ".join(parts)


def oracle_env(env, chosen_ids, hidden, n, init_ids, klass_ok=True, tol=1e-7):
    """C09 directly on the implementation: knowledge = initial + chosen with hidden values; mask; obs; reward = -gap of
    freshly recomputed bounds; reward <= 0."""
    fails = []
    g = env.incomplete_game
    known = g.are_values_known()
    want = set(init_ids) | {0, 2 ** n - 1} | set(chosen_ids)
    for i in range(2 ** n):
        if bool(known[i]) != (i in want):
            fails.append((i, "known flag", bool(known[i])))
        elif i in want and (g.get_lower_bound(Coalition(i)) != float(hidden[i]) or g.get_upper_bound(Coalition(i)) != float(hidden[i])):
            fails.append((i, "known value", g.get_lower_bound(Coalition(i)), float(hidden[i])))
    expl = [c.id for c in env.explorable_coalitions]
    if sorted(expl) != [i for i in range(2 ** n) if i not in (set(init_ids) | {0, 2 ** n - 1})]:
        fails.append(("explorable", expl))
    mask = [bool(x) for x in env.action_masks()]
    if mask != [i not in want for i in expl]:
        fails.append(("mask", mask))
    norm = env.normalized_game.get_values()
    # the normalised copy itself, re-derived independently: (v(S) - sum of singletons) / (v(N) - sum of singletons)
    fh = [frac(float(x)) for x in hidden]
    singles = [fh[1 << i] for i in range(n)]
    surplus = fh[2 ** n - 1] - sum(singles)
    scale = max([abs(float(x)) for x in hidden]) or 1.0      # relative to the game's own magnitude (tiny games included)
    if abs(float(surplus)) > 1e-9 * scale:
        for i in range(2 ** n):
            exp = (fh[i] - sum(singles[j] for j in range(n) if (i >> j) & 1)) / surplus
            if abs(float(norm[i]) - float(exp)) > 1e-9 * max(1.0, abs(float(exp))) * max(1.0, scale / abs(float(surplus))):
                fails.append(("normalised hidden value", i, float(norm[i]), float(exp)))
                break
    st = env.state
    for j, i in enumerate(expl):
        exp = float(norm[i]) if i in want else 0.0
        if not (st[j] == exp or (exp == 0.0 and st[j] == 0.0)):
            fails.append(("observation", j, float(st[j]), exp))
    # reward = - gap of freshly recomputed bounds on an independent object
    h = IncompleteCooperativeGame(n, getattr(env, "verif_computer", None) or g._bounds_computer)
    ks = sorted(want)
    h.set_known_values([float(hidden[i]) for i in ks], [Coalition(i) for i in ks])
    h.compute_bounds()
    try:
        r = float(env.reward)
        r2 = -float(env.gap_func(h))
        if not close(r, r2, 1e-9, max(1.0, abs(r2))):
            fails.append(("reward != -gap(fresh bounds)", r, r2))
        if klass_ok and r > tol * max(1.0, max(abs(float(x)) for x in hidden)):
            fails.append(("reward positive", r))
    except ValueError:
        pass
    return fails

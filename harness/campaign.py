"""Case campaigns shared by the bound-computer properties: generate (game, K, stale, computer) cases,
run implementation and model, compare, run oracles on the implementation's own output."""
from __future__ import annotations

import numpy as np

import games
import boundslib as bl
import opslib
from common import run_driver_parallel


def repo_generator_game(rng, n, names):
    """A game from the repository's own generators (float stream)."""
    from incomplete_cooperative.generators import GENERATORS
    name = rng.choice(names)
    seed = rng.randrange(2 ** 31)
    g = GENERATORS[name](n, np.random.default_rng(seed))
    return [float(x) for x in g.get_values()], f"{name}@{seed}"


def magnitude_variant(rng, n, v, src, allow_offset=True):
    """The statements are invariant under positive scaling and (superadditive class) under adding an additive game; code
    that compares with absolute or value-relative tolerances is not.  Returns an exactly representable variant of an exact
    game: multiplied by 2^-40 / 2^-30 / 2^20, or (allow_offset) plus 3,000,000 per member."""
    from fractions import Fraction
    r = rng.random()
    if r < 0.10:
        k = rng.choice([Fraction(1, 2 ** 40), Fraction(1, 2 ** 30), Fraction(2 ** 20)])
        return [k * Fraction(x) for x in v], src + f" x{float(k):g}"
    if r < 0.20 and allow_offset:
        return [Fraction(x) + 3_000_000 * games.popcount(i) for i, x in enumerate(v)], src + " +3e6|S|"
    return v, src


SA_GENS = ["factory", "factory_square", "noisy_factory", "noisy_factory_square", "graph_cycle", "graph_random",
           "factory_cheerleader_next", "xos", "xs", "oxs", "k_budget_generator", "covg_fn_generator"]
SAM_GENS = ["xos", "xos2", "xos12", "xs", "xs3", "oxs", "k_budget_generator", "covg_fn_generator"]


def make_cases(ctx, comps, klass="sa", plan=None):
    """plan: list of (n, n_games, K_mode) with K_mode 'all' or an int (number of sampled K per game)."""
    rng = ctx.rng
    cases = []
    for (n, n_games, kmode) in plan:
        for gi in range(n_games):
            r = rng.random()
            if klass == "sa" and gi == 0 and n >= 3:
                r = 0.64                                  # the first game of every plan entry is a zero-rich one
            if klass == "sa":
                if r < 0.35:
                    v, src, stream = games.sa_closure_game(rng, n, "int"), "closure-int", "exact"
                elif r < 0.55:
                    v, src, stream = games.sa_closure_game(rng, n, "dyadic"), "closure-dyadic", "exact"
                elif r < 0.60:
                    v, src, stream = games.unanimity_game(rng, n), "unanimity", "exact"
                elif r < 0.68:
                    v, src, stream = games.sa_zero_rich_game(rng, n), "zero-rich-int", "exact"
                elif r < 0.8:
                    v, src, stream = games.sa_closure_game(rng, n, "float"), "closure-float", "float"
                else:
                    v, src = repo_generator_game(rng, max(n, 3) if n >= 3 else 3, SA_GENS) if n >= 3 else (games.sa_closure_game(rng, n, "float"), "closure-float")
                    stream = "float"
            elif klass == "arbitrary":
                # any value table (not necessarily superadditive): integers, small-range integers with many ties, dyadics
                if r < 0.4:
                    v = [0] + [rng.randint(-20, 20) for _ in range(2 ** n - 1)]
                    src = "arbitrary-int"
                elif r < 0.7:
                    v = [0] + [rng.randint(0, 2) for _ in range(2 ** n - 1)]
                    src = "arbitrary-small-int"
                else:
                    from fractions import Fraction
                    v = [Fraction(0)] + [Fraction(rng.randint(-64, 64), 8) for _ in range(2 ** n - 1)]
                    src = "arbitrary-dyadic"
                stream = "exact"
            else:
                if r < 0.45:
                    v, src, stream = games.sam_game(rng, n, "int"), "sam-int", "exact"
                elif r < 0.65:
                    v, src, stream = games.sam_game(rng, n, "dyadic"), "sam-dyadic", "exact"
                else:
                    if n >= 3:
                        v, src = repo_generator_game(rng, n, SAM_GENS)
                    else:
                        v, src = [float(x) for x in games.sam_game(rng, n, "dyadic")], "sam-dyadic-f"
                    stream = "float"
            if len(v) != 2 ** n:
                continue
            if stream == "exact" and klass in ("sa", "sam"):
                v, src = magnitude_variant(rng, n, v, src, allow_offset=(klass == "sa"))
            if kmode == "all":
                Ks = list(games.all_knowledge_sets(n))
            else:
                Ks = [games.random_knowledge(rng, n) for _ in range(kmode)]
            for K in Ks:
                for comp in comps:
                    stale = None
                    if rng.random() < 0.5:
                        Kset = set(K)
                        stale = {i: (rng.randint(-50, 50), rng.randint(-50, 50))
                                 for i in range(2 ** n) if i not in Kset and rng.random() < 0.7}
                    cases.append({"comp": comp, "n": n, "v": v, "K": K, "stale": stale, "stream": stream, "src": src})
    return cases


def run_cases(ctx, cases, oracles, tag="direct"):
    """Run impl + model on the cases. oracles: list of (name, fn(case, impl_tab) -> failures).
    Returns list of mismatching cases (with detail)."""
    lines = [bl.model_case_line(c["comp"], c["n"], c["v"], c["K"], c["stale"]) for c in cases]
    outs = run_driver_parallel(lines)
    mismatches = []
    for c, out in zip(cases, outs):
        n = c["n"]
        ctx.evaluations += 1
        ctx.count("n", n)
        ctx.count("computer", c["comp"])
        ctx.count("stream", c["stream"])
        ctx.count("|K|-minimal", len(c["K"]) - n - 2)
        ctx.count("source", c["src"].split("@")[0])
        ctx.count("stale_rows", bool(c["stale"]))
        st_i, tab_i = bl.impl_compute(c["comp"], n, c["v"], c["K"], c["stale"])
        st_m, tab_m = bl.parse_model_table(out, 2 ** n)
        if st_i != st_m:
            mismatches.append((c, f"status impl={st_i}/{tab_i} model={st_m}"))
            continue
        if st_i == "err":
            ctx.count("outcome", "both-raise")
            continue
        nontriv = any((not k) and lo != hi for k, lo, hi in tab_i)
        if nontriv:
            ctx.nontrivial.add((c["comp"], n, tuple(c["K"]), tuple(map(float, c["v"]))))
        ctx.count("outcome", "nondegenerate-interval" if nontriv else "all-degenerate")
        d = bl.compare_tables(tab_i, tab_m, exact=(c["stream"] == "exact"))
        if d is not None:
            mismatches.append((c, f"table differs at coalition {d[0]} column {d[1]}: impl={d[2]} model={d[3]}"))
        for name, fn in oracles:
            fails = fn(c, tab_i)
            if fails:
                ctx.violation(f"{name} fails on the implementation: {fails[:3]}",
                              {"kind": tag, "case": case_json(c), "oracle": name, "failures": str(fails[:5]),
                               "impl_table": tab_i})
        ctx.sample({"computer": c["comp"], "n": n, "K": c["K"], "v": [float(x) for x in c["v"]][:16],
                    "lower": [r[1] for r in tab_i][:16], "upper": [r[2] for r in tab_i][:16]}, limit=3)
    return mismatches


def case_json(c):
    return {"comp": c["comp"], "n": c["n"], "v": [str(x) for x in c["v"]], "v_float": [float(x) for x in c["v"]],
            "K": c["K"], "stale": c["stale"], "stream": c["stream"], "src": c["src"]}


def report_mismatches(ctx, mismatches, oracles, relation):
    """A broken correspondence: search for an input on which the property itself fails (oracles already ran
    on every case; here we look at neighbours of the disagreeing cases), else report no-failing-input-found."""
    if not mismatches:
        return
    already = any(v["found_input"] for v in ctx.violations)
    if already:
        return
    # neighbours: same game, all knowledge sets (n <= 4) / 50 random ones
    for c, detail in mismatches[:5]:
        n = c["n"]
        Ks = list(games.all_knowledge_sets(n)) if n <= 4 else [games.random_knowledge(ctx.rng, n) for _ in range(50)]
        for K in Ks:
            c2 = dict(c, K=K, stale=None)
            st, tab = bl.impl_compute(c2["comp"], n, c2["v"], K, None)
            if st != "ok":
                continue
            for name, fn in oracles:
                fails = fn(c2, tab)
                if fails:
                    ctx.violation(f"{name} fails on the implementation (found while searching around a model/implementation disagreement): {fails[:3]}",
                                  {"kind": "search", "case": case_json(c2), "oracle": name, "failures": str(fails[:5])})
                    return
    c, detail = mismatches[0]
    ctx.violation(f"correspondence '{relation}' no longer holds: {detail} ({len(mismatches)} disagreeing cases)",
                  {"relation": relation, "first_disagreement": case_json(c), "detail": detail,
                   "disagreeing_cases": len(mismatches)}, found_input=False)


# ---------------------------------------------------------------- histories
def random_history(rng, n, v, comp, length, alt=None):
    """A history of reveal / un-reveal / set / unset / bulk set / bulk reset / compute that keeps the minimal
    information known whenever it computes. Ops carry the true values of v; with `alt` (a second value table, C08 only)
    a coalition may also come back with a different value. Besides independent random ops the generator inserts the
    motifs that return to an earlier knowledge set or change knowledge without changing the known *set* between two
    computes (reveal+un-reveal, un-reveal+re-reveal, overwrite, bulk set), which is where caches keyed on part of the
    knowledge go stale. Returns (ops, sorted known ids, dict id -> current known value)."""
    ops = []
    cur = {0: v[0]}
    minimal = games.minimal_ids(n)
    opt = games.optional_ids(n)

    def val(i):
        return alt[i] if (alt is not None and rng.random() < 0.5) else v[i]

    def reset(extra):
        K = sorted(set(minimal) | set(extra))
        ops.append(("known_some", K, [v[i] for i in K]))
        cur.clear()
        cur.update({i: v[i] for i in K})

    def reveal(i):
        x = val(i)
        ops.append(("reveal", i, x))
        cur[i] = x

    def unreveal(i):
        ops.append(("unreveal", i))
        cur.pop(i, None)

    def compute():
        ops.append(("compute", comp))

    reset(rng.sample(opt, rng.randint(0, len(opt))) if opt else [])
    steps = 0
    while steps < length:
        steps += 1
        r = rng.random()
        unknown = [i for i in opt if i not in cur]
        revealed = [i for i in opt if i in cur]
        if r < 0.25 and unknown:
            reveal(rng.choice(unknown))
        elif r < 0.42 and revealed:
            unreveal(rng.choice(revealed))
        elif r < 0.50:
            reset(rng.sample(opt, rng.randint(0, len(opt))) if opt else [])
        elif r < 0.56 and opt:
            i = rng.choice(opt)                     # set_value on a known or unknown coalition
            x = val(i)
            ops.append(("set", i, x))
            cur[i] = x
        elif r < 0.60 and revealed:
            i = rng.choice(revealed)
            ops.append(("unset", i))
            cur.pop(i, None)
        elif r < 0.66 and opt:
            ids = sorted(rng.sample(opt, rng.randint(1, min(4, len(opt)))))   # bulk set_values on some coalitions
            xs = [val(i) for i in ids]
            ops.append(("values_some", ids, xs))
            cur.update(dict(zip(ids, xs)))
        elif r < 0.72 and unknown:
            i = rng.choice(unknown)                 # motif: compute, reveal, un-reveal, compute
            compute(); reveal(i)
            if rng.random() < 0.5:
                compute()
            unreveal(i); compute()
            steps += 3
        elif r < 0.78 and revealed:
            i = rng.choice(revealed)                # motif: compute, un-reveal, re-reveal, compute
            compute(); unreveal(i)
            if rng.random() < 0.3:
                compute()
            reveal(i); compute()
            steps += 3
        elif r < 0.82 and opt:
            ids = sorted(rng.sample(opt, rng.randint(1, min(3, len(opt)))))   # motif: compute, bulk set, compute
            xs = [val(i) for i in ids]
            compute(); ops.append(("values_some", ids, xs)); cur.update(dict(zip(ids, xs))); compute()
            steps += 2
        else:
            compute()
    compute()
    return ops, sorted(cur), dict(cur)


def run_histories(ctx, comps, klass, plan, oracles, alt=False, fresh_check=False):
    """plan: list of (n, count, length). The oracles are evaluated on the implementation's table after EVERY compute
    of the history (with the knowledge at that moment), not only at the end. alt: coalitions may come back with values
    of a second game (C08: the table is a function of the known values, not only of the known set). fresh_check: after
    every compute the table must equal what a fresh object with the same known values computes (C08's statement)."""
    rng = ctx.rng
    hs = []
    for (n, count, length) in plan:
        for _ in range(count):
            def draw():
                if klass == "sa":
                    g0 = games.sa_zero_rich_game(rng, n) if rng.random() < 0.15 else games.sa_closure_game(rng, n, rng.choice(["int", "dyadic"]))
                else:
                    g0 = games.sam_game(rng, n, rng.choice(["int", "dyadic"]))
                if alt:
                    return g0      # values of two games get mixed: differently scaled variants would make sums inexact in binary
                return magnitude_variant(rng, n, g0, "", allow_offset=(klass == "sa"))[0]
            v = draw()
            v2 = draw() if alt else None
            # beyond 8 players the point is the memoised structure: prefer the computers that use it
            comp = rng.choice([c for c in comps if c != "superadditive"] or comps) if n >= 9 else rng.choice(comps)
            ops, K, cur = random_history(rng, n, v, comp, rng.randint(1, length), v2)
            hs.append((n, v, comp, ops, K))
    outs = run_driver_parallel([opslib.ops_line(n, ops) for (n, v, comp, ops, K) in hs])
    mismatches = []
    for (n, v, comp, ops, K), out in zip(hs, outs):
        ctx.evaluations += 1
        ctx.count("history_length", len(ops))
        for o in ops:
            ctx.count("op", o[0])
        impl_res, g = opslib.run_impl_history(n, ops, comp)
        model_res = opslib.parse_ops_output(out, n)
        d = opslib.compare_history(impl_res, model_res, exact=True)
        c = {"comp": comp, "n": n, "v": v, "K": K, "stale": None, "stream": "exact", "src": "history"}
        if d is not None:
            mismatches.append((dict(c, ops=ops), f"history step {d[0]}: {d[1]}"))
        final = impl_res[-1][1]
        if any((not k) and lo != hi for k, lo, hi in final):
            ctx.nontrivial.add(("hist", comp, n, tuple(K), tuple(map(float, v))))
        reported = False
        for step, (o, (st, tab)) in enumerate(zip(ops, impl_res)):
            if o[0] != "compute" or st != "ok" or reported:
                continue
            Know = [i for i, (k, lo, hi) in enumerate(tab) if k]
            cs = dict(c, K=Know)
            for name, fn in oracles:
                fails = fn(cs, tab)
                if fails:
                    ctx.violation(f"{name} fails on the implementation after step {step} of a history: {fails[:3]}",
                                  {"kind": "history", "case": case_json(cs), "ops": [list(map(str, x)) for x in ops[:step + 1]],
                                   "failures": str(fails[:5])})
                    reported = True
            if fresh_check and not reported:
                vals = [tab[i][1] if tab[i][0] else 0 for i in range(2 ** n)]
                st2, fresh = bl.impl_compute(comp, n, vals, Know, None)
                ctx.count("fresh_checks", comp)
                diff = [(i, tab[i], fresh[i]) for i in range(2 ** n) if tuple(tab[i]) != tuple(fresh[i])] if st2 == "ok" else []
                if diff:
                    ctx.violation(f"after step {step} of a history the table differs from what a fresh game with the same known "
                                  f"values computes ({comp}): coalition {diff[0][0]} has {diff[0][1]}, fresh {diff[0][2]}",
                                  {"kind": "history-fresh", "comp": comp, "n": n, "ops": [list(map(str, x)) for x in ops[:step + 1]],
                                   "known_values": {i: str(vals[i]) for i in Know}, "table": str(tab), "fresh_table": str(fresh)})
                    reported = True
        ctx.sample({"history": [list(map(str, o))[:4] for o in ops][:8], "n": n, "computer": comp}, limit=5)
    return mismatches

"""Case campaigns shared by the bound-computer properties: generate (game, K, stale, computer) cases,
run implementation and model, compare, run oracles on the implementation's own output."""
from __future__ import annotations

import numpy as np

import games
import boundslib as bl
import opslib
from common import run_driver_parallel


def repo_generator_game(rng, n, names):
    """A game from the repository's own generators (float stream)."""
    from incomplete_cooperative.generators import GENERATORS
    name = rng.choice(names)
    seed = rng.randrange(2 ** 31)
    g = GENERATORS[name](n, np.random.default_rng(seed))
    return [float(x) for x in g.get_values()], f"{name}@{seed}"


SA_GENS = ["factory", "factory_square", "noisy_factory", "noisy_factory_square", "graph_cycle", "graph_random",
           "factory_cheerleader_next", "xos", "xs", "oxs", "k_budget_generator", "covg_fn_generator"]
SAM_GENS = ["xos", "xos2", "xos12", "xs", "xs3", "oxs", "k_budget_generator", "covg_fn_generator"]


def make_cases(ctx, comps, klass="sa", plan=None):
    """plan: list of (n, n_games, K_mode) with K_mode 'all' or an int (number of sampled K per game)."""
    rng = ctx.rng
    cases = []
    for (n, n_games, kmode) in plan:
        for gi in range(n_games):
            r = rng.random()
            if klass == "sa":
                if r < 0.35:
                    v, src, stream = games.sa_closure_game(rng, n, "int"), "closure-int", "exact"
                elif r < 0.55:
                    v, src, stream = games.sa_closure_game(rng, n, "dyadic"), "closure-dyadic", "exact"
                elif r < 0.65:
                    v, src, stream = games.unanimity_game(rng, n), "unanimity", "exact"
                elif r < 0.8:
                    v, src, stream = games.sa_closure_game(rng, n, "float"), "closure-float", "float"
                else:
                    v, src = repo_generator_game(rng, max(n, 3) if n >= 3 else 3, SA_GENS) if n >= 3 else (games.sa_closure_game(rng, n, "float"), "closure-float")
                    stream = "float"
            else:
                if r < 0.45:
                    v, src, stream = games.sam_game(rng, n, "int"), "sam-int", "exact"
                elif r < 0.65:
                    v, src, stream = games.sam_game(rng, n, "dyadic"), "sam-dyadic", "exact"
                else:
                    if n >= 3:
                        v, src = repo_generator_game(rng, n, SAM_GENS)
                    else:
                        v, src = [float(x) for x in games.sam_game(rng, n, "dyadic")], "sam-dyadic-f"
                    stream = "float"
            if len(v) != 2 ** n:
                continue
            if kmode == "all":
                Ks = list(games.all_knowledge_sets(n))
            else:
                Ks = [games.random_knowledge(rng, n) for _ in range(kmode)]
            for K in Ks:
                for comp in comps:
                    stale = None
                    if rng.random() < 0.5:
                        Kset = set(K)
                        stale = {i: (rng.randint(-50, 50), rng.randint(-50, 50))
                                 for i in range(2 ** n) if i not in Kset and rng.random() < 0.7}
                    cases.append({"comp": comp, "n": n, "v": v, "K": K, "stale": stale, "stream": stream, "src": src})
    return cases


def run_cases(ctx, cases, oracles, tag="direct"):
    """Run impl + model on the cases. oracles: list of (name, fn(case, impl_tab) -> failures).
    Returns list of mismatching cases (with detail)."""
    lines = [bl.model_case_line(c["comp"], c["n"], c["v"], c["K"], c["stale"]) for c in cases]
    outs = run_driver_parallel(lines)
    mismatches = []
    for c, out in zip(cases, outs):
        n = c["n"]
        ctx.evaluations += 1
        ctx.count("n", n)
        ctx.count("computer", c["comp"])
        ctx.count("stream", c["stream"])
        ctx.count("|K|-minimal", len(c["K"]) - n - 2)
        ctx.count("source", c["src"].split("@")[0])
        ctx.count("stale_rows", bool(c["stale"]))
        st_i, tab_i = bl.impl_compute(c["comp"], n, c["v"], c["K"], c["stale"])
        st_m, tab_m = bl.parse_model_table(out, 2 ** n)
        if st_i != st_m:
            mismatches.append((c, f"status impl={st_i}/{tab_i} model={st_m}"))
            continue
        if st_i == "err":
            ctx.count("outcome", "both-raise")
            continue
        nontriv = any((not k) and lo != hi for k, lo, hi in tab_i)
        if nontriv:
            ctx.nontrivial.add((c["comp"], n, tuple(c["K"]), tuple(map(float, c["v"]))))
        ctx.count("outcome", "nondegenerate-interval" if nontriv else "all-degenerate")
        d = bl.compare_tables(tab_i, tab_m, exact=(c["stream"] == "exact"))
        if d is not None:
            mismatches.append((c, f"table differs at coalition {d[0]} column {d[1]}: impl={d[2]} model={d[3]}"))
        for name, fn in oracles:
            fails = fn(c, tab_i)
            if fails:
                ctx.violation(f"{name} fails on the implementation: {fails[:3]}",
                              {"kind": tag, "case": case_json(c), "oracle": name, "failures": str(fails[:5]),
                               "impl_table": tab_i})
        ctx.sample({"computer": c["comp"], "n": n, "K": c["K"], "v": [float(x) for x in c["v"]][:16],
                    "lower": [r[1] for r in tab_i][:16], "upper": [r[2] for r in tab_i][:16]}, limit=3)
    return mismatches


def case_json(c):
    return {"comp": c["comp"], "n": c["n"], "v": [str(x) for x in c["v"]], "v_float": [float(x) for x in c["v"]],
            "K": c["K"], "stale": c["stale"], "stream": c["stream"], "src": c["src"]}


def report_mismatches(ctx, mismatches, oracles, relation):
    """A broken correspondence: search for an input on which the property itself fails (oracles already ran
    on every case; here we look at neighbours of the disagreeing cases), else report no-failing-input-found."""
    if not mismatches:
        return
    already = any(v["found_input"] for v in ctx.violations)
    if already:
        return
    # neighbours: same game, all knowledge sets (n <= 4) / 50 random ones
    for c, detail in mismatches[:5]:
        n = c["n"]
        Ks = list(games.all_knowledge_sets(n)) if n <= 4 else [games.random_knowledge(ctx.rng, n) for _ in range(50)]
        for K in Ks:
            c2 = dict(c, K=K, stale=None)
            st, tab = bl.impl_compute(c2["comp"], n, c2["v"], K, None)
            if st != "ok":
                continue
            for name, fn in oracles:
                fails = fn(c2, tab)
                if fails:
                    ctx.violation(f"{name} fails on the implementation (found while searching around a model/implementation disagreement): {fails[:3]}",
                                  {"kind": "search", "case": case_json(c2), "oracle": name, "failures": str(fails[:5])})
                    return
    c, detail = mismatches[0]
    ctx.violation(f"correspondence '{relation}' no longer holds: {detail} ({len(mismatches)} disagreeing cases)",
                  {"relation": relation, "first_disagreement": case_json(c), "detail": detail,
                   "disagreeing_cases": len(mismatches)}, found_input=False)


# ---------------------------------------------------------------- histories
def random_history(rng, n, v, comp, length):
    """A history of reveal / un-reveal / bulk reset / compute that keeps the minimal information known
    whenever it computes; ops carry true values of v."""
    ops = []
    known = {0}
    minimal = games.minimal_ids(n)
    opt = games.optional_ids(n)

    def reset(extra):
        K = sorted(set(minimal) | set(extra))
        ops.append(("known_some", K, [v[i] for i in K]))
        known.clear()
        known.update(K)
    reset(rng.sample(opt, rng.randint(0, len(opt))) if opt else [])
    for _ in range(length):
        r = rng.random()
        unknown = [i for i in opt if i not in known]
        revealed = [i for i in opt if i in known]
        if r < 0.35 and unknown:
            i = rng.choice(unknown)
            ops.append(("reveal", i, v[i]))
            known.add(i)
        elif r < 0.6 and revealed:
            i = rng.choice(revealed)
            ops.append(("unreveal", i))
            known.discard(i)
        elif r < 0.7:
            reset(rng.sample(opt, rng.randint(0, len(opt))) if opt else [])
        else:
            ops.append(("compute", comp))
    ops.append(("compute", comp))
    return ops, sorted(known)


def run_histories(ctx, comps, klass, plan, oracles):
    """plan: list of (n, count, length)."""
    rng = ctx.rng
    hs = []
    for (n, count, length) in plan:
        for _ in range(count):
            if klass == "sa":
                kind = rng.choice(["int", "dyadic"])
                v = games.sa_closure_game(rng, n, kind)
            else:
                v = games.sam_game(rng, n, rng.choice(["int", "dyadic"]))
            comp = rng.choice(comps)
            ops, K = random_history(rng, n, v, comp, rng.randint(1, length))
            hs.append((n, v, comp, ops, K))
    outs = run_driver_parallel([opslib.ops_line(n, ops) for (n, v, comp, ops, K) in hs])
    mismatches = []
    for (n, v, comp, ops, K), out in zip(hs, outs):
        ctx.evaluations += 1
        ctx.count("history_length", len(ops))
        for o in ops:
            ctx.count("op", o[0])
        impl_res, g = opslib.run_impl_history(n, ops)
        model_res = opslib.parse_ops_output(out, n)
        d = opslib.compare_history(impl_res, model_res, exact=True)
        c = {"comp": comp, "n": n, "v": v, "K": K, "stale": None, "stream": "exact", "src": "history"}
        if d is not None:
            mismatches.append((dict(c, ops=ops), f"history step {d[0]}: {d[1]}"))
        final = impl_res[-1][1]
        if any((not k) and lo != hi for k, lo, hi in final):
            ctx.nontrivial.add(("hist", comp, n, tuple(K), tuple(map(float, v))))
        for name, fn in oracles:
            fails = fn(c, final)
            if fails:
                ctx.violation(f"{name} fails on the implementation after a history: {fails[:3]}",
                              {"kind": "history", "case": case_json(c), "ops": [list(map(str, o)) for o in ops],
                               "failures": str(fails[:5])})
        ctx.sample({"history": [list(map(str, o))[:4] for o in ops][:8], "n": n, "computer": comp}, limit=5)
    return mismatches

"""Registry dumper (translator step shared by C04 / C08 / C10 / C13).

Imports the four registries of the repository under test on every run

    incomplete_cooperative.generators.GENERATORS      incomplete_cooperative.bounds.BOUNDS
    incomplete_cooperative.run.model.GAP_FUNCTIONS     incomplete_cooperative.solvers.SOLVERS

and writes coq/theories/gen/Registry.v: for every key the underlying function and its *static* keyword
arguments (functools.partial unwrapped, signature defaults filled in) as one constructor application of the
types in coq/theories/RegistryTypes.v, e.g.

    "factory_square"      |-> GFactory VSq false None        "xos12_norm_additive" |-> GXos 12 true true
    "sam_apx_10"          |-> BSam 10                         "greedy_worst"        |-> SGreedy true

Fail-closed: an unknown function, an unknown / unmodelled keyword, a positional argument where none is
expected, a value of an unexpected type  ==>  the constructor `GUnknown "..."` (`BUnknown`, `GapUnknown`,
`SUnknown`), on which the theorems of gen/RegistryProps.v (`registry_generators_classified`, ...) no longer
prove.  Nothing is guessed.

`regen_registry()` is the entry point for property modules (call it from `regen(ctx)`); it returns the
descriptors it wrote, `descriptors()` returns them without touching the file system.
"""
from __future__ import annotations

import functools
import inspect
import math
from fractions import Fraction
from pathlib import Path

import common

GEN_DIR = common.COQ / "theories" / "gen"
REGISTRY_V = GEN_DIR / "Registry.v"


class Unknown(Exception):
    """The dumper does not recognise something: the entry becomes an ...Unknown constructor."""


# ------------------------------------------------------------------ Coq literals
def coq_string(s: str) -> str:
    if any(ord(c) < 32 or ord(c) > 126 for c in s):
        raise Unknown(f"non-printable key {s!r}")
    return '"' + s.replace('"', '""') + '"'


def coq_bool(b) -> str:
    if b is True:
        return "true"
    if b is False:
        return "false"
    raise Unknown(f"not a bool: {b!r}")


def coq_nat(k) -> str:
    if isinstance(k, bool) or not isinstance(k, int) or k < 0 or k > 100000:
        raise Unknown(f"not a small natural: {k!r}")
    return str(k)


def coq_opt_nat(k) -> str:
    return "None" if k is None else f"(Some {coq_nat(k)})"


def number_fraction(x) -> Fraction:
    """The decimal the source wrote (0.1 -> 1/10): shortest repr, which round-trips to the same double."""
    if isinstance(x, bool) or not isinstance(x, (int, float)):
        raise Unknown(f"not a number: {x!r}")
    if isinstance(x, float) and not math.isfinite(x):
        raise Unknown(f"not finite: {x!r}")
    return Fraction(repr(x))


def coq_q(x) -> str:
    f = number_fraction(x)
    num = f"({f.numerator})" if f.numerator < 0 else str(f.numerator)
    return f"({num} # {f.denominator})%Q"


# ------------------------------------------------------------------ partial unwrapping
def unwrap(fn):
    """-> (base callable, positional args, keywords); nested partials flattened like functools does."""
    args: tuple = ()
    kw: dict = {}
    chain = []
    while isinstance(fn, functools.partial):
        chain.append(fn)
        fn = fn.func
    for p in reversed(chain):        # innermost first; outer keywords override
        args = args + tuple(p.args)
        kw.update(p.keywords)
    return fn, args, kw


def _is_module_fn(fn, module, name) -> bool:
    return getattr(module, name, None) is fn


def _defaults(fn) -> dict:
    out = {}
    for name, p in inspect.signature(fn).parameters.items():
        if p.default is not inspect.Parameter.empty:
            out[name] = p.default
    return out


def _static(fn, kw, allowed):
    """Signature defaults overridden by the partial's keywords; a keyword outside `allowed` is not modelled."""
    extra = set(kw) - set(allowed)
    if extra:
        raise Unknown(f"unmodelled keyword(s) {sorted(extra)}")
    d = _defaults(fn)
    vals = {}
    for a in allowed:
        if a in kw:
            vals[a] = kw[a]
        elif a in d:
            vals[a] = d[a]
        else:
            raise Unknown(f"parameter {a} has no default")
    return vals


# ------------------------------------------------------------------ generators
def _probe(f, ref) -> bool:
    try:
        return all(float(f(x)) == float(ref(x)) for x in (0, 1, 2, 3, 7, 0.5, 2.25))
    except Exception:
        return False


def _value_fn(G, f):
    if f is math.exp:
        return "VExp", "exp"
    if not inspect.isfunction(f):
        raise Unknown(f"value_fn {f!r}")
    if _is_module_fn(f, G, "_fac_sq_fn") and _probe(f, lambda x: x ** 2):
        return "VSq", "sq"
    if _is_module_fn(f, G, "_fac_one_fn") and _probe(f, lambda x: 1):
        return "VOne", "one"
    if f is _defaults(G.factory_generator).get("value_fn") and f.__name__ == "<lambda>" and _probe(f, lambda x: x):
        return "VId", "id"
    raise Unknown(f"value_fn {getattr(f, '__name__', f)!r}")


def _dist_fn(G, f):
    if f is _defaults(G.graph_generator).get("dist_fn") and inspect.isfunction(f) and f.__name__ == "<lambda>" \
            and set(f.__code__.co_names) == {"_gen", "random"}:
        return "DRandom", {"dist": "random", "params": []}
    base, args, kw = unwrap(f)
    if kw or getattr(base, "__self__", None) is not G._gen:
        raise Unknown("dist_fn is not a method of generators._gen with positional parameters only")
    name = getattr(base, "__name__", "?")
    arity = {"triangular": ("DTriangular", 3), "beta": ("DBeta", 2), "poisson": ("DPoisson", 1)}
    if name not in arity or len(args) != arity[name][1]:
        raise Unknown(f"dist_fn _gen.{name}{args}")
    return (f"({arity[name][0]} " + " ".join(coq_q(a) for a in args) + ")",
            {"dist": name, "params": [str(number_fraction(a)) for a in args]})


def _graph_gen(f):
    import networkx as nx
    base, args, kw = unwrap(f)
    if args:
        raise Unknown("graph_gen with positional arguments")
    table = {
        "gnp_random_graph": ("NxGnp", [("p", coq_q)]),
        "connected_watts_strogatz_graph": ("NxWattsStrogatz", [("k", coq_nat), ("p", coq_q)]),
        "random_internet_as_graph": ("NxInternet", []),
        "random_geometric_graph": ("NxGeometric", [("radius", coq_q)]),
        "geographical_threshold_graph": ("NxGeoThreshold", [("theta", coq_q)]),
    }
    name = getattr(base, "__name__", "?")
    if name not in table or getattr(nx, name, None) is not base:
        raise Unknown(f"graph_gen {name}")
    ctor, params = table[name]
    if set(kw) != {p for p, _ in params}:
        raise Unknown(f"graph_gen {name} keywords {sorted(kw)}")
    term = ctor + "".join(" " + conv(kw[p]) for p, conv in params)
    return (f"({term})" if params else term), {"nx": name, "params": {p: kw[p] for p, _ in params}}


def describe_generator(key, fn):
    """-> (Coq term, descriptor dict used by the C10 harness)."""
    import incomplete_cooperative.generators as G
    try:
        base, args, kw = unwrap(fn)
        if args:
            raise Unknown("positional arguments in a registry partial")
        name = getattr(base, "__name__", None)
        if not inspect.isfunction(base) or not _is_module_fn(base, G, name):
            raise Unknown(f"function {name!r} is not a function of incomplete_cooperative.generators")
        if name == "factory_generator":
            v = _static(base, kw, ["owner", "value_fn", "random_weights"])
            vt, vn = _value_fn(G, v["value_fn"])
            return (f"GFactory {vt} {coq_bool(v['random_weights'])} {coq_opt_nat(v['owner'])}",
                    {"family": "factory", "value_fn": vn, "random_weights": v["random_weights"], "owner": v["owner"]})
        if name == "predictible_factory_generator":
            _static(base, kw, [])
            inner = _defaults(G.factory_generator)
            vt, vn = _value_fn(G, inner["value_fn"])
            if vn != "id" or inner["random_weights"] is not False:
                raise Unknown("predictible_factory: factory_generator defaults changed")
            return "GPredictibleFactory", {"family": "predictible_factory"}
        if name == "factory_cheerleader_generator":
            v = _static(base, kw, ["owner", "cheerleader"])
            return (f"GCheerleader {coq_opt_nat(v['owner'])} {coq_opt_nat(v['cheerleader'])}",
                    {"family": "cheerleader", "owner": v["owner"], "cheerleader": v["cheerleader"]})
        if name == "factory_cheerleader_next_generator":
            _static(base, kw, [])
            return "GCheerleaderNext", {"family": "cheerleader_next"}
        if name == "graph_generator":
            v = _static(base, kw, ["dist_fn"])
            t, d = _dist_fn(G, v["dist_fn"])
            return f"GGraphDist {t}", dict(d, family="graph_dist")
        if name == "graph_gen_to_game":
            v = _static(base, kw, ["graph_gen"])
            t, d = _graph_gen(v["graph_gen"])
            return f"GGraphNx {t}", dict(d, family="graph_nx")
        if name == "cycle":
            _static(base, kw, [])
            return "GCycle", {"family": "cycle"}
        if name in ("xos", "xos_norandom"):
            target = G.xos
            if name == "xos_norandom":
                extra = set(_defaults(base)) - {"generator"}
                if extra:
                    raise Unknown(f"xos_norandom has own defaults {sorted(extra)}")
            v = _static(target, kw, ["number_of_additive", "normalize", "normalize_additive"])
            if _defaults(target).get("additive_gen") is not G.additive or \
                    _defaults(G.additive).get("weights_dist_fn") is not __import__("numpy").random.Generator.random:
                raise Unknown("xos: additive_gen / weights_dist_fn defaults changed")
            ctor = "GXos" if name == "xos" else "GXosNoRandom"
            return (f"{ctor} {coq_nat(v['number_of_additive'])} {coq_bool(v['normalize'])} {coq_bool(v['normalize_additive'])}",
                    {"family": "xos", "norandom": name == "xos_norandom", "number_of_additive": v["number_of_additive"],
                     "normalize": v["normalize"], "normalize_additive": v["normalize_additive"]})
        if name == "xs":
            v = _static(base, kw, ["num_unit_demand"])
            return f"GXs {coq_nat(v['num_unit_demand'])}", {"family": "xs", "num_unit_demand": v["num_unit_demand"]}
        if name == "oxs":
            v = _static(base, kw, ["number_of_xs", "normalize"])
            xs_unit = _defaults(G.xs).get("num_unit_demand")
            if xs_unit != 0:
                raise Unknown("oxs: xs default num_unit_demand changed")
            return (f"GOxs {coq_nat(v['number_of_xs'])} {coq_bool(v['normalize'])}",
                    {"family": "oxs", "number_of_xs": v["number_of_xs"], "normalize": v["normalize"]})
        if name == "k_budget_generator":
            _static(base, kw, [])
            return "GKBudget", {"family": "kbudget"}
        if name == "covg_fn_generator":
            v = _static(base, kw, ["universum_mult", "normalize"])
            coq_bool(v["normalize"])   # unused by the code; only its type is checked
            return f"GCoverage {coq_nat(v['universum_mult'])}", {"family": "coverage", "universum_mult": v["universum_mult"]}
        if name == "convex_generator":
            _static(base, kw, [])
            return f"GExternal {coq_string('pyfmtools')}", {"family": "external", "dependency": "pyfmtools"}
        raise Unknown(f"unmodelled generator function {name}")
    except Unknown as e:
        why = f"{key}: {e}"
        return f"GUnknown {coq_string_safe(why)}", {"family": "unknown", "why": why}
    except Exception as e:  # anything unexpected is unknown, never a guess
        why = f"{key}: {type(e).__name__}: {e}"
        return f"GUnknown {coq_string_safe(why)}", {"family": "unknown", "why": why}


def coq_string_safe(s: str) -> str:
    return '"' + "".join(c if 32 <= ord(c) <= 126 and c != '"' else "?" for c in s)[:200] + '"'


# ------------------------------------------------------------------ bounds / gaps / solvers
def describe_bounds(key, fn):
    import incomplete_cooperative.bounds as B
    try:
        base, args, kw = unwrap(fn)
        if args:
            raise Unknown("positional arguments")
        if base is getattr(B, "compute_bounds_superadditive", None) and not kw:
            return "BSuperadditive", {"computer": "superadditive"}
        if base is getattr(B, "compute_bounds_superadditive_cached", None) and not kw:
            return "BSuperadditiveCached", {"computer": "superadditive_cached"}
        if base is getattr(B, "compute_bounds_superadditive_monotone_approx_cached", None) and set(kw) == {"repetitions"}:
            return f"BSam {coq_nat(kw['repetitions'])}", {"computer": "sam_apx", "repetitions": kw["repetitions"]}
        raise Unknown(f"{getattr(base, '__name__', base)!r} {sorted(kw)}")
    except Exception as e:
        why = f"{key}: {e}"
        return f"BUnknown {coq_string_safe(why)}", {"computer": "unknown", "why": why}


def describe_gap(key, fn):
    import numpy as np
    import incomplete_cooperative.exploitability as E
    import incomplete_cooperative.norms as NM
    try:
        base, args, kw = unwrap(fn)
        if args:
            raise Unknown("positional arguments")
        if base is getattr(E, "compute_exploitability", None) and not kw:
            return "GapExploitability", {"gap": "exploitability"}
        if base is getattr(NM, "lp_norm", None) and set(kw) == {"ord"}:
            o = kw["ord"]
            if o == 1 and not isinstance(o, bool):
                return "GapL1", {"gap": "l1"}
            if o == 2:
                return "GapL2", {"gap": "l2"}
            if isinstance(o, float) and o == np.inf:
                return "GapLinf", {"gap": "linf"}
        raise Unknown(f"{getattr(base, '__name__', base)!r} {kw}")
    except Exception as e:
        why = f"{key}: {e}"
        return f"GapUnknown {coq_string_safe(why)}", {"gap": "unknown", "why": why}


def describe_solver(key, fn):
    import incomplete_cooperative.solvers as S
    try:
        base, args, kw = unwrap(fn)
        if args:
            raise Unknown("positional arguments")
        if base is getattr(S, "GreedySolver", None) and set(kw) <= {"worst"}:
            worst = kw.get("worst", _defaults(base.__init__).get("worst"))
            return f"SGreedy {coq_bool(worst)}", {"solver": "greedy", "worst": worst}
        if base is getattr(S, "RandomSolver", None) and not kw:
            return "SRandom", {"solver": "random"}
        if base is getattr(S, "LargestSolver", None) and not kw:
            return "SLargest", {"solver": "largest"}
        raise Unknown(f"{getattr(base, '__name__', base)!r} {sorted(kw)}")
    except Exception as e:
        why = f"{key}: {e}"
        return f"SUnknown {coq_string_safe(why)}", {"solver": "unknown", "why": why}


# ------------------------------------------------------------------ file
def descriptors() -> dict:
    """{"generators": {key: (term, desc)}, "bounds": ..., "gaps": ..., "solvers": ...} in registry order."""
    from incomplete_cooperative.generators import GENERATORS
    from incomplete_cooperative.bounds import BOUNDS
    from incomplete_cooperative.run.model import GAP_FUNCTIONS
    from incomplete_cooperative.solvers import SOLVERS
    out = {}
    for reg_name, reg, fn in (("generators", GENERATORS, describe_generator), ("bounds", BOUNDS, describe_bounds),
                              ("gaps", GAP_FUNCTIONS, describe_gap), ("solvers", SOLVERS, describe_solver)):
        d = {}
        for key, val in reg.items():
            if not isinstance(key, str):
                raise RuntimeError(f"{reg_name}: non-string key {key!r}")
            d[key] = fn(key, val)
        out[reg_name] = d
    return out


def render(desc: dict) -> str:
    def block(name, typ, entries):
        lines = [f"Definition {name} : list (string * {typ}) := ["]
        items = [f"  ({coq_string(k)}, {term})" for k, (term, _) in entries.items()]
        lines.append(";\n".join(items))
        lines.append("].")
        return "\n".join(lines)
    parts = [
        "(* GENERATED on every run by harness/registry_dump.py from the registries of the repository under test.",
        "   Do not edit; not under version control.  Vocabulary: theories/RegistryTypes.v. *)",
        "From Coq Require Import QArith String List.",
        "From ICG Require Import RegistryTypes.",
        "Import ListNotations.",
        "Local Close Scope Q_scope.   (* numerals are nat; rationals are written (a # b)%Q *)",
        "Local Open Scope string_scope.",
        "",
        block("generators_registry", "rg_generator", desc["generators"]), "",
        block("bounds_registry", "rg_bounds", desc["bounds"]), "",
        block("gap_registry", "rg_gap", desc["gaps"]), "",
        block("solvers_registry", "rg_solver", desc["solvers"]), "",
    ]
    return "\n".join(parts)


def regen_registry() -> dict:
    """Dump the registries of the repository under test into coq/theories/gen/Registry.v (rewritten only when the
    text changes, so an unchanged repository does not trigger a rebuild).  Returns the descriptors."""
    desc = descriptors()
    txt = render(desc)
    GEN_DIR.mkdir(parents=True, exist_ok=True)
    if not REGISTRY_V.exists() or REGISTRY_V.read_text() != txt:
        tmp = REGISTRY_V.with_suffix(".v.tmp%d" % __import__("os").getpid())
        tmp.write_text(txt)
        tmp.replace(REGISTRY_V)
    return desc


if __name__ == "__main__":
    d = regen_registry()
    print(REGISTRY_V.read_text())

"""Entry point: ./check <id> [--tier quick|thorough] [--replay file]

Steps: regen (translator) -> prove (full .vo build + assumption audit of properties/<id>.v)
-> correspond (implementation vs extracted model on generated cases, corpus first)
-> search (property oracle on the implementation, when a proof or the correspondence broke)
-> report (evidence file, KNOWN-FINDING / VIOLATION lines, exit code)."""
from __future__ import annotations

import argparse
import importlib
import json
import os
import sys
import time
import traceback

sys.path.insert(0, os.path.dirname(os.path.abspath(__file__)))
import common  # noqa: E402
from common import (ALLOWED_AXIOMS, BuildError, Ctx, EVIDENCE, VERIF, audit_property, build,  # noqa: E402
                    load_known_findings, scan_forbidden, write_replay)

BASE_TRUSTED = [
    "Coq 8.16.1 kernel (coqc); vm_compute where a theorem is proved by reflection; no native_compute",
    "Coq extraction (ExtrOcamlBasic only; no Extract Constant / Extract Inductive of our own) + OCaml 4.13.1 compiler + ocaml/drv_util.ml, cmds_*.ml, driver.ml (parsing/printing)",
    "Python harness (case generators, comparators, oracles), CPython 3.12 / numpy as the implementation's runtime",
    "IEEE-754 rounding is modelled by exact rationals: exact stream compared bit-for-bit, float stream within 1e-9",
]


def main() -> int:
    ap = argparse.ArgumentParser()
    ap.add_argument("pid")
    ap.add_argument("--tier", default=os.environ.get("VERIF_TIER", "quick"), choices=["quick", "thorough"])
    ap.add_argument("--replay", default=None)
    args = ap.parse_args()
    pid = args.pid.upper()
    seed = int(os.environ.get("VERIF_SEED", "20260930"))
    ctx = Ctx(pid, args.tier, seed)
    mod = importlib.import_module(f"props.{pid.lower()}")
    known = [k for k in load_known_findings() if k.get("property") == pid and k.get("status", "open") == "open"]

    if args.replay:
        rep = json.loads(open(args.replay).read())
        rc = mod.replay(ctx, rep["replay"]) if hasattr(mod, "replay") else 2
        ctx.cleanup()
        return rc

    proof = {"ok": False, "theorems": [], "axioms": [], "cmd": "", "problems": []}
    # 1. regen
    try:
        if hasattr(mod, "regen"):
            mod.regen(ctx)
    except Exception as e:  # translator is fail-closed
        proof["problems"].append(f"translator failed: {e}")
    # 2. prove
    try:
        if not proof["problems"]:
            build()
            audit = audit_property(pid)
            proof.update(audit)
            bad_ax = [a for a in audit["axioms"] if a not in ALLOWED_AXIOMS]
            if not audit["ok"]:
                proof["problems"].append("properties/%s.v does not compile: %s" % (pid, audit["log_tail"][-800:]))
            if bad_ax:
                proof["problems"].append("disallowed assumptions: %s" % bad_ax)
            if audit["ok"] and audit.get("n_print_assumptions", 0) < len(audit["theorems"]):
                proof["problems"].append("a theorem lacks its Print Assumptions")
            if args.tier == "thorough" and audit["ok"]:
                # independent re-check of the compiled property file and everything it depends on
                import subprocess
                cp = subprocess.run(["timeout", "1500", "coqchk", "-silent", "-o", "-Q", "theories", "ICG", "-Q", "properties", "ICGP",
                                     f"ICGP.{pid}"], cwd=str(common.COQ), capture_output=True, text=True)
                out = cp.stdout + cp.stderr
                proof["coqchk_cmd"] = f"cd /verif/coq && coqchk -silent -o -Q theories ICG -Q properties ICGP ICGP.{pid}"
                import re as _re
                m = _re.search(r"\* Axioms:(.*?)\* Constants/Inductives relying on type-in-type", out, _re.S)
                axtxt = m.group(1).strip() if m else "?"
                proof["coqchk_axioms"] = axtxt
                if cp.returncode != 0:
                    proof["problems"].append("coqchk failed: " + out[-600:])
                elif axtxt != "<none>":
                    names = [l.strip() for l in axtxt.splitlines() if l.strip()]
                    bad = [a for a in names if a.split(":")[0].strip() not in ALLOWED_AXIOMS]
                    if bad:
                        proof["problems"].append(f"coqchk reports axioms: {bad[:5]}")
            forb = scan_forbidden()
            proof["forbidden_hits"] = forb
            if forb:
                proof["problems"].append("forbidden constructs: %s" % forb[:5])
    except BuildError as e:
        proof["problems"].append(f"{e}: {e.log[-1500:]}")
    proof["ok"] = not proof["problems"]

    # 3./4. correspond + search
    try:
        mod.run(ctx, proof)
    except Exception:
        ctx.violation("harness exception (check is broken, nothing it reports is believed)",
                      {"traceback": traceback.format_exc()}, found_input=False)

    if not proof["ok"] and not any(v["found_input"] for v in ctx.violations):
        ctx.violation("proof obligation no longer checks", {"broken": proof["problems"],
                      "theorems": proof.get("theorems", [])}, found_input=False)

    # 5. report
    lines = []
    real = []
    for v in ctx.violations:
        key = v.get("key")
        kf = next((k for k in known if key is not None and k.get("key") == key), None)
        if kf is not None:
            lines.append(f"KNOWN-FINDING: property={pid} {kf.get('what', v['what'])}")
        else:
            real.append(v)
    n_th = len(proof.get("theorems", []))
    cov = {
        "obligations": max(n_th, 1),
        "discharged": n_th if proof["ok"] else 0,
        "checker_cmd": proof.get("cmd") or "cd /verif/coq && make -j16",
        "trusted_base": BASE_TRUSTED + list(getattr(mod, "TRUSTED", [])),
        "theorems": proof.get("theorems", []),
        "axioms_reported_by_Print_Assumptions": proof.get("axioms", []),
        "proof_problems": proof["problems"],
        "coqchk": {"cmd": proof.get("coqchk_cmd"), "axioms": proof.get("coqchk_axioms")} if proof.get("coqchk_cmd") else "thorough tier only",
        "evaluations": ctx.evaluations,
        "distinct_nontrivial": len(ctx.nontrivial),
        "rule": getattr(mod, "RULE", ""),
        "samples": ctx.samples or [{"note": "no correspondence cases in this run"}],
        "input_distribution": ctx.hist,
        "notes": ctx.notes,
        "known_findings_reported": [l for l in lines],
    }
    cov.update(ctx.coverage)
    ev = {
        "property_id": pid, "tier": args.tier, "seed": seed, "level": "proof", "coverage": cov,
        "assumptions": list(getattr(mod, "ASSUMPTIONS", [])),
        "wall_s": round(time.time() - ctx.t0, 2), "violations": len(real),
    }
    EVIDENCE.mkdir(exist_ok=True)
    (EVIDENCE / f"{pid}.json").write_text(json.dumps(ev, indent=1, default=str))
    for l in dict.fromkeys(lines):
        print(l)
    for i, v in enumerate(real[:5]):
        p = write_replay(ctx, i, v)
        tail = "" if v["found_input"] else " no-failing-input-found"
        print(f"VIOLATION property={pid} replay={p}{tail}")
    if not real:
        print(f"OK property={pid} tier={args.tier} theorems={n_th} cases={ctx.evaluations} "
              f"nontrivial={len(ctx.nontrivial)} wall={ev['wall_s']}s")
    ctx.cleanup()
    return 1 if real else 0


if __name__ == "__main__":
    sys.exit(main())

"""Regenerate /verif/MANIFEST.json from the table below (run: python3 harness/mkmanifest.py)."""
import json
from pathlib import Path

VERIF = Path(__file__).resolve().parent.parent

COMMON_NOTE = ("Trusted: Coq 8.16.1 kernel; extraction (ExtrOcamlBasic only) + OCaml driver; the Python harness; "
               "the hand-written Gallina model is tied to /repo by a correspondence check run on every invocation "
               "(implementation vs extracted model on the same inputs / histories). IEEE rounding is not verified: "
               "exact stream bit-for-bit, float stream within 1e-9. ")

# id -> (claimed?, design_ref, level text, level note, technique)
CLAIMS = {
    "C01": {"design_ref": "DESIGN.md 7/C01",
            "text": "Coq theorem C01_sa_sound: for both superadditive computers, all n, all knowledge sets containing the minimal information, all superadditive hidden games and ANY table holding that knowledge (arbitrary stale unknown rows, hence any history): value in [lower, upper], lower <= upper, known rows untouched. Tied to /repo by bit-exact (exact stream) / 1e-9 (float stream) correspondence of bounds.py with the extracted model on generated (game, K, stale, history) cases, plus a soundness oracle on the implementation's own output.",
            "technique": "Coq proof (induction on coalition size over fixpoint equations of a size-sorted in-place fold) + model/implementation correspondence"},
    "C03": {"design_ref": "DESIGN.md 7/C03",
            "text": "Coq theorems: the cached and the reference computer leave Leibniz-equal rows for every table whose known rows have lower == upper (all n); spec of the memoised relation matrix and selection lemmas; memo invariant over any interleaving of player counts. Correspondence: impl-cached vs impl-ref vs model (n = 2..8), interleaved / repeated use with hashed memo arrays, relation matrix vs Structure.st_matrix.",
            "technique": "Coq proof (uniqueness of the fixpoint equations) + three-way differential check"},
    "C02": {"design_ref": "DESIGN.md 7/C02",
            "text": "Coq theorems (all n, K, v, stale tables, both computers): every superadditive completion lies between the computed bounds; the lower bounds are themselves a completion (minimum attained simultaneously); every upper bound is attained by an explicit completion w(X) = max(L X, U S + L(X\\S)); explicit min-over-known-supersets formula; lower bound = best total of a partition into known coalitions (both directions). Correspondence as C01 plus an independent exact optimum (Fractions) and, thorough, the two LPs over the completion polytope.",
            "technique": "Coq proof (soundness applied to arbitrary completions + explicit extremal witness) + correspondence + independent optimum oracle"},
    "C04": {"design_ref": "DESIGN.md 7/C04",
            "text": "Coq theorems for EVERY repetition count r: soundness (invariant preserved by every single cell write), never looser than the superadditive bounds, monotone in r, lower bounds antitone along inclusion, upper-bound caps; all for arbitrary stale tables. Correspondence of compute_bounds_superadditive_monotone_approx_cached with the model for r in 0..10, 100, 1000 and oracles on the implementation.",
            "technique": "Coq proof (loop invariant over rounds and cells) + correspondence"},
    "C07": {"design_ref": "DESIGN.md 7/C07",
            "text": "Coq theorem: K <= K' implies pointwise tighter intervals for both superadditive computers (all n, any tables holding the knowledge). Gap-function monotonicity (l1, l-inf, squared l2, binomially weighted gap) is proved in the Norms/Exploit development (C05 slice) and cited when merged; the SAM variant and the four registered gap functions are checked on every edge of the knowledge lattice (n<=3 quick, n<=4 thorough) on the implementation and against the model. Added: all gap functions are invariant under adding an additive game (ShiftProofs); same-object reveal chains incl. n = 9, 10 for the memoised computers in the correspondence. Added later: the four gap functions are comparable for all n (linf <= l1, exploitability <= l1, linf^2 <= l2^2 <= linf*l1, linf <= C*exploitability) and vanish together (GapCompare); multiplicative_factor.py is modelled (MulFactor): spec of the four factors (None iff an assert fires), for sound tables 1 <= factor to the lower bound <= factor lower/upper, both non-increasing along reveals for the superadditive computers, scale invariance; compared with the implementation along reveal chains.",
            "technique": "Coq proof (induction on coalition size over two solutions) + lattice-edge correspondence + gap oracles"},
    "C08": {"design_ref": "DESIGN.md 7/C08",
            "text": "Coq theorems for EVERY computer of the registry (reference, cached, SAM approximation with any repetition count): the result is a function of the known rows only (stale unknown rows irrelevant, any game class), recomputation idempotent, reveal+un-reveal undone exactly, histories ending in the same knowledge confluent, computed states fresh. Correspondence on histories + implementation-side oracles (route independence, idempotence, undo, stale rows) for every registered computer. Added: revealing a coalition already pinned down by the bounds is a no-op for the superadditive computers and not for sam_apx (witness: 5-player budget game); histories through the public compute_bounds() with values of a second game, n = 9 histories, budget-game walks in the correspondence.",
            "technique": "Coq proof (fixpoint uniqueness) + history correspondence + route-independence oracle"},
    "C17": {"design_ref": "DESIGN.md 7/C17",
            "text": "Coq theorems over ALL histories of public operations (induction over the operation list): the table refines an abstract partial map coalition -> value (known iff set/revealed and not since unset/bulk-reset; known rows have lower = upper = value, Leibniz); bulk bound setters and every bound computer never alter a known row; unknown values are never returned (error / None / NaN); fresh object knows only the empty coalition; negation spec and involution. Correspondence: random histories incl. copy/negation aliasing, duplicates, malformed id lists; all getters compared after every operation; independent abstract-map oracle.",
            "technique": "Coq refinement proof to an abstract map + operation-history correspondence"},
    "C09": {"design_ref": "DESIGN.md 7/C09",
            "text": "Coq theorems: invariant of the environment state machine by induction over ANY sequence of reset/step/unstep calls (known = initially known + chosen since the last reset, known rows carry the hidden values, table fresh, step counter), mask / observation / done / info / reset specifications, step+unstep restores the table exactly. Lock-step correspondence of ICG_Gym with the model after every call (all n=3 sequences, sampled n=4,5; every computer, gap function, budget) + an implementation-side oracle (knowledge, mask, observation, reward = -gap of fresh bounds <= 0, done predicate). Added: masks and observations are invariant under positive affine changes of the hidden game along every trace (all computers), rewards scale by c with equal done flags for the superadditive computers; sibling environments of one ModelInstance and hidden games scaled by 2^-30 in the correspondence. Added later: the all-intervals-degenerate disjunct of done holds iff the configured gap is zero, for each of the four gap functions (DoneGap).",
            "technique": "Coq invariant proof over operation traces + lock-step correspondence"},
    "C13": {"design_ref": "DESIGN.md 7/C13",
            "text": "Coq theorems: greedy / worst-greedy return a valid action of maximal / minimal tried reward with ties to the lowest index (also as a function of the reward vector, the form compared in lock-step); largest returns a valid action of maximal coalition size, lowest index; trying an action is a step which unstep undoes exactly. Lock-step correspondence for every registered solver at every reachable n=3 state and sampled n=4,5 states with asymmetric games; expected-greedy search modelled and proved (each choice minimises the mean gap over all one-coalition extensions, no repeats, rows = gaps of prefixes, curve non-increasing for class games, never below a lower bound of all same-size sets, optimal for one reveal) and compared with get_greedy_rewards on exact gaps, plus the exhaustive-optimum oracle with 1,2,4 processes. Added: expected-greedy is scale-free (argmin, chosen sequence, curve x c); per-step choice-rule oracle and rescaled games in the correspondence.",
            "technique": "Coq proof of first-argmax/argmin selection + lock-step correspondence"},
    "C16": {"design_ref": "DESIGN.md 7/C16",
            "text": "Coq theorems: the linear mask allows size k iff an unknown explorable coalition of size k exists; candidates = exactly those coalitions, non-empty when allowed; a linear step IS the underlying step of a candidate; the observation is the per-size sum of the inner observation, of length n. Lock-step correspondence with ICG_Gym_Linear (the sampled coalition read from info and passed to the model).",
            "technique": "Coq proof over the aggregation (bincount) model + lock-step correspondence"},
    "C15": {"design_ref": "DESIGN.md 7/C15 + DESIGN_NOTES/C15.md",
            "text": "Coq theorems over exact rationals (which cover every float input): closed formula of the sequential singleton subtraction (all n), range [0,1] with singletons 0 and grand 1 (or identically 0 iff additive), superadditivity preserved, denormalise o normalise = id, graph and tabulated forms commute; refutation witnesses showing the hypotheses cannot be dropped. Correspondence: exact stream bit-for-bit, float stream over every generator family and nearly additive games, graph stream, gym observation inside its Box; oracle = the property on the implementation's output. Added: the superadditive computers are covariant under adding an additive game and under positive affine changes, hence bounds and gaps of the normalised knowledge are the normalised bounds and the gaps divided by the surplus (refuted for the SAM approximation by a 3-player witness).",
            "technique": "Coq proof (loop invariant over the player loop, ordered-field reasoning) + correspondence + range oracle"},
    "C11": {"design_ref": "DESIGN.md 7/C11",
            "text": "Coq theorems: the enumeration is every sub-list of the unknown coalitions of length <= k exactly once by increasing size (itertools.combinations model proved in CombsProofs); the reported gap depends only on the set starting knowledge + sequence, is the gap of the game in which exactly that set is known, ignores the state left in the shared game object, and any chunking of the task list over workers equals the sequential map; meta-game value is the same quantity; best-states is a per-size first-argmin of the mean; per-game value never increases with one more coalition (class games) and the best-states curve is non-increasing. Correspondence with 1..16 worker processes (stale rows planted in the pickled object), independent per-set gap oracle, per-size optimum oracle. Partial: Pool pickling/chunking is modelled (sr_starmap), not verified. Added: scale-freeness theorems (every computer incl. SAM for all r, all gap functions, sr_value and best-states are positively homogeneous: same reported sets, curves multiplied by c); best-states runs on games scaled by 2^-24, 2^-30, 2^12 with tolerances relative to the games' magnitude.",
            "technique": "Coq proof (enumeration spec, function-of-knowledge, chunking lemma, argmin fold invariant) + multi-process correspondence"},
    "C05": {"design_ref": "DESIGN.md 7/C05 + DESIGN_NOTES/C05.md",
            "text": "Coq theorems for ALL n: exploitability = binomially weighted gap (sum exchange; general form with no hypothesis), = summed per-player maximal Shapley value minus v(N); non-negative when lower <= upper; zero iff all intervals degenerate; per-player domination for every completion inside the box; max-gain game inside the box. Correspondence of compute_exploitability and the three norms on objects with bounds set directly (one size widened at a time, swaps visible), n = 2..8, plus Fraction oracle of the right-hand side.",
            "technique": "Coq proof (sum exchange over player/coalition pairs) + correspondence"},
    "C06": {"design_ref": "DESIGN.md 7/C06 + DESIGN_NOTES/C06.md",
            "text": "Coq theorems for ALL n and all games: Shapley value = average marginal contribution over all n! orderings (counting orderings with given predecessors), efficiency, null player, linearity, relabelling by any permutation, both entry points equal; the n <= 7 reflection proof kept as an independent second proof. Correspondence for n = 1..10 on one-hot / unanimity / random games; brute-force ordering oracle n <= 7. Also proved for all n: null-player-out (deleting a null last player changes nobody's value) and the carrier theorem (a game carried by any k players has the k-player game's values = average over the k! orderings of the carrier, zeros elsewhere); the check evaluates carrier games for n = 11..18 (20 thorough) against it.",
            "technique": "Coq proof (counting bijection + reflection on linear forms) + correspondence"},
    "C10": {"design_ref": "DESIGN.md 7/C10 + DESIGN_NOTES/C10.md",
            "text": "Coq theorems per generator family for all n and all parameters/draws in the supports: factory, cheerleader, graph, additive, XOS, XS, OXS (min-convolution invariant, loop-faithful _apply_or), K-budget, coverage are superadditive (and monotone where assumed); registry theorem over the GENERATED key list (every key maps to a modelled family with admissible static parameters; 'convex' external). Correspondence with recorded draws for every registry key x n x seeds; oracle on the implementation (runs, shape, dtype, v(empty)=0, class, seed determinism).",
            "technique": "Coq proof per construction + registry regenerated from /repo on every run + recorded-draw correspondence"},
    "C12": {"design_ref": "DESIGN.md 7/C12",
            "text": "Coq theorems: eval_one records the true trajectory (row 0 = gap after the reset with this repetition's hidden game, row t+1 = gap after the t-th chosen coalition in that game, actions = ids revealed, unknown before / known after); with one child stream per environment the hidden games do not depend on sequential/parallel execution nor on the chunking and distinct repetitions read distinct streams; with one shared stream they do (refutation witness 12 repetitions / 2 processes, the defect repaired in /repo a2c763f). Correspondence: replay of recorded actions, model vs implementation for the 'largest' policy, fingerprinted hidden games mapped to draw indices for 1..16 processes. PARTIAL: pickle / multiprocessing.Pool semantics are modelled and validated, not verified. One open known finding (RandomSolver's own random.Random is replayed per chunk). Added: model of the solver's own random stream under pool chunking (sequentially disjoint stretches, replay by every chunk, refutation on the pool's real chunking = the open finding); independence oracle on the captured hidden games.",
            "technique": "Coq proof over the recording loop and a small stream-wiring model + multi-process correspondence"},
    "C14": {"design_ref": "DESIGN.md 7/C14 + DESIGN_NOTES/C14.md",
            "text": "Coq theorems: ranking of coalition sets is a bijection ordered by size for every (nc, limit >= 1); id->rank inverse and total construction for the by-id table, refutation for the by-count table; invariant over ALL histories of non-negative iterations (plain and plus): every current strategy is a distribution supported on unused viable coalitions, regret added is orthogonal to the strategy, plus keeps regret non-negative, no NaN with the clamped limit (refutation for the unclamped one); average strategy distribution; save/load identity. One-step lock-step correspondence (float32 state -> Q) + invariant oracle on the implementation.",
            "technique": "Coq invariant proof over iteration histories + one-step lock-step correspondence"},
    "C18": {"design_ref": "DESIGN.md 7/C18 + DESIGN_NOTES/C18.md",
            "text": "Coalition's one-expression methods AND the numpy id-array functions of coalition_ids.py are TRANSLATED from /repo into Coq on every run (fail-closed AST translators translate.py / translate_ids.py, the latter over the small array algebra NpArr.v); the bitwise specs are proved over the generated definitions for all ids and n, and the generated id-array functions are proved equal to the hand model (all n, all ids incl. those the assert rejects); players/size/from_players, both sub-/super-coalition enumerations (object and id-array, exact order) are complete, duplicate-free and permutations of each other; combinations/powerset spec; is_superadditive / is_monotone_decreasing / is_sam / check_supermodularity decide their textbook definitions. Correspondence: all coalitions n = 1..10, all pairs n <= 5 (6 thorough), exhaustive small lattices for the predicates.",
            "technique": "translation (regenerated each run) + Coq proofs over generated and hand models + exhaustive correspondence"},
    "C19": {"design_ref": "DESIGN.md 7/C19 + DESIGN_NOTES/C19.md",
            "text": "Coq theorems: the store is insert-if-absent - once a name is present its entry never changes under ANY further saves (first write wins), saving an existing name is a no-op, saving a new name adds it and changes nothing else; nested-list <-> array round trip for every shape with all dimensions >= 1 (NaN included; refutation for a zero dimension); entry round trip. Correspondence on save histories (repeated names, NaN padding, extreme values, non-JSON metadata) after every save; solve / greedy / best_states commands run with the computation captured - the file must hold exactly that. PARTIAL: CPython's json text codec and float repr are trusted (exercised, not modelled).",
            "technique": "Coq proof over save histories + save/load history correspondence"},
    "C20": {"design_ref": "DESIGN.md 7/C20 + DESIGN_NOTES/C20.md",
            "text": "Coq theorems over an explicit file-operation model (kernel-visible content + user-space buffers; death, interrupt, partial write): for the temp-file + replace procedure the results file after a crash at ANY operation index of ANY save, any payload chunking, any previous content, is exactly the old or the complete new file, and no earlier run is ever lost over sessions with any number of interrupted saves; the in-place procedure is refuted (witness; k = 1 leaves the empty file). Correspondence: the operation trace of save_json is recorded and the scheme identified; fault injection at every operation (exception, os._exit in a fork, half-written raw write) and the bytes left are compared with the model; oracle: file parses and contains every earlier run. PARTIAL: POSIX rename atomicity and CPython io buffering are assumptions of the model, stated in C20.v. Added: frame theorem for the public save() (arbitrary operations of the other savers on other paths/handles before, after or interleaved with the json save keep data.json old-or-new at every crash point and mode), refutation of pre-creating the results file in place; the public save() (fresh and existing model directory) is fault-injected at every file operation.",
            "technique": "Coq proof over crash points of an operation-trace model + fault-injection correspondence"},
}

PENDING_REASON = "check under construction in this session (DESIGN.md section 9 staging); not claimed until its theorems and correspondence are committed"


def main():
    props = [json.loads(l) for l in (VERIF / "properties.jsonl").read_text().splitlines() if l.strip()]
    checks = []
    na = []
    for p in props:
        pid = p["id"]
        if pid in CLAIMS:
            c = CLAIMS[pid]
            checks.append({
                "property_id": pid,
                "quick_cmd": f"./check {pid} --tier quick",
                "thorough_cmd": f"./check {pid} --tier thorough",
                "evidence_file": f"/verif/evidence/{pid}.json",
                "replay_cmd_template": f"./check {pid} --replay {{path}}",
                "engine": "coq-proof+correspondence",
                "level_claimed": {"category": "proof", "text": c["text"], "design_ref": c["design_ref"]},
                "level_note": COMMON_NOTE + c.get("note", ""),
                "technique": c["technique"],
            })
        else:
            na.append({"property_id": pid, "reason": PENDING_REASON})
    m = {
        "version": 1,
        "setup_cmd": "./setup.sh",
        "hooks": {
            "guard": "INCOMPLETE_COOPERATIVE_VERIF",
            "enable": "no source hooks: the harness imports /repo's working tree directly (PYTHONPATH=/repo) and wraps objects it passes in; the guard variable is exported by ./check but nothing in /repo reads it",
            "baseline_off_cmd": "cd /repo && /venv/bin/python -m pytest -ra -q -p no:cacheprovider --timeout=900 --continue-on-collection-errors",
            "source_commits": [],
            "add_only": True,
        },
        "engines": [{
            "name": "coq-proof+correspondence",
            "path": "/verif/check",
            "serves_properties": [c["property_id"] for c in checks],
            "kind_free_text": "Coq 8.16.1 theorems about a hand-written executable Gallina model (coq/theories), property files coq/properties/Cxx.v; model extracted to OCaml (ocaml/) and compared with /repo's Python on generated inputs and histories by harness/; a small AST translator regenerates Coalition methods and registries into Coq on every run",
        }],
        "checks": checks,
        "not_applicable": na,
        "notes": "See DESIGN.md. known_findings.json lists genuine unrepaired defects; fixed ones are recorded there as well.",
    }
    (VERIF / "MANIFEST.json").write_text(json.dumps(m, indent=1) + "\n")
    print(f"{len(checks)} checks claimed, {len(na)} not claimed")


if __name__ == "__main__":
    main()

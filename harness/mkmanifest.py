"""Regenerate /verif/MANIFEST.json from the table below (run: python3 harness/mkmanifest.py)."""
import json
from pathlib import Path

VERIF = Path(__file__).resolve().parent.parent

COMMON_NOTE = ("Trusted: Coq 8.16.1 kernel; extraction (ExtrOcamlBasic only) + OCaml driver; the Python harness; "
               "the hand-written Gallina model is tied to /repo by a correspondence check run on every invocation "
               "(implementation vs extracted model on the same inputs / histories). IEEE rounding is not verified: "
               "exact stream bit-for-bit, float stream within 1e-9. ")

# id -> (claimed?, design_ref, level text, level note, technique)
CLAIMS = {
    "C01": {"design_ref": "DESIGN.md 7/C01",
            "text": "Coq theorem C01_sa_sound: for both superadditive computers, all n, all knowledge sets containing the minimal information, all superadditive hidden games and ANY table holding that knowledge (arbitrary stale unknown rows, hence any history): value in [lower, upper], lower <= upper, known rows untouched. Tied to /repo by bit-exact (exact stream) / 1e-9 (float stream) correspondence of bounds.py with the extracted model on generated (game, K, stale, history) cases, plus a soundness oracle on the implementation's own output.",
            "technique": "Coq proof (induction on coalition size over fixpoint equations of a size-sorted in-place fold) + model/implementation correspondence"},
    "C03": {"design_ref": "DESIGN.md 7/C03",
            "text": "Coq theorems: the cached and the reference computer leave Leibniz-equal rows for every table whose known rows have lower == upper (all n); spec of the memoised relation matrix and selection lemmas; memo invariant over any interleaving of player counts. Correspondence: impl-cached vs impl-ref vs model (n = 2..8), interleaved / repeated use with hashed memo arrays, relation matrix vs Structure.st_matrix.",
            "technique": "Coq proof (uniqueness of the fixpoint equations) + three-way differential check"},
    "C08": {"design_ref": "DESIGN.md 7/C08",
            "text": "Coq theorems for the superadditive computers: the result is a function of the known rows only (stale unknown rows irrelevant, any game class), recomputation idempotent, reveal+un-reveal undone exactly, histories ending in the same knowledge confluent. For the SAM approximations the same statements are checked by correspondence + implementation-side oracles (route independence, idempotence, undo, stale rows) for every registered computer.",
            "technique": "Coq proof (fixpoint uniqueness) + history correspondence + route-independence oracle"},
}

PENDING_REASON = "check under construction in this session (DESIGN.md section 9 staging); not claimed until its theorems and correspondence are committed"


def main():
    props = [json.loads(l) for l in (VERIF / "properties.jsonl").read_text().splitlines() if l.strip()]
    checks = []
    na = []
    for p in props:
        pid = p["id"]
        if pid in CLAIMS:
            c = CLAIMS[pid]
            checks.append({
                "property_id": pid,
                "quick_cmd": f"./check {pid} --tier quick",
                "thorough_cmd": f"./check {pid} --tier thorough",
                "evidence_file": f"/verif/evidence/{pid}.json",
                "replay_cmd_template": f"./check {pid} --replay {{path}}",
                "engine": "coq-proof+correspondence",
                "level_claimed": {"category": "proof", "text": c["text"], "design_ref": c["design_ref"]},
                "level_note": COMMON_NOTE + c.get("note", ""),
                "technique": c["technique"],
            })
        else:
            na.append({"property_id": pid, "reason": PENDING_REASON})
    m = {
        "version": 1,
        "setup_cmd": "./setup.sh",
        "hooks": {
            "guard": "INCOMPLETE_COOPERATIVE_VERIF",
            "enable": "no source hooks: the harness imports /repo's working tree directly (PYTHONPATH=/repo) and wraps objects it passes in; the guard variable is exported by ./check but nothing in /repo reads it",
            "baseline_off_cmd": "cd /repo && /venv/bin/python -m pytest -ra -q -p no:cacheprovider --timeout=900 --continue-on-collection-errors",
            "source_commits": [],
            "add_only": True,
        },
        "engines": [{
            "name": "coq-proof+correspondence",
            "path": "/verif/check",
            "serves_properties": [c["property_id"] for c in checks],
            "kind_free_text": "Coq 8.16.1 theorems about a hand-written executable Gallina model (coq/theories), property files coq/properties/Cxx.v; model extracted to OCaml (ocaml/) and compared with /repo's Python on generated inputs and histories by harness/; a small AST translator regenerates Coalition methods and registries into Coq on every run",
        }],
        "checks": checks,
        "not_applicable": na,
        "notes": "See DESIGN.md. known_findings.json lists genuine unrepaired defects; fixed ones are recorded there as well.",
    }
    (VERIF / "MANIFEST.json").write_text(json.dumps(m, indent=1) + "\n")
    print(f"{len(checks)} checks claimed, {len(na)} not claimed")


if __name__ == "__main__":
    main()

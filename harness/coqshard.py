"""Evaluate a shard of bound-computer cases INSIDE Coq (vm_compute on the Gallina model) and compare with the extracted
OCaml model: for the shard, extraction and the driver are not trusted."""
from __future__ import annotations

import re
import subprocess
from fractions import Fraction

import common
from common import COQ, frac
import boundslib as bl


def qlit(x) -> str:
    f = frac(x)
    return f"({f.numerator} # {f.denominator})"


def coq_computer(comp: str) -> str:
    m = bl.model_name(comp)
    if m == "ref":
        return "CRef"
    if m == "cached":
        return "CCached"
    return f"(CSam {int(m[4:])})"


def case_expr(c) -> str:
    n = c["n"]
    Ks = set(c["K"])
    rows = []
    for i in range(2 ** n):
        if i in Ks:
            x = qlit(float(c["v"][i]))
            rows.append(f"mkrow true {x} {x}")
        elif c["stale"] and i in c["stale"]:
            rows.append(f"mkrow false {qlit(float(c['stale'][i][0]))} {qlit(float(c['stale'][i][1]))}")
        else:
            rows.append("mkrow false 0 0")
    return f"(shard_run {coq_computer(c['comp'])} {n} [{'; '.join(rows)}])"


PRELUDE = """From ICG Require Import Prelude Bits Table Bounds.
From Coq Require Import ZArith.
Local Open Scope Q_scope.
Definition shard_tab (rows : list row) : table :=
  fst (fold_left (fun acc r => (set (fst acc) (snd acc) r, N.succ (snd acc))) rows (empty, 0%N)).
Definition shard_row (r : row) : bool * (Z * Z) * (Z * Z) :=
  let a := Qred (lo r) in let b := Qred (hi r) in (known r, (Qnum a, Zpos (Qden a)), (Qnum b, Zpos (Qden b))).
Definition shard_run (c : computer) (n : nat) (rows : list row) : option (list (bool * (Z * Z) * (Z * Z))) :=
  match compute c n (shard_tab rows) with
  | Some t => Some (map (fun s => shard_row (get t s)) (alln n))
  | None => None
  end.
"""

_ROW = re.compile(r"\((true|false),\s*\(\s*(-?\d+)\s*,\s*(\d+)\s*\),\s*\(\s*(-?\d+)\s*,\s*(\d+)\s*\)\)")


def eval_cases_in_coq(ctx, cases, timeout=900):
    """Returns list of ('err', None) / ('ok', table) per case."""
    src = ctx.work / "shard_bounds.v"
    body = [PRELUDE] + [f"Eval vm_compute in {case_expr(c)}." for c in cases]
    src.write_text("\n".join(body) + "\n")
    lock = common._lock()
    try:
        p = subprocess.run(["timeout", str(timeout), "coqc", "-Q", str(COQ / "theories"), "ICG", str(src)],
                           capture_output=True, text=True, cwd=ctx.work)
    finally:
        lock.close()
    if p.returncode != 0:
        raise RuntimeError("in-Coq evaluation failed: " + (p.stdout + p.stderr)[-1500:])
    txt = p.stdout.replace("%Z", "").replace("(-", "-")
    txt = re.sub(r"-(\d+)\)", r"-\1", txt)
    blocks = re.split(r"\n\s*=\s", "\n" + txt)[1:]
    if len(blocks) != len(cases):
        raise RuntimeError(f"in-Coq evaluation printed {len(blocks)} results for {len(cases)} cases")
    out = []
    for blk in blocks:
        if blk.lstrip().startswith("None"):
            out.append(("err", None))
        else:
            out.append(("ok", [(k == "true", Fraction(int(a), int(b)), Fraction(int(c), int(d))) for k, a, b, c, d in _ROW.findall(blk)]))
    return out


def cross_check(ctx, cases, limit=40):
    """Pick up to `limit` cases with n <= 4 and require in-Coq result == extracted-model result."""
    from common import run_driver
    sel = [c for c in cases if c["n"] <= 4 and (not c["comp"].startswith("sam:") or int(c["comp"][4:]) <= 10)][:limit]
    if not sel:
        return 0
    coq = eval_cases_in_coq(ctx, sel)
    drv = run_driver([bl.model_case_line(c["comp"], c["n"], c["v"], c["K"], c["stale"]) for c in sel])
    bad = 0
    for c, (st, tab), out in zip(sel, coq, drv):
        st2, tab2 = bl.parse_model_table(out, 2 ** c["n"])
        if st != st2 or (st == "ok" and tab != tab2):
            bad += 1
            if bad == 1:
                ctx.violation("extraction cross-check failed: the model evaluated inside Coq (vm_compute) differs from the extracted OCaml model",
                              {"case": {k: str(v) for k, v in c.items()}, "coq": str(tab)[:500], "ocaml": str(tab2)[:500]}, found_input=False)
    ctx.coverage["cases_cross_checked_inside_coq"] = len(sel)
    return len(sel)

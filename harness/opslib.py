"""Operation histories on one IncompleteCooperativeGame object: apply to the implementation,
encode for the model driver, compare step by step (C01, C08, C17)."""
from __future__ import annotations

import numpy as np

from common import frac, qtok, tokq
from boundslib import computer_fn, model_name, parse_table_tokens, table_of, compare_tables

from incomplete_cooperative.coalitions import Coalition
from incomplete_cooperative.game import IncompleteCooperativeGame


def C(ids):
    return [Coalition(int(i)) for i in ids]


def apply_op(g: IncompleteCooperativeGame, op, own_comp=None) -> str:
    """Apply one op (tuple) to the implementation object; 'ok' or 'err'. own_comp: name of the computer the object was
    constructed with - a compute op naming it goes through the public g.compute_bounds()."""
    kind = op[0]
    try:
        if kind == "set":
            g.set_value(float(op[2]), Coalition(op[1]))
        elif kind == "unset":
            g.unset_value(Coalition(op[1]))
        elif kind == "reveal":
            g.reveal_value(float(op[2]), Coalition(op[1]))
        elif kind == "unreveal":
            g.unreveal_value(Coalition(op[1]))
        elif kind == "values_all":
            g.set_values(np.array([float(x) for x in op[1]]))
        elif kind == "values_some":
            g.set_values(np.array([float(x) for x in op[2]]), C(op[1]))
        elif kind == "known_all":
            g.set_known_values([float(x) for x in op[1]])
        elif kind == "known_some":
            g.set_known_values([float(x) for x in op[2]], C(op[1]))
        elif kind == "lowers_all":
            g.set_lower_bounds(np.array([float(x) for x in op[1]]))
        elif kind == "lowers_some":
            g.set_lower_bounds(np.array([float(x) for x in op[2]]), C(op[1]))
        elif kind == "uppers_all":
            g.set_upper_bounds(np.array([float(x) for x in op[1]]))
        elif kind == "uppers_some":
            g.set_upper_bounds(np.array([float(x) for x in op[2]]), C(op[1]))
        elif kind == "lower":
            g.set_lower_bound(float(op[2]), Coalition(op[1]))
        elif kind == "upper":
            g.set_upper_bound(float(op[2]), Coalition(op[1]))
        elif kind == "compute":
            if own_comp is not None and op[1] == own_comp:
                g.compute_bounds()
            else:
                computer_fn(op[1])(g)
        else:
            raise KeyError(kind)
    except (AssertionError, ValueError):
        return "err"
    return "ok"


def op_tokens(op) -> str:
    kind = op[0]
    if kind in ("set", "reveal", "lower", "upper"):
        return f"{kind} {op[1]} {qtok(op[2])}"
    if kind in ("unset", "unreveal"):
        return f"{kind} {op[1]}"
    if kind.endswith("_all"):
        return f"{kind} {len(op[1])} " + " ".join(qtok(x) for x in op[1])
    if kind.endswith("_some"):
        return (f"{kind} {len(op[1])} " + " ".join(str(i) for i in op[1])
                + f" {len(op[2])} " + " ".join(qtok(x) for x in op[2])).replace("  ", " ")
    if kind == "compute":
        return f"compute {model_name(op[1])}"
    raise KeyError(kind)


def ops_line(n: int, ops) -> str:
    return f"ops {n} {len(ops)} " + " ".join(op_tokens(o) for o in ops)


def run_impl_history(n: int, ops, comp=None):
    """Returns list of (status, table) after each op. With comp the object is constructed with that bounds computer
    and compute ops naming it call the public compute_bounds() (so anything wrapped around the computer is exercised)."""
    g = IncompleteCooperativeGame(n, computer_fn(comp)) if comp is not None else IncompleteCooperativeGame(n)
    res = []
    for o in ops:
        st = apply_op(g, o, comp)
        res.append((st, table_of(g)))
    return res, g


def parse_ops_output(out: str, n: int):
    size = 2 ** n
    res = []
    for seg in out.split("|")[1:]:
        toks = seg.split()
        res.append((toks[0], parse_table_tokens(toks[1:], size)))
    return res


def compare_history(impl_res, model_res, exact=True, stop_after_compute_err=True):
    """None if all steps agree, else (step index, detail)."""
    if len(impl_res) != len(model_res):
        return (-1, f"length {len(impl_res)} vs {len(model_res)}")
    for i, ((si, ti), (sm, tm)) in enumerate(zip(impl_res, model_res)):
        if si != sm:
            return (i, f"status impl={si} model={sm}")
        d = compare_tables(ti, tm, exact)
        if d is not None:
            return (i, d)
    return None

"""Shared by c05/c06: evaluate a shard of cases INSIDE Coq (vm_compute on the Gallina model itself) so that, for the
shard, extraction + OCaml driver are not trusted: the two model outputs must be identical rationals."""
from __future__ import annotations

import re
import subprocess
from fractions import Fraction

import common
from common import COQ, frac


def qlit(x) -> str:
    f = frac(x)
    return f"({f.numerator} # {f.denominator})"


def qlist(xs) -> str:
    return "[" + "; ".join(qlit(x) for x in xs) + "]"


_Q = re.compile(r"\(\s*(-?\d+)\s*,\s*(\d+)\s*\)")


def eval_in_coq(ctx, name: str, exprs: list[str], timeout: int = 600) -> list[list[Fraction]]:
    """Each expr must have type `list Q`; returns the evaluated lists.  Printed as (numerator, denominator) pairs of
    the reduced fractions, because Coq prints some rationals in hexadecimal-fraction notation."""
    if not exprs:
        return []
    src = ctx.work / f"cases_{name}.v"
    body = ["From ICG Require Import Prelude Bits Table Shapley Exploit Norms.", "Local Open Scope Q_scope.",
            "Local Open Scope Z_scope.",
            "Definition nd (l : list Q) : list (Z * Z) := map (fun q => let r := Qred q in (Qnum r, Zpos (Qden r))) l."]
    for e in exprs:
        body.append(f"Eval vm_compute in (nd ({e})).")
    src.write_text("\n".join(body) + "\n")
    lock = common._lock()
    try:
        p = subprocess.run(["timeout", str(timeout), "coqc", "-Q", str(COQ / "theories"), "ICG", str(src)],
                           capture_output=True, text=True, cwd=ctx.work)
    finally:
        lock.close()
    if p.returncode != 0:
        raise RuntimeError("in-Coq evaluation failed: " + (p.stdout + p.stderr)[-1500:])
    blocks = re.findall(r"=\s*(\[.*?\])\s*:\s*list \(Z \* Z\)", p.stdout, re.S)
    if len(blocks) != len(exprs):
        raise RuntimeError(f"in-Coq evaluation printed {len(blocks)} results for {len(exprs)} expressions")
    return [[Fraction(int(a), int(b)) for a, b in _Q.findall(blk)] for blk in blocks]

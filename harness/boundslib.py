"""Implementation and model runners for the bound computers + comparators + oracles (C01-C04, C07, C08)."""
from __future__ import annotations

from fractions import Fraction
from functools import partial

import numpy as np

import common
from common import close, frac, qtok, tokq
from games import popcount, proper_splits

from incomplete_cooperative.bounds import BOUNDS, compute_bounds_superadditive_monotone_approx_cached
from incomplete_cooperative.coalitions import Coalition
from incomplete_cooperative.game import IncompleteCooperativeGame

MODEL_NAME = {"superadditive": "ref", "superadditive_cached": "cached"}


def model_name(comp: str) -> str:
    if comp in MODEL_NAME:
        return MODEL_NAME[comp]
    if comp.startswith("sam_apx_"):
        return "sam:" + comp[len("sam_apx_"):]
    if comp.startswith("sam:"):
        return comp
    raise KeyError(comp)


def computer_fn(comp: str):
    if comp.startswith("sam:"):
        return partial(compute_bounds_superadditive_monotone_approx_cached, repetitions=int(comp[4:]))
    return BOUNDS[comp]


def make_game(comp: str, n: int, v, K, stale=None) -> IncompleteCooperativeGame:
    """Game object with knowledge K of hidden game v; `stale` = {id: (lo, hi)} left in unknown rows."""
    g = IncompleteCooperativeGame(n, computer_fn(comp))
    g.set_known_values([float(v[i]) for i in K], [Coalition(i) for i in K])
    if stale:
        for i, (l, h) in stale.items():
            if not g.is_value_known(Coalition(i)):
                g.set_lower_bound(float(l), Coalition(i))
                g.set_upper_bound(float(h), Coalition(i))
    return g


def table_of(g: IncompleteCooperativeGame):
    k = g.are_values_known()
    lo = g.get_lower_bounds()
    hi = g.get_upper_bounds()
    return [(bool(k[i]), float(lo[i]), float(hi[i])) for i in range(len(k))]


def impl_compute(comp: str, n: int, v, K, stale=None):
    """Returns ('ok', table) or ('err', exception class name)."""
    g = make_game(comp, n, v, K, stale)
    try:
        g.compute_bounds()
    except (AssertionError, ValueError) as e:
        return "err", type(e).__name__
    return "ok", table_of(g)


def table_line(tab) -> str:
    return " ".join(f"{1 if k else 0} {qtok(l)} {qtok(h)}" for k, l, h in tab)


def model_case_line(comp: str, n: int, v, K, stale=None) -> str:
    Ks = set(K)
    rows = []
    for i in range(2 ** n):
        if i in Ks:
            rows.append((True, float(v[i]), float(v[i])))
        elif stale and i in stale:
            rows.append((False, float(stale[i][0]), float(stale[i][1])))
        else:
            rows.append((False, 0.0, 0.0))
    return f"bounds {model_name(comp)} {n} " + table_line(rows)


def parse_model_table(out: str, size: int):
    toks = out.split()
    if toks[0] == "err":
        return "err", None
    assert toks[0] == "ok", out[:100]
    body = toks[1:]
    tab = [(body[3 * i] == "1", tokq(body[3 * i + 1]), tokq(body[3 * i + 2])) for i in range(size)]
    return "ok", tab


def parse_table_tokens(body, size: int):
    return [(body[3 * i] == "1", tokq(body[3 * i + 1]), tokq(body[3 * i + 2])) for i in range(size)]


def compare_tables(impl_tab, model_tab, exact: bool, tol: float = 1e-9):
    """None if equal; else (id, column, impl, model)."""
    scale = max([1.0] + [abs(float(x)) for r in model_tab for x in r[1:]])
    for i, (a, b) in enumerate(zip(impl_tab, model_tab)):
        if a[0] != b[0]:
            return (i, "known", a[0], b[0])
        for col, name in ((1, "lower"), (2, "upper")):
            x, y = a[col], b[col]
            if exact:
                if frac(x) != y:
                    return (i, name, x, str(y))
            else:
                if not close(x, y, tol, scale):
                    return (i, name, x, float(y))
    return None


# ---------------------------------------------------------------- oracles on implementation output
def oracle_sound(n, v, K, tab, exact: bool, tol=1e-9):
    """C01: hidden value inside [lo, hi], lo <= hi, known rows exact.  Returns list of failures."""
    fails = []
    Ks = set(K)
    scale = max([1.0] + [abs(float(x)) for x in v])
    eps = 0 if exact else tol * scale
    for i, (k, lo, hi) in enumerate(tab):
        x = float(v[i])
        if k != (i in Ks):
            fails.append((i, "known-flag", k))
        if i in Ks:
            if lo != x or hi != x:
                fails.append((i, "known-row-not-exact", (lo, hi, x)))
        else:
            if lo > x + eps:
                fails.append((i, "lower>value", (lo, x)))
            if hi < x - eps:
                fails.append((i, "upper<value", (hi, x)))
            if lo > hi + eps:
                fails.append((i, "lower>upper", (lo, hi)))
    return fails


def exact_tight_bounds(n, v, K):
    """Independent optimum in exact rationals: best partition into known coalitions (memoised),
    min over known strict supersets.  Returns (L, U) lists of Fractions."""
    Ks = set(K)
    fv = [frac(x) for x in v]
    L = [None] * (2 ** n)
    for s in sorted(range(2 ** n), key=popcount):
        if s in Ks:
            L[s] = fv[s]
        else:
            best = None
            for a in proper_splits(s):
                c = L[a] + L[s ^ a]
                if best is None or c > best:
                    best = c
            L[s] = best
    U = [None] * (2 ** n)
    full = 2 ** n - 1
    for s in range(2 ** n):
        if s in Ks:
            U[s] = fv[s]
            continue
        best = None
        rest = full ^ s
        sub = rest
        while True:
            T = s | sub
            if T != s and T in Ks:
                c = fv[T] - L[T ^ s]
                if best is None or c < best:
                    best = c
            if sub == 0:
                break
            sub = (sub - 1) & rest
        U[s] = best
    return L, U


def oracle_tight(n, v, K, tab, exact: bool, tol=1e-9):
    """C02: implementation output equals the independent exact optimum."""
    L, U = exact_tight_bounds(n, v, K)
    fails = []
    scale = max([1.0] + [abs(float(x)) for x in v])
    for i, (k, lo, hi) in enumerate(tab):
        if exact:
            if frac(lo) != L[i]:
                fails.append((i, "lower!=best-partition", (lo, str(L[i]))))
            if frac(hi) != U[i]:
                fails.append((i, "upper!=min-over-known-supersets", (hi, str(U[i]))))
        else:
            if not close(lo, L[i], tol, scale):
                fails.append((i, "lower!=best-partition", (lo, float(L[i]))))
            if not close(hi, U[i], tol, scale):
                fails.append((i, "upper!=min-over-known-supersets", (hi, float(U[i]))))
    return fails

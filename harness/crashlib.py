"""C20 machinery: record the file operations of a save (in the harness process, nothing in /repo is touched) and
inject a fault at the k-th of them.

`Tracer` replaces io.open / builtins.open (pathlib.Path.open, Path.write_text, tempfile all end there) and
os.replace / os.rename (Path.replace / Path.rename end there) while active.  A writable open below the watched
directory returns the same stack io.open would build (FileIO -> BufferedWriter/Random -> TextIOWrapper, same
buffer size) made of recording subclasses, so that three levels are visible:
    user level : open, write (text or bytes handed to the file object), explicit flush, close
    kernel level: every raw write(2) with the number of bytes that reached the file  ("raw")
    directory   : replace / rename / unlink
Injectable events are numbered in the order they are entered.  When the plan's index comes up the event does not
take effect and
    mode "i": raises Interrupt (a BaseException subclass, like KeyboardInterrupt)
    mode "d": os._exit(17)  (the caller runs the save in a forked child)
    mode "m": (raw writes only) hands the first half of the bytes to the kernel, then os._exit(17)."""
from __future__ import annotations

import builtins
import gc
import io
import os
import shutil
import weakref
from pathlib import Path


class Interrupt(BaseException):
    pass


EXIT_INJECTED = 17


class Tracer:
    # (function in os, index of the argument naming the file that is modified)
    FDCALLS = [("sendfile", 0), ("copy_file_range", 1), ("write", 0), ("pwrite", 0), ("writev", 0), ("truncate", 0),
               ("ftruncate", 0), ("link", 1), ("symlink", 1)]

    def __init__(self, watch_dir: Path, plan=None, keep_bytes=True):
        self.dir = Path(os.path.realpath(watch_dir))
        self.plan = plan                # (index, mode) or None
        self.fired = False
        self.events = []                # dicts: kind, h, ... ; injectable ones carry "idx"
        self.n_inject = 0
        self.depth = {}                 # handle -> nesting ("close"/"flush"/"write" in progress)
        self.next_h = 1
        self.keep_bytes = keep_bytes
        self._saved = None
        self._files = []                # weak references to the file objects handed out

    def files(self):
        return [f for f in (r() for r in self._files) if f is not None]

    # ---- event bookkeeping
    def _event(self, kind, injectable=True, **kw):
        ev = dict(kind=kind, **kw)
        if injectable:
            self.n_inject += 1
            ev["idx"] = self.n_inject
        self.events.append(ev)
        if injectable and self.plan and not self.fired and self.plan[0] == ev["idx"]:
            self.fired = True
            ev["injected"] = self.plan[1]
            return self.plan[1]
        if injectable and self.plan and self.fired and self.plan[1] == "e" and kind == "raw":
            return "e"               # a persistent I/O error (disk full, quota): every later write(2) fails as well;
            #                          opens (which truncate) and renames still succeed, as they do on a full disk
        return None

    def _act(self, mode):
        if mode == "i":
            raise Interrupt()
        if mode == "e":
            import errno
            raise OSError(errno.ENOSPC, "No space left on device (injected)")
        if mode in ("d", "m"):
            os._exit(EXIT_INJECTED)

    def _watched(self, file) -> bool:
        try:
            if isinstance(file, int):
                file = os.readlink(f"/proc/self/fd/{file}")
            p = os.path.realpath(os.fspath(file))
        except Exception:
            return False
        return p.startswith(str(self.dir) + os.sep)

    # ---- replacements
    def _open(self, file, mode="r", buffering=-1, encoding=None, errors=None, newline=None, closefd=True, opener=None):
        writable = any(c in mode for c in "wax+")
        pre_raw = None
        if writable and opener is not None and not isinstance(file, int):
            # tempfile style: the name is chosen by the opener; open first, then look where the descriptor points
            try:
                fd = opener(os.fspath(file), os.O_RDWR)
            except TypeError:
                fd = None
            if fd is not None:
                file, opener, closefd = fd, None, True
        if not writable or not self._watched(file):
            return self._saved["open"](file, mode, buffering, encoding, errors, newline, closefd, opener)
        tr = self
        path = os.path.realpath(os.readlink(f"/proc/self/fd/{file}") if isinstance(file, int) else os.fspath(file))
        h = self.next_h
        self.next_h += 1
        act = self._event("open", path=path, mode=mode, h=h)
        if act:
            self._act(act)
        binary = "b" in mode
        rawmode = "".join(c for c in mode if c in "rwax+")

        class RecRaw(io.FileIO):
            def write(self, b):
                n = len(b)
                act = tr._event("raw", h=h, n=n, nested=tr.depth.get(h))
                if act == "m":
                    os.write(self.fileno(), bytes(b[: n // 2]))
                    tr.events[-1]["partial"] = n // 2
                    os._exit(EXIT_INJECTED)
                if act:
                    tr._act(act)
                r = super().write(b)
                if r is not None and r != n:
                    tr.events[-1]["n"] = r
                return r

        def user(kind, self_, sup, *a):
            nested = tr.depth.get(h)
            top = nested is None
            payload = {}
            if kind == "write":
                data = a[0]
                if tr.keep_bytes:
                    payload["data"] = data.encode(self_.encoding, self_.errors or "strict") if isinstance(data, str) else bytes(data)
                else:
                    payload["len"] = len(data)
            act = tr._event(kind, injectable=top, h=h, **payload) if top else tr._event(kind + "_nested", injectable=False, h=h)
            if act:
                tr._act(act)
            if top:
                tr.depth[h] = kind
            try:
                return sup(*a)
            finally:
                if top:
                    tr.depth.pop(h, None)
                    tr._event(kind + "_exit", injectable=False, h=h)

        class RecText(io.TextIOWrapper):
            def write(self, s):
                return user("write", self, super().write, s)

            def flush(self):
                return user("flush", self, super().flush)

            def close(self):
                if self.closed:
                    return super().close()
                return user("close", self, super().close)

        def mkbuf(base):
            class RecBuf(base):
                def write(self, b):
                    return user("write", self, super().write, b)

                def flush(self):
                    return user("flush", self, super().flush)

                def close(self):
                    if self.closed:
                        return super().close()
                    return user("close", self, super().close)
            return RecBuf

        raw = RecRaw(file, rawmode, closefd, opener)
        try:
            bs = os.fstat(raw.fileno()).st_blksize
        except OSError:
            bs = 0
        size = buffering if buffering and buffering > 1 else (bs if bs > 1 else io.DEFAULT_BUFFER_SIZE)
        base = io.BufferedRandom if "+" in rawmode else io.BufferedWriter
        f = mkbuf(base)(raw, size) if binary else RecText(base(raw, size), encoding=encoding, errors=errors, newline=newline)
        self._files.append(weakref.ref(f))
        return f

    def _replace(self, kind):
        def f(src, dst, *a, **k):
            if self._watched(src) or self._watched(dst):
                act = self._event(kind, src=os.path.realpath(os.fspath(src)), dst=os.path.realpath(os.fspath(dst)))
                if act:
                    self._act(act)
            return self._saved[kind](src, dst, *a, **k)
        return f

    def _unlink(self, kind):
        def f(path, *a, **k):
            if self._watched(path):
                act = self._event("unlink", path=os.path.realpath(os.fspath(path)))
                if act:
                    self._act(act)
            return self._saved[kind](path, *a, **k)
        return f

    def _fdcall(self, kind, fd_arg):
        """os-level calls that change a file without going through a file object (sendfile, os.write, truncate ...)."""
        def f(*a, **k):
            target = a[fd_arg] if len(a) > fd_arg else None
            if target is not None and self._watched(target):
                act = self._event("syscall:" + kind, target=str(target))
                if act:
                    self._act(act)
            return self._saved[kind](*a, **k)
        return f

    def _fsync(self, fd):
        self._event("fsync", injectable=False)
        return self._saved["fsync"](fd)

    def __enter__(self):
        self._saved = {"open": io.open, "bopen": builtins.open, "replace": os.replace, "rename": os.rename,
                       "unlink": os.unlink, "remove": os.remove, "fsync": os.fsync}
        io.open = self._open
        builtins.open = self._open
        os.replace = self._replace("replace")
        os.rename = self._replace("rename")
        os.unlink = self._unlink("unlink")
        os.remove = self._unlink("remove")
        os.fsync = self._fsync
        for kind, fd_arg in self.FDCALLS:
            if hasattr(os, kind):
                self._saved[kind] = getattr(os, kind)
                setattr(os, kind, self._fdcall(kind, fd_arg))
        return self

    def __exit__(self, *exc):
        io.open = self._saved["open"]
        builtins.open = self._saved["bopen"]
        os.replace = self._saved["replace"]
        os.rename = self._saved["rename"]
        os.unlink = self._saved["unlink"]
        os.remove = self._saved["remove"]
        os.fsync = self._saved["fsync"]
        for kind, _ in self.FDCALLS:
            if kind in self._saved:
                setattr(os, kind, self._saved[kind])
        return False


# ---------------------------------------------------------------- running a save under the tracer
def reset_dir(d: Path, old: bytes | None, name="data.json"):
    if d.exists():
        shutil.rmtree(d)
    d.mkdir(parents=True)
    if old is not None:
        (d / name).write_bytes(old)


def read_dir(d: Path, name="data.json"):
    p = d / name
    content = p.read_bytes() if p.exists() else None
    others = sorted(x.name for x in d.iterdir() if x.name != name)
    return content, others


def traced_save(save_fn, d: Path, plan=None, keep_bytes=True):
    """Run save_fn() (a closure calling save_json on d/data.json) in this process.  Returns (tracer, outcome)."""
    tr = Tracer(d, plan, keep_bytes)
    outcome = "completed"
    with tr:
        try:
            save_fn()
        except Interrupt:
            outcome = "interrupted"
        except BaseException as e:   # the save failed on its own
            outcome = f"raised {type(e).__name__}: {e}"
    if any(not f.closed for f in tr.files()):
        gc.collect()                 # finalise file objects left open by an interrupted close() (normally refcounting did it)
    return tr, outcome


def forked_save(save_fn, d: Path, plan):
    """Run save_fn() in a forked child that dies at the planned event.  Returns the child's exit status."""
    pid = os.fork()
    if pid == 0:
        code = 0
        try:
            tr = Tracer(d, plan, keep_bytes=False)
            with tr:
                save_fn()
            code = 0 if not tr.fired else 3
        except BaseException:
            code = 4
        finally:
            os._exit(code)          # no interpreter shutdown, no buffer flush: like a kill
    _, status = os.waitpid(pid, 0)
    return os.waitstatus_to_exitcode(status)


# ---------------------------------------------------------------- events -> model operations
def model_trace(events, target: str, selected=None):
    """Translate recorded events into Crash.v operations.
    Close / explicit Flush are placed where the call returns, after the raw writes it performed.
    User writes that are not in `selected` (a set of event idx; None = all) are merged into the preceding write:
    a coarser chunking of the same byte stream, which the theorems quantify over anyway.
    Returns (ops, kmap, paths): ops = list of token lists, kmap[idx] = number of model ops before event idx."""
    paths = {target: 1}
    ops, kmap = [], {}
    foreign = []

    def pid(p):
        if p not in paths:
            paths[p] = len(paths) + 1
        return paths[p]

    for ev in events:
        k = ev["kind"]
        if "idx" in ev:
            kmap[ev["idx"]] = len(ops)
        if k == "open":
            trunc = "w" in ev["mode"]
            if ev["path"] == target:
                ops.append(["ot" if trunc else "o?" + ev["mode"], str(ev["h"]), "1"])
            else:
                ops.append(["om" if trunc else "o?" + ev["mode"], str(ev["h"]), str(pid(ev["path"]))])
        elif k == "write":
            sel = selected is None or ev["idx"] in selected
            if (not sel) and ops and ops[-1][0] == "w" and ops[-1][1] == str(ev["h"]):
                ops[-1][2].append(ev["data"])
            else:
                ops.append(["w", str(ev["h"]), [ev["data"]]])
        elif k == "raw":
            ops.append(["sp", str(ev["h"]), str(ev["n"])])
        elif k == "flush_exit":
            ops.append(["fl", str(ev["h"])])
        elif k == "close_exit":
            ops.append(["cl", str(ev["h"])])
        elif k in ("replace", "rename"):
            ops.append(["rp", str(pid(ev["src"])), str(pid(ev["dst"]))])
        elif k == "unlink":
            ops.append(["ul", str(pid(ev["path"]))])
        elif k.startswith("syscall:"):
            ops.append([k, ev["target"]])
    return ops, kmap, paths


def op_tokens(op) -> str:
    if op[0] == "w":
        b = b"".join(op[2])
        return f"w {op[1]} {b.hex() if b else '-'}"
    return " ".join(op)


BODY_KINDS = ("w", "sp", "fl")


def split_trace(ops):
    i = 0
    while i < len(ops) and ops[i][0] not in BODY_KINDS:
        i += 1
    j = len(ops)
    while j > i and ops[j - 1][0] not in BODY_KINDS:
        j -= 1
    return ops[:i], ops[i:j], ops[j:]


def identify_scheme(ops):
    """From the shape of the recorded operations: 'noop', 'inplace', 'atomic' or 'unknown' (+ handle, tmp path id)."""
    if not ops:
        return "noop", 0, 0
    pre, body, post = split_trace(ops)
    kinds = lambda l: [o[0] for o in l]
    if any(o[0] not in ("ot", "om", "w", "sp", "fl", "cl", "rp") for o in ops):
        return "unknown", 0, 0
    if kinds(pre) == ["ot"] and kinds(post) == ["cl"] and post[0][1] == pre[0][1]:
        return "inplace", int(pre[0][1]), 0
    if (kinds(pre) == ["om"] and kinds(post) == ["cl", "rp"] and post[0][1] == pre[0][1]
            and post[1][1] == pre[0][2] and post[1][2] == "1"):
        return "atomic", int(pre[0][1]), int(pre[0][2])
    return "unknown", 0, 0

"""Translator step run by setup.sh and by the checks: regenerate every generated Coq file from the repository under test.
All logic lives in the per-translator modules; this file only chains them."""


def regen_all():
    import registry_dump
    registry_dump.regen_registry()

"""Translator (C18 tie): regenerate coq/theories/gen/CoalitionGen.v from the repository's coalitions.py.

Python `ast` based and FAIL-CLOSED: every construct outside the small grammar below raises TranslateError, so the
check that called us reports a broken obligation instead of silently proving something about stale definitions.

What is translated: the one-expression methods / functions of `incomplete_cooperative/coalitions.py`, one Coq
definition over `Z` (Python ints are unbounded) per method and per `isinstance` branch.  A `Coalition` object is
represented by its `id` (a `Z`), a `Player` / `int` by a `Z`, a `bool` by `bool`.

Grammar (anything else => TranslateError):
  body   ::= [docstring] stmt*
  stmt   ::= `if isinstance(NAME, TYPE): block [elif isinstance(...): block]* [else: block]`   (resolved statically
             from the kind the entry is instantiated at; TYPE in {Coalition, Player, int, Game})
           | `NAME = expr` | `return expr` | `raise ...` (=> that instantiation does not exist)
  expr   ::= NAME | INT | expr.id | Coalition(expr) | bool(expr) | f(expr, ...) for f a translated module function
           | expr OP expr  on ints: & | ^ - + << >> and `2 ** e`
           | expr OP expr  with a Coalition on the left: dispatch to Coalition.__and__/__or__/__sub__/__add__ (inlined)
           | ~expr | expr == expr (ints: Z.eqb; Coalitions: dispatch to __eq__, Coalition branch)
  exclude_coalition: `return (x for x in ITER if COND)`; COND is translated (the kept-predicate).
Mapping: & -> Z.land, | -> Z.lor, ^ -> Z.lxor, ~ -> Z.lnot, 2**k -> 2 ^ k, == -> Z.eqb, - -> Z.sub, + -> Z.add,
<< -> Z.shiftl, >> -> Z.shiftr.
"""
from __future__ import annotations

import ast
import os
from pathlib import Path

import common

GEN_DIR = common.COQ / "theories" / "gen"
SRC_REL = Path("incomplete_cooperative") / "coalitions.py"
PROTO_REL = Path("incomplete_cooperative") / "protocols.py"

C, I, B, G = "coalition", "int", "bool", "game"
TYPE_KINDS = {"Coalition": C, "Player": I, "int": I, "Game": G}
COQ_KEYWORDS = {"in", "at", "as", "end", "fun", "match", "if", "then", "else", "let", "return", "with", "forall",
                "exists", "Type", "Prop", "Set", "fix", "cofix", "for", "using", "where", "struct", "id"}

# (coq name, class or None, function, [(python parameter, kind)])  -- the instantiations that are emitted
ENTRIES = [
    ("gen_contains", "Coalition", "__contains__", [("self", C), ("other", C)]),
    ("gen_contains_player", "Coalition", "__contains__", [("self", C), ("other", I)]),
    ("gen_and", "Coalition", "__and__", [("self", C), ("other", C)]),
    ("gen_and_player", "Coalition", "__and__", [("self", C), ("other", I)]),
    ("gen_or", "Coalition", "__or__", [("self", C), ("other", C)]),
    ("gen_or_player", "Coalition", "__or__", [("self", C), ("other", I)]),
    ("gen_sub", "Coalition", "__sub__", [("self", C), ("other", C)]),
    ("gen_sub_player", "Coalition", "__sub__", [("self", C), ("other", I)]),
    ("gen_add", "Coalition", "__add__", [("self", C), ("other", I)]),
    ("gen_eq", "Coalition", "__eq__", [("self", C), ("other", C)]),
    ("gen_inverted", "Coalition", "inverted", [("self", C), ("number_of_players", I)]),
    ("gen_player_to_coalition", None, "player_to_coalition", [("player", I)]),
    ("gen_grand", None, "grand_coalition", [("players", I)]),
    ("gen_disjoint", None, "disjoint_coalitions", [("coalition1", C), ("coalition2", C)]),
]
EXCLUDE_ENTRY = "gen_exclude_keep"      # predicate of exclude_coalition: (coalition, exclude) -> bool
INLINABLE = {"player_to_coalition", "grand_coalition"}
DUNDER = {ast.BitAnd: "__and__", ast.BitOr: "__or__", ast.Sub: "__sub__", ast.Add: "__add__"}
INT_OPS = {ast.BitAnd: "Z.land", ast.BitOr: "Z.lor", ast.BitXor: "Z.lxor", ast.Sub: "Z.sub", ast.Add: "Z.add",
           ast.LShift: "Z.shiftl", ast.RShift: "Z.shiftr"}


class TranslateError(Exception):
    pass


def _fail(node, msg):
    line = getattr(node, "lineno", "?")
    raise TranslateError(f"coalitions.py:{line}: outside the translated grammar: {msg}")


class Module:
    def __init__(self, src: str):
        self.tree = ast.parse(src)
        self.funcs: dict[str, ast.FunctionDef] = {}
        self.methods: dict[str, ast.FunctionDef] = {}
        for node in self.tree.body:
            if isinstance(node, ast.FunctionDef):
                self.funcs[node.name] = node
            elif isinstance(node, ast.ClassDef) and node.name == "Coalition":
                for m in node.body:
                    if isinstance(m, ast.FunctionDef):
                        self.methods[m.name] = m
        if not self.methods:
            raise TranslateError("class Coalition not found")
        self._check_init()
        self.depth = 0

    def _check_init(self):
        """Coalition(x) must store x in .id and nothing else (the representation the translation relies on)."""
        f = self.methods.get("__init__")
        if f is None:
            raise TranslateError("Coalition.__init__ not found")
        params = [a.arg for a in f.args.args]
        body = [s for s in f.body if not _is_docstring(s)]
        ok = (len(params) == 2 and len(body) == 1 and isinstance(body[0], ast.Assign)
              and len(body[0].targets) == 1 and isinstance(body[0].targets[0], ast.Attribute)
              and isinstance(body[0].targets[0].value, ast.Name) and body[0].targets[0].value.id == params[0]
              and body[0].targets[0].attr == "id"
              and isinstance(body[0].value, ast.Name) and body[0].value.id == params[1])
        if not ok:
            _fail(f, "Coalition.__init__ is not `self.id = id`")

    # ---------------------------------------------------------------- functions
    def call(self, cls, name, args, node=None):
        """Symbolically run function `name` on args [(kind, coq term)]; returns (kind, coq term)."""
        f = (self.methods if cls else self.funcs).get(name)
        if f is None:
            _fail(node, f"{'Coalition.' if cls else ''}{name} is not defined")
        if f.args.vararg or f.args.kwarg or f.args.kwonlyargs or f.args.posonlyargs:
            _fail(f, "unsupported parameter list")
        for d in f.decorator_list:
            _fail(f, "decorated function")
        params = [a.arg for a in f.args.args]
        if len(params) != len(args):
            _fail(node or f, f"{name} called with {len(args)} arguments, takes {len(params)}")
        self.depth += 1
        if self.depth > 12:
            _fail(f, "inlining too deep (recursion?)")
        env = dict(zip(params, args))
        res = self.block(f.body, env)
        self.depth -= 1
        if res is None:
            _fail(f, f"{name} can fall off its end without returning")
        return res

    def block(self, stmts, env):
        for s in stmts:
            if _is_docstring(s):
                continue
            if isinstance(s, ast.Return):
                if s.value is None:
                    _fail(s, "bare return")
                return self.expr(s.value, env)
            if isinstance(s, ast.Assign):
                if len(s.targets) != 1 or not isinstance(s.targets[0], ast.Name):
                    _fail(s, "assignment target")
                env[s.targets[0].id] = self.expr(s.value, env)
                continue
            if isinstance(s, ast.If):
                taken = s.body if self.isinstance_test(s.test, env) else s.orelse
                r = self.block(taken, env)
                if r is not None:
                    return r
                continue
            if isinstance(s, ast.Raise):
                _fail(s, "this instantiation raises in the source")
            _fail(s, f"statement {type(s).__name__}")
        return None

    def isinstance_test(self, t, env) -> bool:
        if not (isinstance(t, ast.Call) and isinstance(t.func, ast.Name) and t.func.id == "isinstance"
                and len(t.args) == 2 and not t.keywords and isinstance(t.args[0], ast.Name)
                and isinstance(t.args[1], ast.Name)):
            _fail(t, "if-condition is not `isinstance(NAME, TYPE)`")
        var, ty = t.args[0].id, t.args[1].id
        if var not in env:
            _fail(t, f"unknown variable {var}")
        if ty not in TYPE_KINDS:
            _fail(t, f"isinstance against unknown type {ty}")
        return env[var][0] == TYPE_KINDS[ty]

    # ---------------------------------------------------------------- expressions
    def expr(self, e, env):
        if isinstance(e, ast.Name):
            if e.id not in env:
                _fail(e, f"free variable {e.id}")
            return env[e.id]
        if isinstance(e, ast.Constant):
            if type(e.value) is int and e.value >= 0:
                return (I, str(e.value))
            _fail(e, f"constant {e.value!r}")
        if isinstance(e, ast.Attribute):
            k, t = self.expr(e.value, env)
            if k == C and e.attr == "id":
                return (I, t)
            _fail(e, f"attribute .{e.attr} of a {k}")
        if isinstance(e, ast.Call):
            if e.keywords or not isinstance(e.func, ast.Name):
                _fail(e, "call form")
            fn = e.func.id
            args = [self.expr(a, env) for a in e.args]
            if fn == "Coalition":
                if len(args) == 1 and args[0][0] == I:
                    return (C, args[0][1])
                _fail(e, "Coalition(...) of a non-int")
            if fn == "bool":
                if len(args) == 1 and args[0][0] == B:
                    return args[0]
                _fail(e, "bool(...) of a non-comparison")
            if fn in INLINABLE:
                return self.call(None, fn, args, e)
            _fail(e, f"call of {fn}")
        if isinstance(e, ast.UnaryOp):
            k, t = self.expr(e.operand, env)
            if isinstance(e.op, ast.Invert) and k == I:
                return (I, f"(Z.lnot {t})")
            _fail(e, f"unary {type(e.op).__name__} on {k}")
        if isinstance(e, ast.BinOp):
            if isinstance(e.op, ast.Pow):
                if isinstance(e.left, ast.Constant) and e.left.value == 2 and type(e.left.value) is int:
                    k, t = self.expr(e.right, env)
                    if k == I:
                        return (I, f"(2 ^ {t})")
                _fail(e, "power other than 2 ** int")
            lk, lt = left = self.expr(e.left, env)
            rk, rt = right = self.expr(e.right, env)
            if lk == C:
                m = DUNDER.get(type(e.op))
                if m is None:
                    _fail(e, f"operator {type(e.op).__name__} on a Coalition")
                return self.call("Coalition", m, [left, right], e)
            if lk == I and rk == I and type(e.op) in INT_OPS:
                return (I, f"({INT_OPS[type(e.op)]} {lt} {rt})")
            _fail(e, f"operator {type(e.op).__name__} on {lk}, {rk}")
        if isinstance(e, ast.Compare):
            if len(e.ops) != 1 or not isinstance(e.ops[0], ast.Eq):
                _fail(e, "comparison other than a single ==")
            lk, lt = left = self.expr(e.left, env)
            rk, rt = right = self.expr(e.comparators[0], env)
            if lk == C:
                return self.call("Coalition", "__eq__", [left, right], e)
            if lk == I and rk == I:
                return (B, f"(Z.eqb {lt} {rt})")
            _fail(e, f"== on {lk}, {rk}")
        _fail(e, f"expression {type(e).__name__}")

    # ---------------------------------------------------------------- exclude_coalition
    def exclude_predicate(self):
        f = self.funcs.get("exclude_coalition")
        if f is None:
            raise TranslateError("exclude_coalition not found")
        params = [a.arg for a in f.args.args]
        body = [s for s in f.body if not _is_docstring(s)]
        if len(params) != 2 or len(body) != 1 or not isinstance(body[0], ast.Return):
            _fail(f, "exclude_coalition shape")
        g = body[0].value
        if not (isinstance(g, ast.GeneratorExp) and len(g.generators) == 1):
            _fail(f, "exclude_coalition does not return a single generator expression")
        comp = g.generators[0]
        if not (isinstance(comp.target, ast.Name) and isinstance(g.elt, ast.Name) and g.elt.id == comp.target.id
                and isinstance(comp.iter, ast.Name) and comp.iter.id == params[1] and len(comp.ifs) == 1
                and not comp.is_async):
            _fail(g, "generator is not `(x for x in coalitions if COND)`")
        x = comp.target.id
        names = [x, params[0]]
        env = {x: (C, coq_ident(x)), params[0]: (C, coq_ident(params[0]))}
        k, t = self.expr(comp.ifs[0], env)
        if k != B:
            _fail(comp.ifs[0], "filter condition is not a comparison")
        return names, t


def _is_docstring(s) -> bool:
    return isinstance(s, ast.Expr) and isinstance(s.value, ast.Constant) and isinstance(s.value.value, str)


def coq_ident(name: str) -> str:
    if not name.isidentifier():
        raise TranslateError(f"bad identifier {name!r}")
    return name + "_" if name in COQ_KEYWORDS else name


def check_player_alias(repo: Path) -> None:
    """`Player` must be an alias of `int` (the kind table above relies on it)."""
    tree = ast.parse((repo / PROTO_REL).read_text())
    for node in tree.body:
        if isinstance(node, ast.AnnAssign) and isinstance(node.target, ast.Name) and node.target.id == "Player":
            if isinstance(node.value, ast.Name) and node.value.id == "int":
                return
        if isinstance(node, ast.Assign) and any(isinstance(t, ast.Name) and t.id == "Player" for t in node.targets):
            if isinstance(node.value, ast.Name) and node.value.id == "int":
                return
    raise TranslateError("protocols.py: Player is not an alias of int")


def translate(repo: Path | None = None) -> str:
    repo = Path(repo) if repo is not None else common.REPO
    check_player_alias(repo)
    mod = Module((repo / SRC_REL).read_text())
    out = ["(* GENERATED on every run by harness/translate.py from incomplete_cooperative/coalitions.py - do not edit.",
           "   One definition per one-expression method and per isinstance branch; a Coalition is its id : Z. *)",
           "From Coq Require Import ZArith.", "Local Open Scope Z_scope.", ""]
    for (name, cls, fn, params) in ENTRIES:
        f = (mod.methods if cls else mod.funcs).get(fn)
        if f is None:
            raise TranslateError(f"{cls + '.' if cls else ''}{fn} not found")
        pyparams = [a.arg for a in f.args.args]
        if len(pyparams) != len(params):
            _fail(f, f"{fn} takes {len(pyparams)} parameters, expected {len(params)}")
        # parameters are taken positionally (renaming a parameter is harmless), kinds from the table
        args = [(k, coq_ident(p)) for p, (_, k) in zip(pyparams, params)]
        mod.depth = 0
        kind, term = mod.call(cls, fn, args)
        ty = "bool" if kind == B else "Z"
        if kind == G:
            _fail(f, "result is a game")
        binders = " ".join(coq_ident(p) for p in pyparams)
        out.append(f"(* {cls + '.' if cls else ''}{fn}  [{', '.join(k for _, k in params)}] *)")
        out.append(f"Definition {name} ({binders} : Z) : {ty} := {term}.")
        out.append("")
    names, term = mod.exclude_predicate()
    out.append("(* exclude_coalition keeps `coalition` iff this holds *)")
    out.append(f"Definition {EXCLUDE_ENTRY} ({' '.join(coq_ident(n) for n in names)} : Z) : bool := {term}.")
    out.append("")
    return "\n".join(out)


def write_if_changed(path: Path, txt: str) -> bool:
    if path.exists() and path.read_text() == txt:
        return False
    path.parent.mkdir(parents=True, exist_ok=True)
    tmp = path.with_suffix(f".tmp{os.getpid()}")
    tmp.write_text(txt)
    os.replace(tmp, path)
    return True


def regen_coalitions(repo: Path | None = None) -> bool:
    """Regenerate gen/CoalitionGen.v (rewritten only when its text changes, so an unchanged source costs no rebuild).
    A translation failure propagates: check.py records it as a broken obligation and setup.py aborts.  The previous
    file is left in place in that case (the shared build serves other properties too); nothing is claimed from it."""
    return write_if_changed(GEN_DIR / "CoalitionGen.v", translate(repo))


def regen_all() -> None:
    regen_coalitions()
    import translate_ids          # id-array side (coalition_ids.py -> gen/CoalitionIdsGen.v)
    translate_ids.regen_coalition_ids()
    import registry_dump
    registry_dump.regen_registry()


if __name__ == "__main__":
    print(translate())

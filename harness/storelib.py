"""Shared by props/c19.py and props/c20.py: token encoders for the Store/Crash driver commands, spec-driven
generators of Output objects (a spec is JSON-able, so a violation's replay file can rebuild the exact case),
NaN-aware comparison helpers."""
from __future__ import annotations

import functools
import hashlib
import json
import math
from argparse import Namespace
from pathlib import Path

import numpy as np

from common import qtok


# ---------------------------------------------------------------- tokens
def str_tok(s) -> str:
    b = s.encode("utf-8", "surrogatepass") if isinstance(s, str) else bytes(s)     # lone surrogates (surrogateescape'd paths) allowed
    return b.hex() if b else "-"


def tok_str(t: str) -> str:
    return "" if t == "-" else bytes.fromhex(t).decode("utf-8", "surrogatepass")


class Unsupported(Exception):
    pass


def num_tok(x) -> str:
    """Infinities are outside the model: they get a token the driver rejects; callers that feed the driver check has_inf."""
    if isinstance(x, float):
        if math.isnan(x):
            return "nan"
        if math.isinf(x):
            return "inf" if x > 0 else "-inf"
    return "n " + qtok(x)


def has_inf(tokens: str) -> bool:
    t = tokens.split()
    return "inf" in t or "-inf" in t


def jv_tok(x) -> str:
    """Parsed JSON (result of json.loads) -> jv tokens."""
    if x is None:
        return "z"
    if x is True:
        return "t"
    if x is False:
        return "f"
    if isinstance(x, (int, float)):
        return num_tok(x)
    if isinstance(x, str):
        return "s " + str_tok(x)
    if isinstance(x, list):
        return " ".join([f"l {len(x)}"] + [jv_tok(y) for y in x])
    if isinstance(x, dict):
        return " ".join([f"o {len(x)}"] + [str_tok(k) + " " + jv_tok(v) for k, v in x.items()])
    raise Unsupported(f"not a JSON value: {type(x)}")


def meta_tok(x) -> str:
    """A Python value found in a Namespace -> meta tokens, following json's own dispatch order
    (str, None, bool, int, float, list/tuple, dict, otherwise default=json_serializer: Path -> str, else repr)."""
    if isinstance(x, str):
        return "s " + str_tok(x)
    if x is None:
        return "z"
    if x is True:
        return "t"
    if x is False:
        return "f"
    if isinstance(x, int):
        return num_tok(int(x))
    if isinstance(x, float):
        return num_tok(float(x))
    if isinstance(x, (list, tuple)):
        return " ".join([f"l {len(x)}"] + [meta_tok(y) for y in x])
    if isinstance(x, dict):
        for k in x:
            if not isinstance(k, str):
                raise Unsupported("non-str dict key")
        return " ".join([f"o {len(x)}"] + [str_tok(k) + " " + meta_tok(v) for k, v in x.items()])
    if isinstance(x, Path):
        return "p " + str_tok(str(x))
    return "r " + str_tok(repr(x))


def cell_tok(x) -> str:
    x = x.item() if hasattr(x, "item") else x
    if isinstance(x, float) and math.isnan(x):
        return "nan"
    if isinstance(x, float) and math.isinf(x):
        return "inf" if x > 0 else "-inf"
    return qtok(x)


def arr_tok(a: np.ndarray) -> str:
    flat = a.reshape(-1).tolist() if a.size else []
    return " ".join([str(a.ndim)] + [str(d) for d in a.shape] + [str(len(flat))] + [cell_tok(x) for x in flat])


def args_tok(ns: Namespace) -> str:
    d = vars(ns)
    parts = [str(len(d))]
    for k, v in d.items():
        # the code looks at repr(func) only; every other value goes through json
        parts.append(str_tok(k) + " " + ("r " + str_tok(repr(v)) if k == "func" else meta_tok(v)))
    return " ".join(parts)


def output_tok(out) -> str:
    return arr_tok(out.data) + " " + arr_tok(out.actions) + " " + args_tok(out.parsed_args)


def store_tok(parsed: dict) -> str:
    return " ".join([str(len(parsed))] + [str_tok(k) + " " + jv_tok(v) for k, v in parsed.items()])


def digest(b) -> str:
    if b is None:
        return "absent"
    return f"{len(b)}:{hashlib.md5(b).hexdigest()}"


# ---------------------------------------------------------------- NaN-aware structural equality of parsed JSON
def json_same(a, b, ordered=True) -> bool:
    """Equality of parsed JSON values including the int/float distinction and NaN == NaN; key order of objects
    matters unless ordered=False."""
    if type(a) is not type(b):
        return False
    if isinstance(a, float):
        return (math.isnan(a) and math.isnan(b)) or (a == b and math.copysign(1, a) == math.copysign(1, b))
    if isinstance(a, list):
        return len(a) == len(b) and all(json_same(x, y, ordered) for x, y in zip(a, b))
    if isinstance(a, dict):
        same_keys = list(a.keys()) == list(b.keys()) if ordered else sorted(a.keys()) == sorted(b.keys())
        return same_keys and all(json_same(a[k], b[k], ordered) for k in a)
    return a == b


def stringify(x):
    """The property's 'metadata up to JSON stringification', written independently of json_serializer."""
    if isinstance(x, (str, type(None), bool)):
        return x
    if isinstance(x, int):
        return int(x)
    if isinstance(x, float):
        return float(x)
    if isinstance(x, (list, tuple)):
        return [stringify(y) for y in x]
    if isinstance(x, dict):
        return {k: stringify(v) for k, v in x.items()}
    if isinstance(x, Path):
        return str(x)
    return repr(x)


def expected_metadata(ns):
    """What the property promises to find as metadata, computed from the Namespace itself (not through
    Output.metadata, which is code under test): every argument except func, stringified, plus run_type."""
    d = dict(vars(ns))
    func = d.pop("func")
    d["run_type"] = "eval" if "eval" in repr(func) else "learn"
    return stringify(d)


# ---------------------------------------------------------------- spec-driven objects
def fn_eval_like(*a, **k):  # repr contains "eval"
    return None


def fn_learn_like(*a, **k):
    return None


def solve_func_standin(*a, **k):
    return None


class Opaque:
    """An object json cannot serialise; its repr is deterministic."""

    def __init__(self, tag):
        self.tag = tag

    def __repr__(self):
        return f"Opaque<{self.tag}>"


CALLABLES = {"fn_eval_like": fn_eval_like, "fn_learn_like": fn_learn_like, "solve_func_standin": solve_func_standin}


def build_value(spec):
    k = spec[0]
    if k == "int":
        return int(spec[1])
    if k == "float":
        return float.fromhex(spec[1]) if spec[1] != "nan" else float("nan")
    if k in ("str", "bool"):
        return spec[1]
    if k == "none":
        return None
    if k == "path":
        return Path(spec[1])
    if k == "tuple":
        return tuple(build_value(s) for s in spec[1])
    if k == "list":
        return [build_value(s) for s in spec[1]]
    if k == "dict":
        return {kk: build_value(s) for kk, s in spec[1]}
    if k == "callable":
        return CALLABLES[spec[1]]
    if k == "partial":
        return functools.partial(CALLABLES[spec[1]], randomize=True)
    if k == "opaque":
        return Opaque(spec[1])
    if k == "npint":
        return np.int64(spec[1])
    if k == "npfloat":
        return np.float64(float.fromhex(spec[1]))
    raise ValueError(spec)


def build_array(spec) -> np.ndarray:
    """spec = {"shape": [...], "dtype": "float"|"int", "cells": [hex float | "nan" | int]}"""
    shape = tuple(spec["shape"])
    if spec["dtype"] == "int":
        return np.array(spec["cells"], dtype=np.int64).reshape(shape)
    cells = [float("nan") if c == "nan" else float.fromhex(c) for c in spec["cells"]]
    return np.array(cells, dtype=np.float64).reshape(shape)


def build_output(spec):
    from incomplete_cooperative.run.save import Output
    ns = Namespace(**{k: build_value(v) for k, v in spec["args"]})
    return Output(build_array(spec["data"]), build_array(spec["actions"]), ns)


# ---------------------------------------------------------------- generators (rng = random.Random)
SPECIAL = [0.0, -0.0, 1.0, -1.0, 0.5, -2.75, 1e300, -1e300, 1.7976931348623157e308, 5e-324, 2.2250738585072014e-308,
           9007199254740993.0, 0.1, -0.3, 1 / 3, 123456789.125, 1e-17, 2.0 ** 70]


def gen_float(rng, cls):
    if cls == "smallint":
        return float(rng.randint(-9, 40))
    if cls == "dyadic":
        return rng.randint(-2 ** 20, 2 ** 20) / 1024.0
    if cls == "large":
        return rng.choice([1, -1]) * rng.random() * 10.0 ** rng.randint(15, 300)
    if cls == "tiny":
        return rng.choice([1, -1]) * rng.random() * 10.0 ** -rng.randint(15, 300)
    if cls == "special":
        return rng.choice(SPECIAL)
    return rng.choice([1, -1]) * rng.random() * 10.0 ** rng.randint(-3, 6)   # "double"


def gen_shape(rng, rank=None, zero_dim=False):
    rank = rank or rng.choice([2, 2, 2, 3, 3, 1])
    shape = [rng.randint(1, 5) for _ in range(rank)]
    if zero_dim:
        shape[rng.randrange(rank)] = 0
    return shape


def gen_array_spec(rng, role, zero_dim=False, big=0):
    """role 'data' (exploitabilities: floats) or 'actions' (coalition ids, int or float with NaN padding)."""
    shape = gen_shape(rng, zero_dim=zero_dim)
    if big:
        shape = [big, rng.randint(2, 6)]
    n = 1
    for d in shape:
        n *= d
    if role == "actions" and rng.random() < 0.3:
        return {"shape": shape, "dtype": "int", "cells": [rng.randint(0, 63) for _ in range(n)]}
    cls = rng.choice(["smallint", "dyadic", "double", "double", "large", "tiny", "special", "mixed"])
    cells = []
    for _ in range(n):
        c = rng.choice(["smallint", "dyadic", "double", "large", "tiny", "special"]) if cls == "mixed" else cls
        cells.append(gen_float(rng, c))
    pad = rng.choice(["none", "tail", "random", "all"] if role == "actions" else ["none", "none", "random"])
    last = shape[-1] if shape else 1
    for i in range(n):
        if pad == "tail" and last and (i % last) > ((i // last) % (last + 1)):      # row r keeps its first r+1 cells
            cells[i] = float("nan")
        elif pad == "random" and rng.random() < 0.25:
            cells[i] = float("nan")
        elif pad == "all":
            cells[i] = float("nan")
    return {"shape": shape, "dtype": "float",
            "cells": ["nan" if (isinstance(c, float) and math.isnan(c)) else float(c).hex() for c in cells]}


KEYS = ["number_of_players", "game_generator", "model_dir", "seed", "gamma", "solver", "steps", "linear", "tag",
        "extractor", "limits", "nested", "ünïcode key", "run_type", "note"]
STRS = ["factory", "", "eval", "with space", "quote\"back\\slash", "ünïcode ✓", "line\nbreak", "superadditive", "dir/mod\udce8les"]


def gen_value_spec(rng, depth=0):
    kinds = ["int", "float", "str", "bool", "none", "path", "callable", "opaque", "npint", "npfloat", "partial"]
    if depth < 2:
        kinds += ["tuple", "list", "dict", "tuple"]
    k = rng.choice(kinds)
    if k == "int":
        return ["int", rng.choice([0, 1, -7, 42, 2 ** 40, rng.randint(-1000, 1000)])]
    if k in ("float", "npfloat"):
        x = gen_float(rng, rng.choice(["smallint", "dyadic", "double", "large", "special"]))
        if k == "float" and rng.random() < 0.1:
            return ["float", "nan"]
        return [k, float(x).hex()]
    if k == "str":
        return ["str", rng.choice(STRS)]
    if k == "bool":
        return ["bool", rng.random() < 0.5]
    if k == "none":
        return ["none"]
    if k == "path":
        return ["path", rng.choice(["/x/y/z", ".", "rel/dir", "/tmp/mödel dir"])]
    if k in ("callable", "partial"):
        return [k, rng.choice(sorted(CALLABLES))]
    if k == "opaque":
        return ["opaque", rng.choice(["a", "eval", "z9"])]
    if k == "npint":
        return ["npint", rng.randint(-5, 99)]
    if k in ("tuple", "list"):
        return [k, [gen_value_spec(rng, depth + 1) for _ in range(rng.randint(0, 3))]]
    return ["dict", [[kk, gen_value_spec(rng, depth + 1)] for kk in rng.sample(KEYS, rng.randint(0, 3))]]


def gen_args_spec(rng, with_func=True):
    keys = rng.sample(KEYS, rng.randint(0, 6))
    args = [[k, gen_value_spec(rng)] for k in keys]
    if with_func:
        f = rng.choice([["callable", "fn_eval_like"], ["callable", "fn_learn_like"], ["callable", "solve_func_standin"],
                        ["partial", "fn_learn_like"], ["partial", "fn_eval_like"], ["str", "eval"], ["str", "foobar"],
                        ["opaque", "eval"], ["none"]])
        args.insert(rng.randint(0, len(args)), ["func", f])
    return args


def gen_output_spec(rng, zero_dim=False, with_func=True, big=0):
    return {"data": gen_array_spec(rng, "data", zero_dim=zero_dim and rng.random() < 0.5, big=big),
            "actions": gen_array_spec(rng, "actions", zero_dim=zero_dim, big=big),
            "args": gen_args_spec(rng, with_func)}


# run names: ordinary ones, awkward ones, and names that also occur INSIDE a stored entry as keys or values ("metadata",
# "data", "actions", "run_type", argument names) or that are prefixes / fragments of other names or of the JSON text itself
NAMES = ["run", "asdf", "2026-09-30T12:00:00", "ünï", "a b", "", "x" * 40, "data", "q\"uote",
         "metadata", "actions", "run_type", "ru", "run2", "eval", "NaN", "null", "{}", "\": {", "run\": {\"data",
         "mod\udce8les"]          # a name as Python decodes a non-UTF-8 command-line argument (surrogateescape)


def gen_history_spec(rng, length=None, zero_dim_rate=0.0, nofunc_rate=0.0):
    length = length or rng.randint(1, 8)
    pool = rng.sample(NAMES, rng.randint(1, min(len(NAMES), max(1, length))))
    hist = []
    for _ in range(length):
        name = rng.choice(pool) if hist and rng.random() < 0.55 else rng.choice(NAMES)
        hist.append({"name": name, "out": gen_output_spec(rng, zero_dim=rng.random() < zero_dim_rate,
                                                           with_func=rng.random() >= nofunc_rate)})
    return hist


def read_parsed(path: Path):
    return json.loads(path.read_text()) if path.exists() else None


# ---------------------------------------------------------------- in-Coq shard (thorough tier): tokens -> Coq terms
# A sample of the cases sent to the extracted OCaml model is also written as Coq Examples
#   Example shard_i : <model function applied to the case> = <what the driver answered>. Proof. vm_compute. reflexivity. Qed.
# and compiled with coqc: if it compiles, extraction + driver printing agree with evaluation inside Coq on that shard.
def coq_str(tok: str) -> str:
    b = b"" if tok == "-" else bytes.fromhex(tok)
    return "[" + "; ".join(str(x) for x in b) + "]%N" if b else "(@nil N)"


def coq_q(tok: str) -> str:
    num, _, den = tok.partition("/")
    neg = num.startswith("-")
    n = int(num.lstrip("-"), 16)
    d = int(den, 16) if den else 1
    return f"(Qmake ({'-' if neg and n else ''}{n})%Z {d}%positive)"


class _Toks:
    def __init__(self, s):
        self.t = s.split()
        self.i = 0

    def next(self):
        x = self.t[self.i]
        self.i += 1
        return x

    def done(self):
        return self.i >= len(self.t)


def _coq_list(items, ty=None):
    if not items:
        return f"(@nil {ty})" if ty else "[]"
    return "[" + "; ".join(items) + "]"


def coq_jv(t: _Toks) -> str:
    k = t.next()
    if k == "n":
        return f"(St_JNum {coq_q(t.next())})"
    if k == "nan":
        return "St_JNaN"
    if k == "s":
        return f"(St_JStr {coq_str(t.next())})"
    if k in ("t", "f"):
        return f"(St_JBool {'true' if k == 't' else 'false'})"
    if k == "z":
        return "St_JNull"
    if k == "l":
        n = int(t.next())
        return f"(St_JList {_coq_list([coq_jv(t) for _ in range(n)], 'st_jv')})"
    if k == "o":
        n = int(t.next())
        items = []
        for _ in range(n):
            key = coq_str(t.next())
            items.append(f"({key}, {coq_jv(t)})")
        return f"(St_JObj {_coq_list(items, '(st_str * st_jv)')})"
    raise ValueError(k)


def coq_meta(t: _Toks) -> str:
    k = t.next()
    if k == "n":
        return f"(St_MNum {coq_q(t.next())})"
    if k == "nan":
        return "St_MNaN"
    if k == "s":
        return f"(St_MStr {coq_str(t.next())})"
    if k in ("t", "f"):
        return f"(St_MBool {'true' if k == 't' else 'false'})"
    if k == "z":
        return "St_MNull"
    if k == "l":
        n = int(t.next())
        return f"(St_MList {_coq_list([coq_meta(t) for _ in range(n)], 'st_meta')})"
    if k == "o":
        n = int(t.next())
        items = []
        for _ in range(n):
            key = coq_str(t.next())
            items.append(f"({key}, {coq_meta(t)})")
        return f"(St_MDict {_coq_list(items, '(st_str * st_meta)')})"
    if k == "p":
        return f"(St_MPath {coq_str(t.next())})"
    if k == "r":
        return f"(St_MRepr {coq_str(t.next())})"
    raise ValueError(k)


def coq_arr(t: _Toks) -> str:
    rank = int(t.next())
    shape = [t.next() for _ in range(rank)]
    cnt = int(t.next())
    cells = []
    for _ in range(cnt):
        c = t.next()
        cells.append("St_NaN" if c == "nan" else f"(St_Num {coq_q(c)})")
    return f"(st_mkarr {_coq_list([s + '%nat' for s in shape], 'nat')} {_coq_list(cells, 'st_cell')})"


def coq_output(t: _Toks) -> str:
    d = coq_arr(t)
    a = coq_arr(t)
    n = int(t.next())
    items = []
    for _ in range(n):
        key = coq_str(t.next())
        items.append(f"({key}, {coq_meta(t)})")
    return f"(st_mkout {d} {a} {_coq_list(items, '(st_str * st_meta)')})"


def coq_store(t: _Toks) -> str:
    n = int(t.next())
    items = []
    for _ in range(n):
        key = coq_str(t.next())
        items.append(f"({key}, {coq_jv(t)})")
    return _coq_list(items, "(st_str * st_jv)")


def coq_bytes(b: bytes) -> str:
    return "[" + "; ".join(str(x) for x in b) + "]%N" if b else "(@nil N)"


def run_coq_shard(ctx, name: str, imports: str, examples: list[str], timeout=600):
    """Compile the examples; returns (ok, log tail, seconds)."""
    import subprocess
    import time
    import common
    src = ctx.work / f"cases_{name}.v"
    body = [f"From Coq Require Import List NArith QArith Bool Arith.", f"From ICG Require Import {imports}.",
            "Import ListNotations.", "Open Scope list_scope."]
    for i, e in enumerate(examples):
        body.append(f"Example shard_{i} : {e}.\nProof. vm_compute. reflexivity. Qed.")
    src.write_text("\n".join(body) + "\n")
    t0 = time.time()
    lock = common._lock()
    try:
        p = subprocess.run(["timeout", str(timeout), "coqc", "-Q", str(common.COQ / "theories"), "ICG", str(src)],
                           capture_output=True, text=True, cwd=ctx.work)
    finally:
        lock.close()
    return p.returncode == 0, (p.stdout + p.stderr)[-1500:], round(time.time() - t0, 1)

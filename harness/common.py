"""Shared machinery of the checks: paths, exact float<->Q conversion, the extracted-model driver,
the Coq build / assumption audit, evidence writing, known findings."""
from __future__ import annotations

import fcntl
import json
import os
import random
import re
import subprocess
import sys
import time
from fractions import Fraction
from pathlib import Path

VERIF = Path(__file__).resolve().parent.parent
REPO = Path(os.environ.get("VERIF_REPO", "/repo"))
COQ = VERIF / "coq"
OCAML = VERIF / "ocaml"
DRIVER = OCAML / "driver"
WORK = VERIF / ".work"
EVIDENCE = VERIF / "evidence"
CORPUS = VERIF / "corpus"

os.environ.setdefault("PYTHONHASHSEED", "0")
if str(REPO) not in sys.path:
    sys.path.insert(0, str(REPO))

ALLOWED_AXIOMS = {
    # stdlib real-number / classical axioms that may appear (only the l2 corollary of C07 uses Reals)
    "ClassicalDedekindReals.sig_forall_dec",
    "ClassicalDedekindReals.sig_not_dec",
    "FunctionalExtensionality.functional_extensionality_dep",
}

FORBIDDEN = re.compile(
    r"\b(Admitted|admit|Axiom|Axioms|Parameter|Parameters|Conjecture|Conjectures|Admit Obligations|"
    r"Unset Guard Checking|Unset Positivity Checking|Unset Universe Checking|bypass_check|type-in-type|"
    r"impredicative-set)\b")


# ---------------------------------------------------------------- numbers
def frac(x) -> Fraction:
    """Exact rational value of an int / float / numpy scalar / Fraction."""
    if isinstance(x, Fraction):
        return x
    if isinstance(x, int):
        return Fraction(x)
    return Fraction(float(x))


def qtok(x) -> str:
    f = frac(x)
    n, d = f.numerator, f.denominator
    return ("-" if n < 0 else "") + format(abs(n), "x") + "/" + format(d, "x")


def tokq(s: str) -> Fraction:
    num, _, den = s.partition("/")
    neg = num.startswith("-")
    if neg:
        num = num[1:]
    v = Fraction(int(num, 16), int(den, 16) if den else 1)
    return -v if neg else v


def is_exact_float(f: Fraction) -> bool:
    """True iff the rational is exactly representable as a float64."""
    try:
        return Fraction(float(f)) == f
    except OverflowError:
        return False


def close(a, b, tol=1e-9, scale=1.0) -> bool:
    a = float(a)
    b = float(b)
    return abs(a - b) <= tol * max(1.0, abs(scale), abs(a), abs(b))


# ---------------------------------------------------------------- driver
class DriverError(RuntimeError):
    pass


def run_driver(lines: list[str], timeout: int = 3600) -> list[str]:
    """Run the extracted model on the given case lines; one output line per input line."""
    if not lines:
        return []
    if os.environ.get("VERIF_DUMP_LINES"):          # debugging aid: keep the case lines sent to the model
        with open(os.environ["VERIF_DUMP_LINES"], "a") as f_:
            f_.write("\n".join(lines) + "\n#----\n")
    p = subprocess.run(["/bin/bash", "-c", f"ulimit -s unlimited 2>/dev/null; exec {DRIVER}"],
                       input="\n".join(lines) + "\n", capture_output=True, text=True, timeout=timeout)
    if p.returncode != 0:
        raise DriverError(f"driver exit {p.returncode}: {p.stderr[-2000:]}")
    out = p.stdout.split("\n")
    if out and out[-1] == "":
        out.pop()
    if len(out) != len(lines):
        raise DriverError(f"driver produced {len(out)} lines for {len(lines)} cases")
    for i, o in enumerate(out):
        if o.startswith("DRIVER-ERROR"):
            raise DriverError(f"{o} on case: {lines[i][:300]}")
    return out


def run_driver_parallel(lines: list[str], jobs: int = 8, timeout: int = 3600) -> list[str]:
    if len(lines) < 64 or jobs <= 1:
        return run_driver(lines, timeout)
    from concurrent.futures import ThreadPoolExecutor
    k = (len(lines) + jobs - 1) // jobs
    chunks = [lines[i:i + k] for i in range(0, len(lines), k)]
    with ThreadPoolExecutor(max_workers=jobs) as ex:
        outs = list(ex.map(lambda c: run_driver(c, timeout), chunks))
    return [o for c in outs for o in c]


# ---------------------------------------------------------------- build
class BuildError(RuntimeError):
    def __init__(self, msg, log=""):
        super().__init__(msg)
        self.log = log


def _lock():
    WORK.mkdir(exist_ok=True)
    f = open(WORK / "build.lock", "w")
    fcntl.flock(f, fcntl.LOCK_EX)
    return f


def coq_sources() -> list[Path]:
    return ([p for p in sorted((COQ / "theories").rglob("*.v")) if p.name != "Extract.v"]
            + sorted((COQ / "properties").glob("*.v")))


def write_coqproject() -> None:
    lines = ["-Q theories ICG", "-Q properties ICGP"]
    for p in coq_sources():
        lines.append(str(p.relative_to(COQ)))
    txt = "\n".join(lines) + "\n"
    cp = COQ / "_CoqProject"
    if not cp.exists() or cp.read_text() != txt:
        cp.write_text(txt)


def build(targets: list[str] | None = None, timeout: int = 3000, strict: bool = False) -> str:
    """Full .vo build (never -vos) of the Coq development + extraction + OCaml driver, under a lock.
    With strict=False `make -k` is used: a file that no longer compiles (e.g. the proofs over a regenerated
    translation of another property) does not stop the files that do not depend on it; each check then
    compiles its own property file, which fails iff something IT depends on is broken."""
    lock = _lock()
    try:
        write_coqproject()
        mk = COQ / "Makefile"
        if (not mk.exists()) or mk.stat().st_mtime < (COQ / "_CoqProject").stat().st_mtime:
            p = subprocess.run(["coq_makefile", "-f", "_CoqProject", "-o", "Makefile"], cwd=COQ,
                               capture_output=True, text=True)
            if p.returncode != 0:
                raise BuildError("coq_makefile failed", p.stdout + p.stderr)
        cmd = ["timeout", str(timeout), "make", "-j16"] + ([] if strict else ["-k"]) + (targets or [])
        p = subprocess.run(cmd, cwd=COQ, capture_output=True, text=True)
        log = p.stdout + p.stderr
        if p.returncode != 0 and strict:
            raise BuildError("coq build failed", log)
        if p.returncode != 0:
            log += "\n[make -k reported failures; continuing with the files that did build]\n"
        # the driver is rebuilt when any model file is newer
        newest = max(q.stat().st_mtime for q in list((COQ / "theories").rglob("*.v")) + list((COQ / "extract.d").glob("*.list"))
                     if q.name != "Extract.v")
        newest = max([newest] + [q.stat().st_mtime for q in OCAML.glob("*.ml") if q.name != "model.ml"])
        if (not DRIVER.exists()) or DRIVER.stat().st_mtime < newest:
            p = subprocess.run(["timeout", "600", str(OCAML / "build.sh")], capture_output=True, text=True)
            log += p.stdout + p.stderr
            if p.returncode != 0:
                raise BuildError("driver build failed", log)
        return log
    finally:
        lock.close()


def scan_forbidden() -> list[str]:
    hits = []
    for p in coq_sources():
        txt = p.read_text()
        # strip comments (non-nested is enough for our files; nested handled by loop)
        prev = None
        while prev != txt:
            prev = txt
            txt = re.sub(r"\(\*[^*(]*(?:\*(?!\))[^*(]*|\((?!\*)[^*(]*)*\*\)", " ", txt)
        for m in FORBIDDEN.finditer(txt):
            hits.append(f"{p.relative_to(VERIF)}: {m.group(0)}")
    return hits


def audit_property(pid: str) -> dict:
    """Compile properties/<pid>.v on its own, collect theorem names and Print Assumptions output."""
    src = COQ / "properties" / f"{pid}.v"
    if not src.exists():
        return {"theorems": [], "ok": False, "cmd": "", "wall_s": 0, "axioms": [], "closed": 0,
                "log_tail": f"missing property file {src}", "n_print_assumptions": 0}
    txt = src.read_text()
    theorems = re.findall(r"^\s*(?:Theorem|Corollary)\s+([A-Za-z0-9_']+)", txt, re.M)
    lock = _lock()
    try:
        cmd = ["timeout", "900", "coqc", "-Q", "theories", "ICG", "-Q", "properties", "ICGP", f"properties/{pid}.v"]
        t0 = time.time()
        p = subprocess.run(cmd, cwd=COQ, capture_output=True, text=True)
    finally:
        lock.close()
    out = p.stdout + p.stderr
    res = {"theorems": theorems, "ok": p.returncode == 0, "cmd": "cd /verif/coq && " + " ".join(cmd),
           "wall_s": round(time.time() - t0, 2), "axioms": [], "closed": 0, "log_tail": out[-3000:]}
    if p.returncode != 0:
        return res
    # Print Assumptions blocks: either "Closed under the global context" or "Axioms:\n name : type ..."
    res["closed"] = out.count("Closed under the global context")
    axioms = set()
    for blk in re.split(r"Closed under the global context", out):
        if "Axioms:" in blk:
            for line in blk.split("Axioms:")[1].split("\n"):
                m = re.match(r"^([A-Za-z_][A-Za-z0-9_.']*)\s*:", line)
                if m:
                    axioms.add(m.group(1))
    res["axioms"] = sorted(axioms)
    res["n_print_assumptions"] = len(re.findall(r"^\s*Print Assumptions", txt, re.M))
    return res


# ---------------------------------------------------------------- evidence
def load_known_findings() -> list[dict]:
    p = VERIF / "known_findings.json"
    if not p.exists():
        return []
    return json.loads(p.read_text()).get("findings", [])


class Ctx:
    """State of one check run."""

    def __init__(self, pid: str, tier: str, seed: int):
        self.pid = pid
        self.tier = tier
        self.seed = seed
        self.rng = random.Random(seed * 1000003 + sum(map(ord, pid)))
        self.t0 = time.time()
        self.work = WORK / f"{pid}.{os.getpid()}"
        self.work.mkdir(parents=True, exist_ok=True)
        self.violations: list[dict] = []      # each: {what, replay(dict)}
        self.known: list[str] = []
        self.coverage: dict = {}
        self.samples: list = []
        self.evaluations = 0
        self.nontrivial: set = set()
        self.hist: dict = {}
        self.notes: list[str] = []

    @property
    def quick(self) -> bool:
        return self.tier == "quick"

    def count(self, key: str, sub=None, k: int = 1) -> None:
        d = self.hist.setdefault(key, {})
        d[str(sub)] = d.get(str(sub), 0) + k

    def sample(self, x, limit: int = 6) -> None:
        if len(self.samples) < limit:
            self.samples.append(x)

    def violation(self, what: str, replay: dict, found_input: bool = True, key: str | None = None) -> None:
        """Record a violation; `key` identifies a specific known finding (input / call site)."""
        if len(self.violations) < 200:
            self.violations.append({"what": what, "replay": replay, "found_input": found_input, "key": key})

    def cleanup(self) -> None:
        import shutil
        shutil.rmtree(self.work, ignore_errors=True)


def write_replay(ctx: Ctx, idx: int, v: dict) -> Path:
    d = VERIF / "replays"
    d.mkdir(exist_ok=True)
    p = d / f"{ctx.pid}_{ctx.tier}_{idx}.json"
    body = {"property": ctx.pid, "tier": ctx.tier, "seed": ctx.seed, "what": v["what"],
            "found_failing_input": v["found_input"], "replay": v["replay"],
            "how_to_replay": f"cd /verif && ./check {ctx.pid} --replay {p}"}
    p.write_text(json.dumps(body, indent=1, default=str))
    return p

#!/bin/bash
# confirm_seed.sh <id> [suffix]  - confirm an independently written breaking change:
#   demo passes on the clean tree, fails with the patch; the pinned test suite's stable-pass set still passes with the patch.
# Works in a scratch worktree of /repo under /tmp (removed afterwards). Output: /tmp/seedout/<id>/confirm<suffix>.json
id=$1; suf=$2
src=/tmp/seedout/$id
wt=/tmp/confirm_${id}${suf}
rm -rf $wt; git -C /repo worktree prune; git -C /repo worktree add -q --detach $wt HEAD || exit 2
cd $wt
# one BLAS/torch thread per process: several confirmations run side by side and the PPO tests otherwise oversubscribe the cores
export OMP_NUM_THREADS=1 MKL_NUM_THREADS=1 OPENBLAS_NUM_THREADS=1
run() { PYTHONPATH=$wt PYTHONHASHSEED=0 timeout 900 /venv/bin/python "$@" 2>&1 | grep -v conda; return ${PIPESTATUS[0]}; }
run $src/demo$suf.py > $src/confirm${suf}_clean.log; rc_clean=$?
git apply $src/patch$suf.diff || { echo '{"applies": false}' > $src/confirm$suf.json; cd /; git -C /repo worktree remove --force $wt; exit 1; }
run $src/demo$suf.py > $src/confirm${suf}_patched.log; rc_patched=$?
tests=skipped
extra=""
# "nolearn": the whole suite except the PPO learning tests of test_run_learn.py (minutes each, and far slower when several
# confirmations run side by side); the record says so in "tests_scope"
if [ "$3" = "nolearn" ]; then extra="--ignore=incomplete_cooperative/tests/test_run_learn.py"; fi
if [ "$3" != "notests" ]; then
  timeout 3600 /venv/bin/python -m pytest $extra -q -p no:cacheprovider --timeout=900 --continue-on-collection-errors --junitxml=$src/confirm${suf}_junit.xml > $src/confirm${suf}_tests.log 2>&1
  /venv/bin/python - <<PY > $src/confirm${suf}_tests.json
import json, xml.etree.ElementTree as ET
b=json.load(open('/root/.vp/BASELINE.json'))
stable=set(b['stable_pass'])
if '$3' == 'nolearn':
    stable={x for x in stable if 'test_run_learn' not in x}
t=ET.parse('$src/confirm${suf}_junit.xml')
passed=set()
bad=set()
for tc in t.iter('testcase'):
    name=tc.get('classname')+'::'+tc.get('name')
    if any(ch.tag in ('failure','error') for ch in tc):
        bad.add(name)
    elif not any(ch.tag=='skipped' for ch in tc):
        passed.add(name)
missing=sorted(x for x in stable if x not in passed)
print(json.dumps({"tests_scope": ("whole suite except test_run_learn.py" if '$3' == 'nolearn' else "whole suite"), "stable":len(stable),"stable_passed":len(stable)-len(missing),"stable_not_passed":missing[:20]}))
PY
  tests=$(cat $src/confirm${suf}_tests.json)
fi
echo "{\"applies\": true, \"demo_clean_rc\": $rc_clean, \"demo_patched_rc\": $rc_patched, \"tests\": $tests}" > $src/confirm$suf.json
cd /; git -C /repo worktree remove --force $wt
cat $src/confirm$suf.json

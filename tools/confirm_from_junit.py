#!/usr/bin/env python3
"""confirm_from_junit.py <id> <suffix>: (re)build seeded-change confirmation record /tmp/seedout/<id>/confirm<suffix>.json from
the junit file a whole-suite run left behind plus the demo logs (used when the shell script that started the run was edited while
it ran). Demo return codes are taken from a 'notests' confirmation record if present."""
import json, sys, xml.etree.ElementTree as ET
from pathlib import Path
id_, suf = sys.argv[1], sys.argv[2]
src = Path("/tmp/seedout") / id_
b = json.load(open("/root/.vp/BASELINE.json"))
stable = set(b["stable_pass"])
t = ET.parse(src / f"confirm{suf}_junit.xml")
passed = set()
for tc in t.iter("testcase"):
    name = tc.get("classname") + "::" + tc.get("name")
    if not any(ch.tag in ("failure", "error", "skipped") for ch in tc):
        passed.add(name)
missing = sorted(x for x in stable if x not in passed)
rec = {"applies": True}
old = src / f"confirm{suf}.json"
if old.exists():
    o = json.loads(old.read_text())
    rec["demo_clean_rc"], rec["demo_patched_rc"] = o.get("demo_clean_rc"), o.get("demo_patched_rc")
rec["tests"] = {"tests_scope": "whole suite", "stable": len(stable), "stable_passed": len(stable) - len(missing),
                "stable_not_passed": missing[:20]}
old.write_text(json.dumps(rec))
print(json.dumps(rec))

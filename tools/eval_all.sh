#!/bin/bash
cd /verif
for spec in $(cat /tmp/confirm_jobs.txt); do id=${spec%%:*}; suf=${spec##*:}; echo "#### $id patch$suf"; nice -n 5 tools/eval_seed.sh $id "$suf" | grep -E "OK|VIOLATION|KNOWN|exit|apply|clean" | head -4; done
echo ALLDONE

#!/usr/bin/env python3
"""Markdown rows for DESIGN.md B.2c (fifth round, suffixes G and H) from seeded/<id>/meta*.json, check*.log, confirm*.json."""
import json, re
from pathlib import Path
ROOT = Path(__file__).resolve().parent.parent / "seeded"
rows = []
for d in sorted(list(ROOT.glob("C??")) + list((ROOT / "rejected").glob("C??"))):
    for suf in "GHI":
        m = d / f"meta{suf}.json"
        if not m.exists():
            continue
        meta = json.loads(m.read_text())
        log = (d / f"check{suf}.log").read_text() if (d / f"check{suf}.log").exists() else ""
        checks = re.findall(r"== ./check (C\d\d)", log)
        viol = re.findall(r"^VIOLATION property=(C\d\d) replay=\S+( no-failing-input-found)?", log, re.M)
        caught_by = sorted({v[0] for v in viol})
        with_input = sorted({v[0] for v in viol if not v[1]})
        res = "missed" if not viol else ("caught (failing input) by " + ", ".join(with_input) if with_input
                                         else "caught without a failing input by " + ", ".join(caught_by))
        first = d / f"check{suf}_first.log"
        if first.exists():   # the checks were strengthened after a miss: report the first run, then the run after the addition
            v1 = re.findall(r"^VIOLATION property=(C\d\d)", first.read_text(), re.M)
            res = ("missed" if not v1 else "caught") + " at first; after the addition: " + res
        conf = d / f"confirm{suf}.json"
        c = json.loads(conf.read_text()) if conf.exists() else None
        cs = "-" if c is None else ("demo %s/%s, stable tests %s/%s" % (c.get("demo_clean_rc"), c.get("demo_patched_rc"),
              (c.get("tests") or {}).get("stable_passed") if isinstance(c.get("tests"), dict) else c.get("tests"),
              (c.get("tests") or {}).get("stable") if isinstance(c.get("tests"), dict) else ""))
        if c is not None and isinstance(c.get("tests"), dict):
            cs += " (" + c["tests"].get("tests_scope", "whole suite") + ")"
            lt = c.get("learn_tests")
            if lt:
                cs += ("; learning tests %s/%s" % (lt.get("stable_passed"), lt.get("stable"))) if lt.get("completed") else ("; learning tests: run cut off by the time limit after %s of %s tests, %s/%s of the stable ones among them passed" % (lt["partial"]["finished"], lt["partial"]["of"], lt["partial"]["stable_finished_passed"], lt["partial"]["stable_finished"]) if lt.get("partial") else "; learning tests: run not completed")
        if c is not None and c.get("learn_reruns"):
            cs += "; reruns: " + c["learn_reruns"]
        summ = " ".join(str(meta.get("summary", "")).split())[:230].replace("|", "/")
        rows.append(f"| {d.name}/{suf}{' (REJECTED: fails existing tests)' if d.parent.name == 'rejected' else ''} | {summ} | {res} | {cs} |")
print("| seed | change (from the author's meta.json) | first quick run of the checks | confirmation (demo rc clean/patched, stable tests passing with the change) |")
print("|---|---|---|---|")
print("\n".join(rows))

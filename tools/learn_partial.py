#!/usr/bin/env python3
"""learn_partial.py: for confirmations whose learning-test run (tools/confirm_learn.sh) was cut off by its time limit, recover from the
progress marks of pytest's -q output which of the learning tests had finished and how (marks are in collection order), and record it
in /tmp/seedout/<id>/confirm<suffix>.json under learn_tests.partial."""
import json, re, subprocess, sys, os
from pathlib import Path
order = [l.strip() for l in open(sys.argv[1]) if "::" in l]
def junit_name(x):
    f, cls, name = x.split("::")
    return f[:-3].replace("/", ".") + "." + cls + "::" + name
order = [junit_name(x) for x in order]
stable = {x for x in json.load(open("/root/.vp/BASELINE.json"))["stable_pass"] if "test_run_learn" in x}
for cj in sorted(Path("/tmp/seedout").glob("C??/confirm[GHI].json")):
    suf = cj.stem[-1]
    log = cj.parent / f"confirm{suf}_learn.log"
    if not log.exists():
        continue
    d = json.loads(cj.read_text())
    lt = d.get("learn_tests") or {"completed": False, "stable": len(stable)}
    if lt.get("completed"):
        continue
    marks = []
    for line in log.read_text().splitlines():
        m = re.match(r"^([.FsEx]+)(\s+\[\s*\d+%\])?\s*$", line)
        if m:
            marks += list(m.group(1))
    done = dict(zip(order, marks))
    lt["partial"] = {"finished": len(marks), "of": len(order),
                     "stable_finished": sum(1 for t in done if t in stable),
                     "stable_finished_passed": sum(1 for t, m in done.items() if t in stable and m == "."),
                     "stable_finished_not_passed": sorted(t for t, m in done.items() if t in stable and m != ".")}
    d["learn_tests"] = lt
    cj.write_text(json.dumps(d))
    print(cj.parent.name, suf, lt["partial"])

#!/bin/bash
# eval_seed.sh <id> [suffix] [extra check ids...] : apply a seeded change to /repo, run the property's checks, undo it.
id=$1; suf=$2; shift 2
dir=/verif/seeded/$id
patch=$dir/patch$suf.diff
[ -f "$patch" ] || { echo "no $patch"; exit 2; }
cd /verif
if [ -n "$(git -C /repo status --porcelain --untracked-files=no)" ]; then echo "/repo not clean"; exit 2; fi
git -C /repo apply "$patch" || { echo "patch does not apply"; exit 2; }
# evidence/ must only ever hold records of runs on the unchanged tree: keep it aside while /repo is patched
evbak=$(mktemp -d); cp -a /verif/evidence/. $evbak/
trap 'git -C /repo checkout -- . ; git -C /repo clean -fdq -- incomplete_cooperative 2>/dev/null; cp -a $evbak/. /verif/evidence/; rm -rf $evbak' EXIT
out=$dir/check$suf.log
: > $out
for p in $id "$@"; do
  for tier in quick; do
    echo "== ./check $p --tier $tier" >> $out
    timeout 2400 ./check $p --tier $tier >> $out 2>&1
    echo "exit=$?" >> $out
  done
done
grep -E "^(== |OK|VIOLATION|KNOWN|exit=)" $out

#!/bin/bash
# confirm_learn.sh <id> <suffix>: second half of a confirmation started with `confirm_seed.sh <id> <suffix> nolearn` - runs the PPO learning
# tests (test_run_learn.py) with the change applied, in a scratch worktree of /repo, one BLAS/torch thread, and records in
# /tmp/seedout/<id>/confirm<suffix>.json under "learn_tests" how many of the stable-pass learning tests pass.
id=$1; suf=$2
src=/tmp/seedout/$id
wt=/tmp/confirmL_${id}${suf}
rm -rf $wt; git -C /repo worktree prune; git -C /repo worktree add -q --detach $wt HEAD || exit 2
cd $wt
export OMP_NUM_THREADS=1 MKL_NUM_THREADS=1 OPENBLAS_NUM_THREADS=1 PYTHONPATH=$wt PYTHONHASHSEED=0
git apply $src/patch$suf.diff || { cd /; git -C /repo worktree remove --force $wt; exit 1; }
timeout ${LEARN_TIMEOUT:-840} /venv/bin/python -m pytest -q -p no:cacheprovider --timeout=900 incomplete_cooperative/tests/test_run_learn.py --junitxml=$src/confirm${suf}_learn_junit.xml > $src/confirm${suf}_learn.log 2>&1
rc=$?
/venv/bin/python - <<PY
import json, os, xml.etree.ElementTree as ET
b=json.load(open('/root/.vp/BASELINE.json'))
stable={x for x in b['stable_pass'] if 'test_run_learn' in x}
p='$src/confirm${suf}_learn_junit.xml'
rec={"completed": False, "pytest_rc": $rc, "stable": len(stable)}
if os.path.exists(p):
    passed=set()
    for tc in ET.parse(p).iter('testcase'):
        if not any(ch.tag in ('failure','error','skipped') for ch in tc):
            passed.add(tc.get('classname')+'::'+tc.get('name'))
    missing=sorted(x for x in stable if x not in passed)
    rec.update({"completed": True, "stable_passed": len(stable)-len(missing), "stable_not_passed": missing})
f='$src/confirm${suf}.json'
d=json.load(open(f)); d["learn_tests"]=rec; json.dump(d, open(f,'w'))
print(json.dumps(rec))
PY
cd /; git -C /repo worktree remove --force $wt

#!/bin/bash
# confirm_some.sh <suffixes...> : whole-suite confirmation (tools/confirm_seed.sh) of the seeded patches with these suffixes, 4 at a time
cd /verif
jobs=""
for d in seeded/C*/; do id=$(basename $d); for suf in "$@"; do [ -f $d/patch$suf.diff ] && jobs="$jobs $id:$suf"; done; done
echo $jobs | tr ' ' '\n' | grep -v '^$' > /tmp/confirm_some_jobs.txt
wc -l /tmp/confirm_some_jobs.txt
export OMP_NUM_THREADS=3 MKL_NUM_THREADS=3
cat /tmp/confirm_some_jobs.txt | xargs -P 4 -I{} bash -c 'spec={}; id=${spec%%:*}; suf=${spec##*:}; mkdir -p /tmp/seedout/$id; cp /verif/seeded/$id/patch$suf.diff /verif/seeded/$id/demo$suf.py /tmp/seedout/$id/ 2>/dev/null; /verif/tools/confirm_seed.sh $id "$suf" > /tmp/seedout/$id/confirm_run$suf.log 2>&1; echo "done $spec: $(cat /tmp/seedout/$id/confirm$suf.json 2>/dev/null | head -c 300)"'
echo ALLDONE

#!/bin/bash
# eval_seed_wt.sh <id> [suffix] [extra check ids...] : like eval_seed.sh, but /repo itself stays untouched (so that
# other runs reading /repo are not disturbed): the change is applied to a scratch worktree of /repo's HEAD under /tmp
# and the checks run with VERIF_REPO pointing at it. evidence/ is saved and restored around the run.
id=$1; suf=$2; shift 2
dir=/verif/seeded/$id
patch=$dir/patch$suf.diff
[ -f "$patch" ] || { echo "no $patch"; exit 2; }
wt=/tmp/evalwt_${id}${suf}
cd /verif
rm -rf $wt; git -C /repo worktree prune; git -C /repo worktree add -q --detach $wt HEAD || exit 2
git -C $wt apply "$patch" || { echo "patch does not apply"; git -C /repo worktree remove --force $wt; exit 2; }
evbak=$(mktemp -d); cp -a /verif/evidence/. $evbak/
trap 'git -C /repo worktree remove --force $wt; cp -a $evbak/. /verif/evidence/; rm -rf $evbak' EXIT
out=$dir/check$suf.log
: > $out
for p in $id "$@"; do
  echo "== ./check $p --tier quick (VERIF_REPO=scratch worktree with the change applied)" >> $out
  VERIF_REPO=$wt timeout 2400 ./check $p --tier quick >> $out 2>&1
  echo "exit=$?" >> $out
done
grep -E "^(== |OK|VIOLATION|KNOWN|exit=)" $out

#!/bin/bash
# run confirm_seed.sh for every seeded patch, 5 at a time
cd /verif
jobs=""
for d in seeded/C*/; do id=$(basename $d); for p in $d/patch*.diff; do suf=$(basename $p .diff); suf=${suf#patch}; jobs="$jobs $id:$suf"; done; done
echo $jobs | tr ' ' '\n' | grep -v '^$' > /tmp/confirm_jobs.txt
wc -l /tmp/confirm_jobs.txt
export OMP_NUM_THREADS=3 MKL_NUM_THREADS=3
cat /tmp/confirm_jobs.txt | xargs -P 5 -I{} bash -c 'spec={}; id=${spec%%:*}; suf=${spec##*:}; mkdir -p /tmp/seedout/$id; cp /verif/seeded/$id/patch$suf.diff /verif/seeded/$id/demo$suf.py /tmp/seedout/$id/ 2>/dev/null; /verif/tools/confirm_seed.sh $id "$suf" > /tmp/seedout/$id/confirm_run$suf.log 2>&1; echo "done $spec: $(cat /tmp/seedout/$id/confirm$suf.json 2>/dev/null | head -c 300)"'
echo ALLDONE

#!/usr/bin/env python3
"""Print the markdown rows of DESIGN.md section B for the wave-3 seeds (suffixes A, B) from seeded/<id>/meta*.json and check*.log."""
import json, re, sys
from pathlib import Path
ROOT = Path(__file__).resolve().parent.parent / "seeded"
FIRST_MISSED = {  # first quick run of the checks as they were when the seed arrived -> what was added
    "C01/B": "histories now call the public `compute_bounds()` and contain return-to-the-same-knowledge motifs; oracle after every compute",
    "C02/B": "same (bulk `set_values` between two computes is one of the motifs)",
    "C03/A": "tables that are not superadditive (`arbitrary` class), n = 5..7 impl/impl",
    "C04/A": "SAM histories on one long-lived object, oracle after every compute",
    "C04/B": "r = 0 at n = 5, 6 (extra cases)",
    "C05/A": "same object evaluated again after its bounds were rewritten",
    "C06/A": "carrier games at n = 11..18 (20 thorough) with exactly known ordering averages",
    "C07/A": "same-object reveal chains incl. n = 9, 10 for the memoised computers (and n = 9, 10 soundness cases in C01)",
    "C08/B": "histories with values of a second game (`alt`) + comparison with a fresh object after every compute",
    "C09/B": "several environments from one `ModelInstance.get_env()` used interleaved, each judged against its own hidden game",
    "C10/A": "every seeded call repeated in descending player-count order after the whole sweep",
    "C11/B": "best-states on games scaled by 2^-24, 2^-30, 2^12; all tolerances relative to the games' magnitude",
    "C12/B": "hidden games captured through `after_reset`: no shared non-integer value between repetitions (was: correspondence only)",
    "C13/A": "states with the highest / lowest numbered explorable coalitions already revealed",
    "C13/B": "expected-greedy on rescaled games, relative tolerances, per-step choice-rule oracle",
    "C18/B": "harness no longer depends on the optional `atol` keyword; float games rescaled by 1e-9, 1e-12, 1e6 with a relative margin (was: harness error)",
    "C19/A": "run names that occur inside stored entries (`metadata`, `actions`, argument names), prefixes, JSON fragments",
    "C20/B": "the public `save()` (fresh and existing model directory) under fault injection at every file operation",
}
FIRST_MISSED_3 = {  # third round (suffixes C, D)
    "C01/C": "exactly representable magnitude variants of the exact games in the shared campaign: x 2^-40, 2^-30, 2^20 and + 3,000,000 per member",
    "C02/C": "same magnitude variants (the value-relative `np.isclose` snaps real intervals shut)",
    "C02/D": "n = 9, 10: tightness oracle on the memoised computer after compute, reveal, compute, un-reveal, compute (negative-valued families)",
    "C03/C": "one-object histories for the cached computer, judged against the reference after every compute",
    "C04/D": "n = 9, 10 cases for the sam_apx computers",
    "C05/D": "an IncompleteGame protocol implementation that is not the package class, with integer / float32 / Fraction bound arrays",
    "C06/C": "the same game object evaluated again after set_value / set_values",
    "C06/D": "games of magnitude 1e-9, 2^-40, 1e-12, 1e6 with relative comparison against the ordering average",
    "C08/C": "n = 9 histories with the fresh-object comparison for the memoised computers",
    "C08/D": "budget games -min(k,|S|) revealed in random orders under sam_apx_* (coalitions pinned down before they are revealed)",
    "C09/D": "hidden games scaled by 2^-30; the oracle's normalisation guard made relative to the game's magnitude",
    "C11/C": "sampled games that agree on everything initially known (same singletons and grand coalition)",
    "C11/D": "a best-states run on a fixed factory game up to 9 reveals (several sizes with minimum mean gap exactly 0)",
    "C12/C": "evaluate() through the linear wrapper (ModelInstance(linear=True)): recorded ids vs coalitions actually revealed",
    "C13/C": "states with a step budget that the next step exhausts; trial rewards through the public step/unstep (was: harness used a private helper and crashed)",
    "C14/C": "'latest + best' checkpointing: two directories saved in turn at every iteration, each loaded back at once",
    "C15/C": "normalise, read values, de-normalise on ONE graph-game object",
    "C16/C": "the observation returned by reset()/step() is held while action_masks() is called, then compared again",
    "C16/D": "an allowed step that raises is reported as a failing input (was: harness exception)",
    "C17/C": "multi-coalition getters called with lists, tuples, generators, iterators and filter objects",
    "C19/D": "sequences of save() with every saver into one directory under names that differ only after their last dot",
    "C20/C": "a model directory on another file system than the system temp directory (/dev/shm)",
}
WEAK_3 = {"C12/D", "C13/C", "C16/D", "C19/C", "C20/C"}
FIRST_MISSED_4 = {  # fourth round (suffixes E, F)
    "C02/E": "zero-rich games (mixed-sign singletons, many coalitions worth exactly 0), one per plan entry",
    "C09/F": "K-budget games at n = 5 under sam_apx_*: random step/unstep walks judged by the environment oracle",
    "C11/E": "starting knowledge strictly larger than the minimal information in every second search case",
    "C13/E": "full-length expected-greedy runs (plateau gap l-infinity at n = 3; factory game over all 10 reveals)",
    "C15/E": "exactly representable games with one huge and several small singletons; the library-tolerance acceptance of the oracle restricted to float inputs (this also exposed the too-lenient guard repaired in 48fc80f)",
    "C17/F": "bulk bound setters handed vectors with +inf / -inf / NaN, also at known positions",
    "C19/E": "a run name and metadata strings with a lone surrogate (surrogateescape'd path); a save that raises is a failing input",
    "C20/E": "after every injected fault the NEXT public save() must work, keep all earlier runs and add its entry",
    "C20/F": "third fault mode: an I/O error that persists (every later write(2) fails, opens and renames succeed)",
}
WEAK_4 = {"C11/F": "the set reported for size r must have r coalitions", "C16/E": "a step with a size the mask allows that raises is a failing input (was: harness exception)"}
if len(sys.argv) > 1 and sys.argv[1] == "4":
    for d in sorted(ROOT.iterdir()):
        for suf in ("E", "F"):
            m = d / f"meta{suf}.json"
            if not m.exists():
                continue
            meta = json.loads(m.read_text())
            summ = re.sub(r"\s+", " ", meta.get("summary", ""))[:110].replace("|", "/")
            log = (d / f"check{suf}.log").read_text() if (d / f"check{suf}.log").exists() else ""
            concrete = any(l.startswith("VIOLATION") and "no-failing-input-found" not in l for l in log.splitlines())
            any_v = "VIOLATION" in log
            now = "caught (failing input)" if concrete else ("caught (no-failing-input-found)" if any_v else "MISSED")
            key = f"{d.name}/{suf}"
            first = "caught without a failing input" if key in WEAK_4 else ("missed" if key in FIRST_MISSED_4 else "caught")
            print(f"| {key} | {summ} | {first} | {FIRST_MISSED_4.get(key, WEAK_4.get(key, ''))} | {now} |")
    sys.exit(0)
if len(sys.argv) > 1 and sys.argv[1] == "3":
    for d in sorted(ROOT.iterdir()):
        for suf in ("C", "D"):
            m = d / f"meta{suf}.json"
            if not m.exists():
                continue
            meta = json.loads(m.read_text())
            summ = re.sub(r"\s+", " ", meta.get("summary", ""))[:110].replace("|", "/")
            log = (d / f"check{suf}.log").read_text() if (d / f"check{suf}.log").exists() else ""
            concrete = any(l.startswith("VIOLATION") and "no-failing-input-found" not in l for l in log.splitlines())
            any_v = "VIOLATION" in log
            now = "caught (failing input)" if concrete else ("caught (no-failing-input-found)" if any_v else "MISSED")
            key = f"{d.name}/{suf}"
            first = "caught without a failing input" if key in WEAK_3 else ("missed" if key in FIRST_MISSED_3 else "caught")
            print(f"| {key} | {summ} | {first} | {FIRST_MISSED_3.get(key, '')} | {now} |")
    sys.exit(0)
for d in sorted(ROOT.iterdir()):
    for suf in ("A", "B"):
        m = d / f"meta{suf}.json"
        if not m.exists():
            continue
        meta = json.loads(m.read_text())
        summ = re.sub(r"\s+", " ", meta.get("summary", ""))[:110].replace("|", "/")
        log = (d / f"check{suf}.log").read_text() if (d / f"check{suf}.log").exists() else ""
        concrete = any(l.startswith("VIOLATION") and "no-failing-input-found" not in l for l in log.splitlines())
        any_v = "VIOLATION" in log
        now = "caught (failing input)" if concrete else ("caught (no-failing-input-found)" if any_v else "MISSED")
        key = f"{d.name}/{suf}"
        first = "missed" if key in FIRST_MISSED else "caught"
        if key in ("C12/B", "C18/B"):
            first = "caught without a failing input"
        print(f"| {key} | {summ} | {first} | {FIRST_MISSED.get(key, '')} | {now} |")

#!/usr/bin/env python3
"""Print the markdown rows of DESIGN.md section B for the wave-3 seeds (suffixes A, B) from seeded/<id>/meta*.json and check*.log."""
import json, re, sys
from pathlib import Path
ROOT = Path(__file__).resolve().parent.parent / "seeded"
FIRST_MISSED = {  # first quick run of the checks as they were when the seed arrived -> what was added
    "C01/B": "histories now call the public `compute_bounds()` and contain return-to-the-same-knowledge motifs; oracle after every compute",
    "C02/B": "same (bulk `set_values` between two computes is one of the motifs)",
    "C03/A": "tables that are not superadditive (`arbitrary` class), n = 5..7 impl/impl",
    "C04/A": "SAM histories on one long-lived object, oracle after every compute",
    "C04/B": "r = 0 at n = 5, 6 (extra cases)",
    "C05/A": "same object evaluated again after its bounds were rewritten",
    "C06/A": "carrier games at n = 11..18 (20 thorough) with exactly known ordering averages",
    "C07/A": "same-object reveal chains incl. n = 9, 10 for the memoised computers (and n = 9, 10 soundness cases in C01)",
    "C08/B": "histories with values of a second game (`alt`) + comparison with a fresh object after every compute",
    "C09/B": "several environments from one `ModelInstance.get_env()` used interleaved, each judged against its own hidden game",
    "C10/A": "every seeded call repeated in descending player-count order after the whole sweep",
    "C11/B": "best-states on games scaled by 2^-24, 2^-30, 2^12; all tolerances relative to the games' magnitude",
    "C12/B": "hidden games captured through `after_reset`: no shared non-integer value between repetitions (was: correspondence only)",
    "C13/A": "states with the highest / lowest numbered explorable coalitions already revealed",
    "C13/B": "expected-greedy on rescaled games, relative tolerances, per-step choice-rule oracle",
    "C18/B": "harness no longer depends on the optional `atol` keyword; float games rescaled by 1e-9, 1e-12, 1e6 with a relative margin (was: harness error)",
    "C19/A": "run names that occur inside stored entries (`metadata`, `actions`, argument names), prefixes, JSON fragments",
    "C20/B": "the public `save()` (fresh and existing model directory) under fault injection at every file operation",
}
for d in sorted(ROOT.iterdir()):
    for suf in ("A", "B"):
        m = d / f"meta{suf}.json"
        if not m.exists():
            continue
        meta = json.loads(m.read_text())
        summ = re.sub(r"\s+", " ", meta.get("summary", ""))[:110].replace("|", "/")
        log = (d / f"check{suf}.log").read_text() if (d / f"check{suf}.log").exists() else ""
        concrete = any(l.startswith("VIOLATION") and "no-failing-input-found" not in l for l in log.splitlines())
        any_v = "VIOLATION" in log
        now = "caught (failing input)" if concrete else ("caught (no-failing-input-found)" if any_v else "MISSED")
        key = f"{d.name}/{suf}"
        first = "missed" if key in FIRST_MISSED else "caught"
        if key in ("C12/B", "C18/B"):
            first = "caught without a failing input"
        print(f"| {key} | {summ} | {first} | {FIRST_MISSED.get(key, '')} | {now} |")

#!/bin/bash
# eval_equiv.sh <dir-with-patchK.diff> <K> : apply a behaviour-preserving change to /repo, run every check whose property
# anchors one of the touched files, undo it. A VIOLATION line WITHOUT "no-failing-input-found" would be a false alarm.
dir=$1; k=$2
patch=$dir/patch$k.diff
cd /verif
[ -z "$(git -C /repo status --porcelain --untracked-files=no)" ] || { echo "/repo not clean"; exit 2; }
files=$(grep '^+++ b/' $patch | sed 's|^+++ b/||')
props=$(python3 - "$files" <<'PY'
import json,sys
files=sys.argv[1].split()
out=[]
for l in open('/verif/properties.jsonl'):
    p=json.loads(l)
    if any(f in p['anchors']['files'] for f in files): out.append(p['id'])
print(" ".join(out))
PY
)
git -C /repo apply "$patch" || { echo "patch does not apply"; exit 2; }
# evidence/ must only ever hold records of runs on the unchanged tree: keep it aside while /repo is patched
evbak=$(mktemp -d); cp -a /verif/evidence/. $evbak/
trap 'git -C /repo checkout -- . ; git -C /repo clean -fdq -- incomplete_cooperative 2>/dev/null; cp -a $evbak/. /verif/evidence/; rm -rf $evbak' EXIT
out=$dir/check$k.log; : > $out
echo "files: $files ; checks: $props" >> $out
for p in $props; do
  echo "== ./check $p" >> $out
  timeout 2400 ./check $p --tier quick 2>&1 | grep -E "^(OK|VIOLATION|KNOWN)" | cut -c1-200 >> $out
done
echo "#### $dir patch$k"; cat $out

#!/bin/bash
# MANIFEST.setup_cmd: build the framework offline from files on disk (full .vo build + extraction + driver)
set -e
cd "$(dirname "$0")"
export PYTHONHASHSEED=0 PYTHONPATH="${VERIF_REPO:-/repo}"
/venv/bin/python -W ignore harness/setup.py 2> >(grep -v conda >&2)

(* cmds_store: driver commands for Store.v (C19) and Crash.v (C20).  Parsing / printing only.
   Token formats (everything space separated):
     str   : hex of the UTF-8 bytes, "-" for the empty string
     jv    : n <q> | nan | s <str> | t | f | z | l <k> jv*k | o <k> (<str> jv)*k
     meta  : n <q> | nan | s <str> | t | f | z | l <k> meta*k | o <k> (<str> meta)*k | p <str> | r <str>
     arr   : <rank> d_1 .. d_rank <count> cell*count        cell : nan | <q>
     op    : ot h p | om h q | w h <str> | sp h n | fl h | cl h | rp q p *)
open Model
open Drv_util

let byte_tab : n array = Array.init 256 n_of_int
let hexval c = match c with
  | '0'..'9' -> Char.code c - 48 | 'a'..'f' -> Char.code c - 87 | 'A'..'F' -> Char.code c - 55
  | _ -> failwith "bad hex digit in string token"
let bytes_of_tok (s : string) : n list =
  if s = "-" then [] else begin
    let len = String.length s / 2 in
    let l = ref [] in
    for i = len - 1 downto 0 do
      l := byte_tab.(16 * hexval s.[2 * i] + hexval s.[2 * i + 1]) :: !l
    done; !l end
let tok_of_bytes (l : n list) : string =
  if l = [] then "-" else begin
    let b = Buffer.create 64 in
    List.iter (fun x -> Buffer.add_string b (Printf.sprintf "%02x" (int_of_n x))) l;
    Buffer.contents b end
let next_str t = bytes_of_tok (next t)

let rec read_jv (t : toks) : st_jv =
  match next t with
  | "n" -> St_JNum (next_q t)
  | "nan" -> St_JNaN
  | "s" -> St_JStr (next_str t)
  | "t" -> St_JBool true
  | "f" -> St_JBool false
  | "z" -> St_JNull
  | "l" -> let k = next_int t in St_JList (List.init k (fun _ -> read_jv t))
  | "o" -> let k = next_int t in
    St_JObj (List.init k (fun _ -> let key = next_str t in let v = read_jv t in (key, v)))
  | s -> failwith ("bad jv token " ^ s)

let rec read_meta (t : toks) : st_meta =
  match next t with
  | "n" -> St_MNum (next_q t)
  | "nan" -> St_MNaN
  | "s" -> St_MStr (next_str t)
  | "t" -> St_MBool true
  | "f" -> St_MBool false
  | "z" -> St_MNull
  | "l" -> let k = next_int t in St_MList (List.init k (fun _ -> read_meta t))
  | "o" -> let k = next_int t in
    St_MDict (List.init k (fun _ -> let key = next_str t in let v = read_meta t in (key, v)))
  | "p" -> St_MPath (next_str t)
  | "r" -> St_MRepr (next_str t)
  | s -> failwith ("bad meta token " ^ s)

let rec print_jv (buf : Buffer.t) (j : st_jv) : unit =
  match j with
  | St_JNum q -> add buf (" n " ^ string_of_q q)
  | St_JNaN -> add buf " nan"
  | St_JStr s -> add buf (" s " ^ tok_of_bytes s)
  | St_JBool true -> add buf " t"
  | St_JBool false -> add buf " f"
  | St_JNull -> add buf " z"
  | St_JList l -> add buf (Printf.sprintf " l %d" (List.length l)); List.iter (print_jv buf) l
  | St_JObj kvs -> add buf (Printf.sprintf " o %d" (List.length kvs));
    List.iter (fun (k, v) -> add buf (" " ^ tok_of_bytes k); print_jv buf v) kvs

let read_cell t = match next t with "nan" -> St_NaN | s -> St_Num (q_of_string s)
let read_arr (t : toks) : st_ndarray =
  let rank = next_int t in
  let sh = List.init rank (fun _ -> next_nat t) in
  let cnt = next_int t in
  let data = List.init cnt (fun _ -> read_cell t) in
  { st_shape = sh; st_data = data }
let print_arr (buf : Buffer.t) (a : st_ndarray) : unit =
  add buf (Printf.sprintf " %d" (List.length a.st_shape));
  List.iter (fun d -> add buf (Printf.sprintf " %d" (int_of_nat d))) a.st_shape;
  add buf (Printf.sprintf " %d" (List.length a.st_data));
  List.iter (fun c -> match c with St_NaN -> add buf " nan" | St_Num q -> add buf (" " ^ string_of_q q)) a.st_data

let read_output (t : toks) : st_output =
  let d = read_arr t in
  let a = read_arr t in
  let k = next_int t in
  let args = List.init k (fun _ -> let key = next_str t in let v = read_meta t in (key, v)) in
  { st_o_data = d; st_o_actions = a; st_o_args = args }

let print_store (buf : Buffer.t) (s : (st_str * st_jv) list) : unit =
  add buf (Printf.sprintf " %d" (List.length s));
  List.iter (fun (k, v) -> add buf (" " ^ tok_of_bytes k); print_jv buf v) s

(* st_hist <k> (<name> <output>)*k : after every save "|" + the store, or "| exc" when Output.json raises
   (the store is then unchanged, as an exception leaves the file alone) *)
let cmd_st_hist (t : toks) (buf : Buffer.t) : unit =
  let k = next_int t in
  let store = ref [] in
  for _ = 1 to k do
    let name = next_str t in
    let o = read_output t in
    (match st_run_outputs !store [(name, o)] with
     | Some s -> store := s; add buf " |"; print_store buf s
     | None -> add buf " | exc")
  done

(* st_load <jv> : Output.from_json on one parsed entry, then .metadata of the result *)
let cmd_st_load (t : toks) (buf : Buffer.t) : unit =
  let j = read_jv t in
  match st_from_json j with
  | None -> add buf "none"
  | Some l ->
    add buf "ok"; print_arr buf l.st_l_data; add buf " ;"; print_arr buf l.st_l_actions; add buf " ;";
    (match st_metadata_jv l.st_l_args with
     | None -> add buf " nometa"
     | Some m -> print_jv buf (St_JObj m))

let cmd_st_arr (t : toks) (buf : Buffer.t) : unit =
  match st_of_list (read_jv t) with
  | None -> add buf "none"
  | Some a -> add buf "ok"; print_arr buf a

let cmd_st_tolist (t : toks) (buf : Buffer.t) : unit =
  let a = read_arr t in
  print_jv buf (st_tolist a)

(* ---------- Crash.v ---------- *)
let read_cr_op (t : toks) : cr_op =
  match next t with
  | "ot" -> let h = next_n t in let p = next_n t in Cr_OpenTrunc (h, p)
  | "om" -> let h = next_n t in let p = next_n t in Cr_OpenTmp (h, p)
  | "w" -> let h = next_n t in let b = next_str t in Cr_Write (h, b)
  | "sp" -> let h = next_n t in let n = next_nat t in Cr_Spill (h, n)
  | "fl" -> Cr_Flush (next_n t)
  | "cl" -> Cr_Close (next_n t)
  | "rp" -> let q = next_n t in let p = next_n t in Cr_Replace (q, p)
  | s -> failwith ("bad op token " ^ s)

let digest_of (c : n list option) : string =
  match c with
  | None -> "absent"
  | Some l ->
    let len = List.length l in
    let b = Bytes.create len in
    List.iteri (fun i x -> Bytes.set b i (Char.chr (int_of_n x))) l;
    Printf.sprintf "%d:%s" len (Digest.to_hex (Digest.bytes b))

(* cr_sim <scheme: inplace|atomic|none> <h> <p> <q> <nfiles> (<path> <bytes>)* <payload>
          <npre> op* <nbody> op* <npost> op* <nqueries> (<k> <d|i|x n>)*
   observed trace = pre @ body @ post.  Output:
     body_ok=<b> trace_match=<b> | <digest of p for each query> | final <digest of p> <digest of q> *)
let cmd_cr_sim (t : toks) (buf : Buffer.t) : unit =
  let scheme = next t in
  let h = next_n t in let p = next_n t in let q = next_n t in
  let fs = cr_mkfs (next_list t (fun t -> let path = next_n t in let b = next_str t in (path, b))) in
  let payload = next_str t in
  let pre = next_list t read_cr_op in
  let body = next_list t read_cr_op in
  let post = next_list t read_cr_op in
  let obs = pre @ body @ post in
  let b2s b = if b then "1" else "0" in
  let tm = match scheme with
    | "inplace" -> b2s (cr_trace_eqb obs (cr_save_trace Cr_InPlace h p q body))
    | "atomic" -> b2s (cr_trace_eqb obs (cr_save_trace Cr_Atomic h p q body))
    | _ -> "-" in
  add buf (Printf.sprintf "body_ok=%s trace_match=%s |" (b2s (cr_body_ok h payload body)) tm);
  (* queries are sorted by k; the state after the first k operations is obtained by stepping the model (cr_step is the
     body of cr_run's fold); for short traces every answer is also recomputed from scratch with cr_crash_at *)
  let nq = next_int t in
  let st = ref (cr_init fs) and done_ = ref 0 and rest = ref obs in
  let short = List.length obs <= 150 in
  for _ = 1 to nq do
    let k = next_int t in
    let m = match next t with "d" -> Cr_Death | "i" -> Cr_Interrupt | "x" -> Cr_Partial (next_nat t)
                           | s -> failwith ("bad mode " ^ s) in
    if k < !done_ then failwith "queries not sorted";
    while !done_ < k do
      (match !rest with
       | o :: r -> st := cr_step !st o; rest := r
       | [] -> ());
      incr done_
    done;
    let c = cr_file (cr_stop m !st) p in
    if short && c <> cr_crash_at m obs (nat_of_int k) fs p then failwith "stepping disagrees with cr_crash_at";
    add buf (" " ^ digest_of c)
  done;
  let fin = cr_run (cr_init fs) obs in
  add buf (" | final " ^ digest_of (cr_file fin.cr_fs p) ^ " " ^ digest_of (cr_file fin.cr_fs q)
           ^ Printf.sprintf " open=%d" (List.length fin.cr_open))

let () =
  register "st_hist" cmd_st_hist; register "st_load" cmd_st_load; register "st_arr" cmd_st_arr;
  register "st_tolist" cmd_st_tolist; register "cr_sim" cmd_cr_sim

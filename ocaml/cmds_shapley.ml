(* C05 / C06 commands: Shapley value, exploitability, norms.  Parsing / printing only. *)
open Model
open Drv_util

let read_game (t : toks) (n : int) : n -> q =
  let vals = List.init (1 lsl n) (fun _ -> next_q t) in
  sh_gget (sh_gtab_of_list vals)

(* shapley <n> v_0 .. v_{2^n-1}  ->  all-players entry point | single-player entry point for i = 0..n-1 *)
let cmd_shapley (t : toks) (buf : Buffer.t) : unit =
  let n = next_int t in
  let g = read_game t n in
  let nn = nat_of_int n in
  print_q_list buf (sh_all nn g);
  add buf " |";
  for i = 0 to n - 1 do add buf (" " ^ string_of_q (sh_player nn (nat_of_int i) g)) done

(* permavg <n> v_0 .. : the specification side (average marginal contribution over all n! orderings) *)
let cmd_permavg (t : toks) (buf : Buffer.t) : unit =
  let n = next_int t in
  let g = read_game t n in
  let nn = nat_of_int n in
  for i = 0 to n - 1 do add buf (" " ^ string_of_q (sh_perm_avg nn (nat_of_int i) g)) done

(* exploit <n> (k lo hi)*2^n  ->  "err"|"ok <exploitability>"  then  wgap l1 linf l2sq of the width vector *)
let cmd_exploit (t : toks) (buf : Buffer.t) : unit =
  let n = next_int t in
  let tb = read_table t (1 lsl n) in
  let nn = nat_of_int n in
  (match ex_exploit_tab nn tb with
   | None -> add buf "err"
   | Some x -> add buf ("ok " ^ string_of_q x));
  let w = nm_width_tab tb in
  add buf (" " ^ string_of_q (ex_wgap nn w));
  add buf (" " ^ string_of_q (nm_l1 nn w));
  add buf (" " ^ string_of_q (nm_linf nn w));
  add buf (" " ^ string_of_q (nm_l2sq nn w))

let () = register "shapley" cmd_shapley; register "permavg" cmd_permavg; register "exploit" cmd_exploit

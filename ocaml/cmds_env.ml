open Model
open Drv_util

let gap_of_string = function
  | "exploitability" -> GExploit | "l1_norm" -> GL1 | "l2_norm" -> GL2 | "linf_norm" -> GLinf
  | s -> failwith ("unknown gap " ^ s)

let print_bools buf l = List.iter (fun b -> add buf (if b then "1" else "0")) l
let print_qopt buf = function None -> add buf "E" | Some q -> add buf (string_of_q q)
let print_natopt buf = function None -> add buf "E" | Some a -> add buf (string_of_int (int_of_nat a))

let print_state buf e =
  let n = int_of_nat e.e_n in
  add buf (Printf.sprintf "ok %d M " (Cmds_core.int_of_z e.e_steps));
  print_bools buf (ev_mask e);
  add buf " O"; print_q_list buf (ev_obs e);
  add buf " G "; print_qopt buf (ev_gapv e);
  add buf (if ev_done e then " D 1" else " D 0");
  add buf " T"; print_table buf e.e_tab (1 lsl n)

(* env <n> <comp> <gap> <budget|-1> <k> init ids... <m> ops...   output: one segment per op *)
let cmd_env (t : toks) (buf : Buffer.t) : unit =
  let n = next_int t in
  let c = computer_of_string (next t) in
  let g = gap_of_string (next t) in
  let b = next_int t in
  let init = next_list t next_n in
  let e = ref (ev_make (nat_of_int n) c g (if b < 0 then None else Some (nat_of_int b)) init) in
  let alive = ref true in
  let m = next_int t in
  for _ = 1 to m do
    let op = next t in
    add buf "| ";
    (match op with
     | "reset" ->
       let v = List.init (1 lsl n) (fun _ -> next_q t) in
       let nv = List.init (1 lsl n) (fun _ -> next_q t) in
       if !alive then (match ev_reset !e v nv with Some e' -> e := e'; print_state buf !e | None -> alive := false; add buf "err")
       else add buf "dead"
     | "step" | "unstep" ->
       let a = next_nat t in
       if !alive then
         (match (if op = "step" then ev_step !e a else ev_unstep !e a) with
          | Some e' -> e := e'; print_state buf !e; add buf " I "; (match ev_info !e a with Some s -> add buf (string_of_int (int_of_n s)) | None -> add buf "E")
          | None -> alive := false; add buf "err")
       else add buf "dead"
     | "lstep" ->
       let k = next_nat t in let a = next_nat t in
       if !alive then
         (match lv_step !e k a with
          | Some e' -> e := e'; print_state buf !e; add buf " I "; (match ev_info !e a with Some s -> add buf (string_of_int (int_of_n s)) | None -> add buf "E")
          | None -> alive := false; add buf "err")
       else add buf "dead"
     | "q_greedy" -> let w = next_bool t in add buf "A "; print_natopt buf (sv_greedy w !e)
     | "q_largest" -> add buf "A "; print_natopt buf (sv_largest !e)
     | "q_valid" -> add buf "V"; List.iter (fun a -> add buf (" " ^ string_of_int (int_of_nat a))) (sv_valid !e)
     | "q_try" -> let a = next_nat t in add buf "R "; print_qopt buf (sv_try !e a)
     | "q_lin" ->
       add buf "LM "; print_bools buf (lv_mask !e);
       add buf " LO"; print_q_list buf (lv_obs !e);
       add buf " LC";
       for k = 0 to n - 1 do
         add buf " [";
         List.iter (fun a -> add buf (string_of_int (int_of_nat a) ^ ",")) (lv_candidates !e (nat_of_int k));
         add buf "]"
       done
     | s -> failwith ("unknown env op " ^ s));
    add buf " "
  done

(* pick <worst> <k> acts... <k> vals...  : the greedy decision from given rewards *)
let cmd_pick (t : toks) (buf : Buffer.t) : unit =
  let w = next_bool t in
  let acts = next_list t next_nat in
  let vals = next_list t next_q in
  print_natopt buf (sv_pick w acts vals)

let () = register "env" cmd_env; register "pick" cmd_pick

(* gaps <n> <table> : exploitability | l1 | l2 squared | linf of the given table *)
let cmd_gaps (t : toks) (buf : Buffer.t) : unit =
  let n = next_int t in
  let tb = read_table t (1 lsl n) in
  List.iter (fun g -> print_qopt buf (ev_gap g (nat_of_int n) tb); add buf " ") [GExploit; GL1; GL2; GLinf]
let () = register "gaps" cmd_gaps

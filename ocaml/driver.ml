(* driver main loop: one case per line on stdin, one canonical result line on stdout *)
open Drv_util

let () =
  try
    while true do
      let line = input_line stdin in
      let t = { rest = List.filter (fun s -> s <> "") (String.split_on_char ' ' line) } in
      let buf = Buffer.create 256 in
      (match t.rest with
       | [] -> ()
       | _ ->
         let c = next t in
         (try
            (match Hashtbl.find_opt commands c with
             | Some f -> f t buf
             | None -> Buffer.add_string buf ("DRIVER-ERROR unknown command " ^ c))
          with Failure m -> Buffer.clear buf; Buffer.add_string buf ("DRIVER-ERROR " ^ m)
             | Not_found -> Buffer.clear buf; Buffer.add_string buf "DRIVER-ERROR not_found"
             | Stack_overflow -> Buffer.clear buf; Buffer.add_string buf "DRIVER-ERROR stack_overflow"));
      print_string (Buffer.contents buf); print_newline ()
    done
  with End_of_file -> ()

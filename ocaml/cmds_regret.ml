(* C14 driver commands (regret minimiser).  Parsing / printing only; every computation is a call into Model.
   rg_construct <count|id> <clamp 0|1> <np> <lim> <plus 0|1>
      -> index_error | ok <stored lim> <V> <table len> <nrm> | r2i.. | id_to_rank at each r2i.. | pmap..
   rg_step <count|id> <clamp> <do_iter 0|1> <np> <lim> <plus> <iter> <R> <C> regret(R*C) strat(R*C)
           <T> terminal(T) <U> (<k> coalition ids(k))*U <P> (<k> coalition ids(k))*P
      -> load_<err> | S strategies(nrm*nc) | A averages(nrm*nc) | (Q avg-in-coalition-space)*P   [of the given state]
         then, if do_iter: | N <err>   or   | N ok <iter> | regret.. | strat..                    [state after one iteration]
      S/A/Q sections print "nan" / "index_error" / "value_error" when the model says so
   rg_ranks <nc> <lim>  -> the ranking alone (any nc, not only 2^n-n-2) *)
open Model
open Drv_util

let variant_of (t : toks) : rg_variant =
  let p = (match next t with "count" -> ByCount | "id" -> ById | s -> failwith ("bad policy " ^ s)) in
  let c = (next_int t = 1) in
  { rg_pol = p; rg_clamp = c }

let err_name = function
  | RgIndexError -> "index_error" | RgValueError -> "value_error" | RgNaN -> "nan" | RgOk _ -> "ok"

let add_qs buf (l : q list) = List.iter (fun x -> Buffer.add_char buf ' '; Buffer.add_string buf (string_of_q x)) l
let add_matrix buf (m : q list list) = List.iter (add_qs buf) m

let cmd_construct (t : toks) (buf : Buffer.t) : unit =
  let v = variant_of t in
  let np = next_nat t in
  let lim = next_nat t in
  let plus = next_bool t in
  match rg_construct v np lim plus with
  | RgOk s ->
    Buffer.add_string buf (Printf.sprintf "ok %d %d %d %d |" (int_of_nat s.rg_lim) (List.length s.rg_r2i)
                             (int_of_n s.rg_tab.rg_tlen) (int_of_nat s.rg_nrm));
    List.iter (fun i -> Buffer.add_string buf (Printf.sprintf " %d" (int_of_n i))) s.rg_r2i;
    Buffer.add_string buf " |";
    List.iter (fun i -> match rg_lookup s.rg_tab i with
        | Some r -> Buffer.add_string buf (Printf.sprintf " %d" (int_of_nat r))
        | None -> Buffer.add_string buf " x") s.rg_r2i;
    Buffer.add_string buf " |";
    List.iter (fun z -> Buffer.add_string buf (" " ^ (match z with Z0 -> "0" | Zpos p -> string_of_int (int_of_pos p)
                                                                  | Zneg p -> "-" ^ string_of_int (int_of_pos p)))) s.rg_pmap
  | e -> Buffer.add_string buf (err_name e)

let read_matrix (t : toks) (r : int) (c : int) : q list list =
  List.init r (fun _ -> List.init c (fun _ -> next_q t))

let read_lists (t : toks) : n list list = next_list t (fun t -> next_list t next_n)

let cmd_step (t : toks) (buf : Buffer.t) : unit =
  let v = variant_of t in
  let do_iter = next_bool t in
  let np = next_nat t in
  let lim = next_nat t in
  let plus = next_bool t in
  let it = next_nat t in
  let r = next_int t in
  let c = next_int t in
  let reg = read_matrix t r c in
  let st = read_matrix t r c in
  let terminal = next_list t next_q in
  let used = read_lists t in
  let pasts = read_lists t in
  let sv = { rg_sv_iter = it; rg_sv_np = np; rg_sv_lim = lim; rg_sv_plus = plus; rg_sv_regret = reg; rg_sv_strat = st } in
  match rg_load v sv with
  | RgOk s0 ->
    Buffer.add_string buf "S";
    (match rg_all_strategies s0 with RgOk m -> add_matrix buf m | e -> Buffer.add_string buf (" " ^ err_name e));
    Buffer.add_string buf " | A";
    (match rg_all_averages s0 with RgOk m -> add_matrix buf m | e -> Buffer.add_string buf (" " ^ err_name e));
    List.iter (fun p ->
        Buffer.add_string buf " | Q";
        match rg_average_strategy s0 p with RgOk l -> add_qs buf l | e -> Buffer.add_string buf (" " ^ err_name e)) pasts;
    if do_iter then
      (match rg_iteration s0 terminal used with
       | RgOk s ->
         Buffer.add_string buf (Printf.sprintf " | N ok %d |" (int_of_nat s.rg_iter));
         add_matrix buf s.rg_regret; Buffer.add_string buf " |";
         add_matrix buf s.rg_strat
       | e -> Buffer.add_string buf (" | N " ^ err_name e))
  | e -> Buffer.add_string buf ("load_" ^ err_name e)

let cmd_ranks (t : toks) (buf : Buffer.t) : unit =
  let nc = next_nat t in
  let lim = next_nat t in
  Buffer.add_string buf "ok";
  List.iter (fun i -> Buffer.add_string buf (Printf.sprintf " %d" (int_of_n i))) (rg_rank_to_id nc lim)

let () = register "rg_construct" cmd_construct; register "rg_step" cmd_step; register "rg_ranks" cmd_ranks

(* cmds_enum: driver commands of C18 (coalitions as finite sets; enumerations; predicates).
   Parsing / printing only; every computation is a call into the extracted model
   (gen_* = the definitions regenerated from coalitions.py, en_* = Enum.v, cb_* = Combs.v, pd_* = Preds.v). *)
open Model
open Drv_util

let z_of_int (i : int) : z = if i = 0 then Z0 else if i > 0 then Zpos (pos_of_int i) else Zneg (pos_of_int (- i))
let int_of_z (x : z) : int = match x with Z0 -> 0 | Zpos p -> int_of_pos p | Zneg p -> - (int_of_pos p)
let next_z t = z_of_int (next_int t)
let addi buf i = Buffer.add_string buf (" " ^ string_of_int i)
let addz buf x = addi buf (int_of_z x)
let addb buf b = Buffer.add_string buf (if b then " 1" else " 0")
let add_nlist buf (l : n list) = addi buf (List.length l); List.iter (fun x -> addi buf (int_of_n x)) l
let add_natlist buf (l : nat list) = addi buf (List.length l); List.iter (fun x -> addi buf (int_of_nat x)) l

(* c18pair a b : the two-coalition operators on the GENERATED definitions:
   and or sub contains(a has b) contains(b has a) eq disjoint exclude_keep *)
let cmd_pair (t : toks) (buf : Buffer.t) : unit =
  let a = next_z t in let b = next_z t in
  addz buf (gen_and a b); addz buf (gen_or a b); addz buf (gen_sub a b);
  addb buf (gen_contains a b); addb buf (gen_contains b a); addb buf (gen_eq a b);
  addb buf (gen_disjoint a b); addb buf (gen_exclude_keep a b)

(* c18player n a : for every player p < n: and_player or_player sub_player add contains_player; then
   inverted(a, n) grand(n); then player_to_coalition p for p < n *)
let cmd_player (t : toks) (buf : Buffer.t) : unit =
  let n = next_int t in let a = next_z t in
  for p = 0 to n - 1 do
    let zp = z_of_int p in
    addz buf (gen_and_player a zp); addz buf (gen_or_player a zp); addz buf (gen_sub_player a zp);
    addz buf (gen_add a zp); addb buf (gen_contains_player a zp)
  done;
  addz buf (gen_inverted a (z_of_int n)); addz buf (gen_grand (z_of_int n));
  for p = 0 to n - 1 do addz buf (gen_player_to_coalition (z_of_int p)) done

let add_opt_nlist buf = function None -> add buf " err" | Some l -> add buf " ok"; add_nlist buf l
let add_opt_natlist buf = function None -> add buf " err" | Some l -> add buf " ok"; add_natlist buf l

(* c18enum n c : players(obj) | len | ids players | ids size | sub obj | sub ids | super obj | super ids *)
let cmd_enum (t : toks) (buf : Buffer.t) : unit =
  let n = next_nat t in let c = next_n t in
  add_natlist buf (en_players c); add buf " |";
  addi buf (int_of_nat (en_len c)); add buf " |";
  add_opt_natlist buf (en_ids_players n c); add buf " |";
  (match en_ids_size n c with None -> add buf " err" | Some k -> add buf " ok"; addi buf (int_of_nat k)); add buf " |";
  add_nlist buf (en_sub_obj c); add buf " |";
  add_opt_nlist buf (en_ids_sub n c); add buf " |";
  add_nlist buf (en_super_obj n c); add buf " |";
  add_opt_nlist buf (en_ids_super n c)

(* c18ids n c : only the id-array functions (used for out-of-range coalitions: the asserts) *)
let cmd_ids (t : toks) (buf : Buffer.t) : unit =
  let n = next_nat t in let c = next_n t in
  add_opt_natlist buf (en_ids_players n c); add buf " |";
  (match en_ids_size n c with None -> add buf " err" | Some k -> add buf " ok"; addi buf (int_of_nat k)); add buf " |";
  add_opt_nlist buf (en_ids_sub n c); add buf " |";
  add_opt_nlist buf (en_ids_super n c)

(* c18from k p1..pk : from_players, then players and len of the result *)
let cmd_from (t : toks) (buf : Buffer.t) : unit =
  let l = next_list t next_nat in
  let c = en_from_players l in
  addi buf (int_of_n c); add buf " |"; add_natlist buf (en_players c); add buf " |"; addi buf (int_of_nat (en_len c))

(* c18combs k m : combinations(range(m), k) ; c18powerset m : powerset(range(m)); entries separated by ; *)
let add_natlistlist buf (ll : nat list list) =
  addi buf (List.length ll);
  List.iter (fun l -> add buf " ;"; List.iter (fun x -> addi buf (int_of_nat x)) l) ll
let range m = List.init m nat_of_int
let cmd_combs (t : toks) (buf : Buffer.t) : unit =
  let k = next_int t in let l = next_list t next_nat in
  add_natlistlist buf (cb_combs (nat_of_int k) l); add buf " |";
  addi buf (int_of_nat (cb_binom (nat_of_int (List.length l)) (nat_of_int k)))
let cmd_powerset (t : toks) (buf : Buffer.t) : unit =
  let l = next_list t next_nat in
  add_natlistlist buf (cb_powerset l)
let cmd_upto (t : toks) (buf : Buffer.t) : unit =
  let m = next_int t in let l = next_list t next_nat in
  add_natlistlist buf (cb_upto (nat_of_int m) l)

(* games: n then 2^n rationals in id order *)
let read_game (t : toks) (n : int) : n -> q =
  let a = Array.init (1 lsl n) (fun _ -> next_q t) in
  fun s -> let i = int_of_n s in if i < Array.length a then a.(i) else failwith "game index out of range"
let add_optb buf = function None -> add buf " err" | Some true -> add buf " 1" | Some false -> add buf " 0"

(* c18pred n rtol atol tol v... : is_superadditive(rtol, atol) | is_monotone_decreasing | is_sam(rtol) | check_supermodularity(tol) *)
let cmd_pred (t : toks) (buf : Buffer.t) : unit =
  let n = next_int t in
  let rtol = next_q t in let atol = next_q t in let tol = next_q t in
  let v = read_game t n in
  let nn = nat_of_int n in
  add_optb buf (pd_is_superadditive nn v rtol atol); add buf " |";
  add_optb buf (pd_is_monotone_decreasing nn v); add buf " |";
  add_optb buf (pd_is_sam nn v rtol); add buf " |";
  (match pd_check_supermodularity nn v tol with
   | None -> add buf " none"
   | Some ((tt, s), i) -> addi buf (int_of_n tt); addi buf (int_of_n s); addi buf (int_of_nat i))

let () =
  register "c18pair" cmd_pair; register "c18player" cmd_player; register "c18enum" cmd_enum; register "c18ids" cmd_ids;
  register "c18from" cmd_from; register "c18combs" cmd_combs; register "c18powerset" cmd_powerset;
  register "c18upto" cmd_upto; register "c18pred" cmd_pred

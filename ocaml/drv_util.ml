(* drv_util: shared by the command files.  The driver reads one case per line on stdin, prints one canonical result per line.
   Parsing / printing only; every computation is a call into the extracted model.
   Numbers: naturals in decimal; rationals as [-]HEX/HEX (numerator / denominator). *)
open Model

(* ---------- conversions ---------- *)
let rec pos_of_int (i : int) : positive =
  if i = 1 then XH else if i land 1 = 1 then XI (pos_of_int (i lsr 1)) else XO (pos_of_int (i lsr 1))
let n_of_int (i : int) : n = if i = 0 then N0 else Npos (pos_of_int i)
let rec nat_of_int (i : int) : nat = if i = 0 then O else S (nat_of_int (i - 1))
let rec int_of_nat (x : nat) : int = match x with O -> 0 | S y -> 1 + int_of_nat y
let rec int_of_pos (p : positive) : int =
  match p with XH -> 1 | XO q -> 2 * int_of_pos q | XI q -> 2 * int_of_pos q + 1
let int_of_n (x : n) : int = match x with N0 -> 0 | Npos p -> int_of_pos p

(* hex string -> positive option (None for zero) ; most significant digit first *)
let bits_of_hex (s : string) : bool list =
  (* most significant first *)
  let l = ref [] in
  String.iter (fun c ->
    let v = match c with
      | '0'..'9' -> Char.code c - 48
      | 'a'..'f' -> Char.code c - 87
      | 'A'..'F' -> Char.code c - 55
      | _ -> failwith ("bad hex digit in " ^ s) in
    l := (v land 1 = 1) :: (v land 2 = 2) :: (v land 4 = 4) :: (v land 8 = 8) :: !l) s;
  (* !l is least significant first *)
  List.rev !l
let pos_of_hex (s : string) : positive option =
  let msb_first = bits_of_hex s in
  let rec strip = function false :: r -> strip r | l -> l in
  match strip msb_first with
  | [] -> None
  | _ :: rest -> (* leading one *)
    Some (List.fold_left (fun acc b -> if b then XI acc else XO acc) XH rest)
let z_of_hex (s : string) : z =
  let neg = String.length s > 0 && s.[0] = '-' in
  let body = if neg then String.sub s 1 (String.length s - 1) else s in
  match pos_of_hex body with
  | None -> Z0
  | Some p -> if neg then Zneg p else Zpos p
let q_of_string (s : string) : q =
  match String.index_opt s '/' with
  | None -> { qnum = z_of_hex s; qden = XH }
  | Some i ->
    let num = String.sub s 0 i and den = String.sub s (i + 1) (String.length s - i - 1) in
    (match pos_of_hex den with
     | None -> failwith "zero denominator"
     | Some d -> { qnum = z_of_hex num; qden = d })

let hex_of_pos (p : positive) : string =
  (* collect bits least significant first *)
  let rec bits p acc = match p with
    | XH -> true :: acc
    | XO q -> bits q (false :: acc)
    | XI q -> bits q (true :: acc) in
  (* bits returns msb first because we cons lsb first then deeper bits in front *)
  let msb_first = bits p [] in
  let nb = List.length msb_first in
  let pad = (4 - nb mod 4) mod 4 in
  let padded = List.init pad (fun _ -> false) @ msb_first in
  let buf = Buffer.create 16 in
  let rec go = function
    | a :: b :: c :: d :: r ->
      let v = (if a then 8 else 0) + (if b then 4 else 0) + (if c then 2 else 0) + (if d then 1 else 0) in
      Buffer.add_char buf "0123456789abcdef".[v]; go r
    | [] -> ()
    | _ -> assert false in
  go padded; Buffer.contents buf
let string_of_z (x : z) : string =
  match x with Z0 -> "0" | Zpos p -> hex_of_pos p | Zneg p -> "-" ^ hex_of_pos p
let string_of_q (x : q) : string =
  let x = qred x in
  string_of_z x.qnum ^ "/" ^ hex_of_pos x.qden

(* ---------- token stream ---------- *)
type toks = { mutable rest : string list }
let next (t : toks) : string =
  match t.rest with [] -> failwith "unexpected end of line" | x :: r -> t.rest <- r; x
let next_int t = int_of_string (next t)
let next_q t = q_of_string (next t)
let next_list t f = let k = next_int t in List.init k (fun _ -> f t)

let computer_of_string (s : string) : computer =
  if s = "ref" then CRef else if s = "cached" then CCached
  else if String.length s > 4 && String.sub s 0 4 = "sam:" then
    CSam (nat_of_int (int_of_string (String.sub s 4 (String.length s - 4))))
  else failwith ("unknown computer " ^ s)

(* table from "k lo hi" triples in id order *)
let read_table (t : toks) (size : int) : table =
  let tb = ref empty0 in
  for i = 0 to size - 1 do
    let k = next_int t in
    let l = next_q t in
    let h = next_q t in
    tb := set !tb (n_of_int i) { known = (k = 1); lo = l; hi = h }
  done; !tb
let print_table (buf : Buffer.t) (tb : table) (size : int) : unit =
  for i = 0 to size - 1 do
    let r = get tb (n_of_int i) in
    Buffer.add_string buf (Printf.sprintf " %d %s %s" (if r.known then 1 else 0) (string_of_q r.lo) (string_of_q r.hi))
  done

let read_op (t : toks) : op =
  let n_ t = n_of_int (next_int t) in
  match next t with
  | "set" -> let s = n_ t in let x = next_q t in OSet (s, x)
  | "unset" -> OUnset (n_ t)
  | "reveal" -> let s = n_ t in let x = next_q t in OReveal (s, x)
  | "unreveal" -> OUnreveal (n_ t)
  | "values_all" -> OSetValuesAll (next_list t next_q)
  | "values_some" -> let ss = next_list t n_ in let xs = next_list t next_q in OSetValuesSome (ss, xs)
  | "known_all" -> OSetKnownAll (next_list t next_q)
  | "known_some" -> let ss = next_list t n_ in let xs = next_list t next_q in OSetKnownSome (ss, xs)
  | "lowers_all" -> OSetLowersAll (next_list t next_q)
  | "lowers_some" -> let ss = next_list t n_ in let xs = next_list t next_q in OSetLowersSome (ss, xs)
  | "uppers_all" -> OSetUppersAll (next_list t next_q)
  | "uppers_some" -> let ss = next_list t n_ in let xs = next_list t next_q in OSetUppersSome (ss, xs)
  | "lower" -> let s = n_ t in let x = next_q t in OSetLower (s, x)
  | "upper" -> let s = n_ t in let x = next_q t in OSetUpper (s, x)
  | "compute" -> OCompute (computer_of_string (next t))
  | s -> failwith ("unknown op " ^ s)


(* ---------- command registry ---------- *)
let commands : (string, toks -> Buffer.t -> unit) Hashtbl.t = Hashtbl.create 64
let register (name : string) (f : toks -> Buffer.t -> unit) : unit = Hashtbl.replace commands name f
let add = Buffer.add_string
let print_q_list (buf : Buffer.t) (l : q list) : unit =
  List.iter (fun x -> Buffer.add_string buf (" " ^ string_of_q x)) l
let next_n t = n_of_int (next_int t)
let next_nat t = nat_of_int (next_int t)
let next_bool t = (next_int t = 1)

open Model
open Drv_util

(* ---------- commands ---------- *)
let cmd_bounds (t : toks) (buf : Buffer.t) : unit =
  let c = computer_of_string (next t) in
  let n = next_int t in
  let size = 1 lsl n in
  let tb = read_table t size in
  match compute c (nat_of_int n) tb with
  | None -> Buffer.add_string buf "err"
  | Some tb' -> Buffer.add_string buf "ok"; print_table buf tb' size

(* ops <n> <k> op_1 ... op_k : history from a fresh game; after every op: status + table *)
let cmd_ops (t : toks) (buf : Buffer.t) : unit =
  let n = next_int t in
  let size = 1 lsl n in
  let k = next_int t in
  let tb = ref init_table in
  for _ = 1 to k do
    let o = read_op t in
    let (tb', st) = step (nat_of_int n) !tb o in
    tb := tb';
    Buffer.add_string buf (match st with Ok -> "| ok" | Err -> "| err");
    print_table buf !tb size;
    Buffer.add_string buf " "
  done


let () = register "bounds" cmd_bounds; register "ops" cmd_ops

(* structure <n> : the relation matrix, row by row *)
let int_of_z (x : z) : int = match x with Z0 -> 0 | Zpos p -> int_of_pos p | Zneg p -> - (int_of_pos p)
let cmd_structure (t : toks) (buf : Buffer.t) : unit =
  let n = next_int t in
  List.iter (fun row -> List.iter (fun x -> add buf (string_of_int (int_of_z x)); add buf " ") row; add buf "| ")
    (st_matrix (nat_of_int n))
let () = register "structure" cmd_structure

open Model
open Drv_util

(* ---------- commands ---------- *)
let cmd_bounds (t : toks) (buf : Buffer.t) : unit =
  let c = computer_of_string (next t) in
  let n = next_int t in
  let size = 1 lsl n in
  let tb = read_table t size in
  match compute c (nat_of_int n) tb with
  | None -> Buffer.add_string buf "err"
  | Some tb' -> Buffer.add_string buf "ok"; print_table buf tb' size

(* ops <n> <k> op_1 ... op_k : history from a fresh game; after every op: status + table *)
let cmd_ops (t : toks) (buf : Buffer.t) : unit =
  let n = next_int t in
  let size = 1 lsl n in
  let k = next_int t in
  let tb = ref init_table in
  for _ = 1 to k do
    let o = read_op t in
    let (tb', st) = step (nat_of_int n) !tb o in
    tb := tb';
    Buffer.add_string buf (match st with Ok -> "| ok" | Err -> "| err");
    print_table buf !tb size;
    Buffer.add_string buf " "
  done


let () = register "bounds" cmd_bounds; register "ops" cmd_ops

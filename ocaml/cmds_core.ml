open Model
open Drv_util

(* ---------- commands ---------- *)
let cmd_bounds (t : toks) (buf : Buffer.t) : unit =
  let c = computer_of_string (next t) in
  let n = next_int t in
  let size = 1 lsl n in
  let tb = read_table t size in
  match compute c (nat_of_int n) tb with
  | None -> Buffer.add_string buf "err"
  | Some tb' -> Buffer.add_string buf "ok"; print_table buf tb' size

(* ops <n> <k> op_1 ... op_k : history from a fresh game; after every op: status + table *)
let cmd_ops (t : toks) (buf : Buffer.t) : unit =
  let n = next_int t in
  let size = 1 lsl n in
  let k = next_int t in
  let tb = ref init_table in
  for _ = 1 to k do
    let (tb', st) =
      (match t.rest with
       | "neg" :: r -> t.rest <- r; (neg_table (nat_of_int n) !tb, Ok)
       | _ -> let o = read_op t in step (nat_of_int n) !tb o) in
    tb := tb';
    Buffer.add_string buf (match st with Ok -> "| ok" | Err -> "| err");
    print_table buf !tb size;
    Buffer.add_string buf " "
  done


let () = register "bounds" cmd_bounds; register "ops" cmd_ops

(* structure <n> : the relation matrix, row by row *)
let int_of_z (x : z) : int = match x with Z0 -> 0 | Zpos p -> int_of_pos p | Zneg p -> - (int_of_pos p)
let cmd_structure (t : toks) (buf : Buffer.t) : unit =
  let n = next_int t in
  List.iter (fun row -> List.iter (fun x -> add buf (string_of_int (int_of_z x)); add buf " ") row; add buf "| ")
    (st_matrix (nat_of_int n))
let () = register "structure" cmd_structure

(* getters <n> <table> <k> ids... : get_value per id | get_values_of ids | get_known_values_of ids | full *)
let cmd_getters (t : toks) (buf : Buffer.t) : unit =
  let n = next_int t in
  let size = 1 lsl n in
  let tb = read_table t size in
  let ids = next_list t next_n in
  List.iter (fun s -> match get_value tb s with None -> add buf "E " | Some x -> add buf (string_of_q x ^ " ")) ids;
  add buf "| ";
  (match get_values_of tb ids with None -> add buf "E " | Some l -> List.iter (fun x -> add buf (string_of_q x ^ " ")) l);
  add buf "| ";
  List.iter (fun o -> match o with None -> add buf "nan " | Some x -> add buf (string_of_q x ^ " ")) (get_known_values_of tb ids);
  add buf "| ";
  List.iter (fun s -> match get_known_value tb s with None -> add buf "None " | Some x -> add buf (string_of_q x ^ " ")) ids;
  add buf "| ";
  add buf (if is_full (nat_of_int n) tb then "1" else "0")
let () = register "getters" cmd_getters

open Model
open Drv_util

(* eldraws <shared|perenv> <reps> <procs|-1> : which (stream, position) each repetition's hidden game comes from *)
let cmd_eldraws (t : toks) (buf : Buffer.t) : unit =
  let s = (match next t with "shared" -> ElShared | "perenv" -> ElPerEnv | x -> failwith ("scheme " ^ x)) in
  let reps = next_int t in
  let procs = next_int t in
  let chunks = if procs < 0 then None else Some (el_pool_chunks (nat_of_int reps) (nat_of_int procs)) in
  List.iter (fun (st, pos) ->
      add buf "["; List.iter (fun k -> add buf (string_of_int (int_of_nat k) ^ ",")) st; add buf "]";
      add buf (Printf.sprintf ":%d " (int_of_nat pos)))
    (el_hidden_draws s chunks (nat_of_int reps));
  add buf "| chunks";
  (match chunks with None -> () | Some cs -> List.iter (fun c -> add buf (" " ^ string_of_int (int_of_nat c))) cs)

(* evalone <n> <comp> <gap> <budget|-1> <k> init.. <limit> <largest|greedy|greedy_worst> <2^n v> <2^n nv> *)
let cmd_evalone (t : toks) (buf : Buffer.t) : unit =
  let n = next_int t in
  let c = computer_of_string (next t) in
  let g = Cmds_env.gap_of_string (next t) in
  let b = next_int t in
  let init = next_list t next_n in
  let limit = next_nat t in
  let pol = (match next t with
      | "largest" -> sv_largest | "greedy" -> sv_greedy false | "greedy_worst" -> sv_greedy true
      | x -> failwith ("policy " ^ x)) in
  let v = List.init (1 lsl n) (fun _ -> next_q t) in
  let nv = List.init (1 lsl n) (fun _ -> next_q t) in
  let e = ev_make (nat_of_int n) c g (if b < 0 then None else Some (nat_of_int b)) init in
  match el_eval_one pol e limit v nv with
  | None -> add buf "err"
  | Some (gs, cs) ->
    add buf "G"; List.iter (fun x -> add buf " "; Cmds_env.print_qopt buf x) gs;
    add buf " A"; List.iter (fun s -> add buf (" " ^ string_of_int (int_of_n s))) cs

let () = register "eldraws" cmd_eldraws; register "evalone" cmd_evalone

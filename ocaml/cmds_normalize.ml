(* C15 driver commands: normalisation of value tables and of graph games.  Parsing / printing only.
   nz_norm  <n> <table>            -> ok <surplus> <n singleton values> | <table after normalize> | <table just before the division> | err
   nz_rt    <n> <table>            -> ok <table after normalize then denormalize with the returned info> | err
   nz_den   <n> <s> <k> <sv_1..k> <table>  -> ok <table> | err
   nz_graph <n> <n*n weights>      -> ok <surplus> <n singleton values> M <normalised n*n matrix> V <2^n values of it>
                                      T <2^n values of normalize_icg(tabulated W)> R <n*n matrix after denormalize_graph>
   nz_tab   <n> <n*n weights>      -> 2^n values of the polished matrix (GraphCooperativeGame(W).get_values()) *)
open Model
open Drv_util

let read_mat (t : toks) (n : int) : q list list =
  List.init n (fun _ -> List.init n (fun _ -> next_q t))
let print_mat (buf : Buffer.t) (w : q list list) (n : int) : unit =
  for i = 0 to n - 1 do
    for j = 0 to n - 1 do
      Buffer.add_string buf (" " ^ string_of_q (nz_w w (nat_of_int i) (nat_of_int j)))
    done
  done

let cmd_nz_norm (t : toks) (buf : Buffer.t) : unit =
  let n = next_int t in
  let size = 1 lsl n in
  let tb = read_table t size in
  match nz_normalize_icg (nat_of_int n) tb with
  | None -> add buf "err"
  | Some (tb', (s, sv)) ->
    add buf ("ok " ^ string_of_q s); print_q_list buf sv;
    add buf " |"; print_table buf tb' size;
    (match nz_subtract (nat_of_int n) tb with
     | None -> add buf " | err"
     | Some t1 -> add buf " |"; print_table buf t1 size)

let cmd_nz_rt (t : toks) (buf : Buffer.t) : unit =
  let n = next_int t in
  let size = 1 lsl n in
  let tb = read_table t size in
  match nz_normalize_icg (nat_of_int n) tb with
  | None -> add buf "err"
  | Some (tb', info) ->
    (match nz_denormalize (nat_of_int n) tb' info with
     | None -> add buf "err"
     | Some t2 -> add buf "ok"; print_table buf t2 size)

let cmd_nz_den (t : toks) (buf : Buffer.t) : unit =
  let n = next_int t in
  let size = 1 lsl n in
  let s = next_q t in
  let sv = next_list t next_q in
  let tb = read_table t size in
  match nz_denormalize (nat_of_int n) tb (s, sv) with
  | None -> add buf "err"
  | Some t2 -> add buf "ok"; print_table buf t2 size

let cmd_nz_graph (t : toks) (buf : Buffer.t) : unit =
  let n = next_int t in
  let nn = nat_of_int n in
  let size = 1 lsl n in
  let w = read_mat t n in
  let (s, sv) = nz_graph_norminfo nn w in
  let w' = nz_normalize_graph nn w in
  add buf ("ok " ^ string_of_q s); print_q_list buf sv;
  add buf " M"; print_mat buf w' n;
  add buf " V";
  for c = 0 to size - 1 do add buf (" " ^ string_of_q (nz_tabulate nn w' (n_of_int c))) done;
  add buf " T";
  (match nz_normalize_icg nn (nz_table_of nn (nz_tabulate nn w)) with
   | None -> add buf " err"
   | Some (tb', _) -> print_table buf tb' size);
  add buf " R"; print_mat buf (nz_denormalize_graph nn w' (s, sv)) n

let cmd_nz_tab (t : toks) (buf : Buffer.t) : unit =
  let n = next_int t in
  let nn = nat_of_int n in
  let w = nz_polish nn (read_mat t n) in
  for c = 0 to (1 lsl n) - 1 do add buf (" " ^ string_of_q (nz_tabulate nn w (n_of_int c))) done

let () =
  register "nz_norm" cmd_nz_norm; register "nz_rt" cmd_nz_rt; register "nz_den" cmd_nz_den;
  register "nz_graph" cmd_nz_graph; register "nz_tab" cmd_nz_tab

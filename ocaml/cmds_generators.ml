(* C10: one run of a registry entry of generators.py on recorded draws.
   gn <index of the key in GENERATORS> <n> <draws>   ->   err | ok <support> <sa> <mono> v_0 ... v_{2^n-1}
   gnflags <index>                                    ->   <family_ok> <mono family> <external>
   gnfam <index>                                      ->   family and static parameters held by the extracted registry
   draws:  factory <owner> <k> w_1..w_k <m> x_1 y_1 .. x_m y_m | owner <o> | cheer <owner> py|np <c>
         | matrix <r> (<k> x_1..x_k)*r | perm <k> p_1..p_k | weights <r> (<k> x_1..x_k)*r
         | picks <k> (p x)*k | k <k> | sets <r> (<k> e_1..e_k)*r
   Parsing / printing only; every computation is a call into Model. *)
open Model
open Drv_util

let b01 (b : bool) : string = if b then "1" else "0"

let read_draws (t : toks) : gn_draws =
  let qlist t = next_list t next_q in
  match next t with
  | "factory" ->
    let owner = next_nat t in
    let w = qlist t in
    let tab = next_list t (fun t -> let x = next_q t in let y = next_q t in (x, y)) in
    DrFactory (owner, w, tab)
  | "owner" -> DrOwner (next_nat t)
  | "cheer" ->
    let owner = next_nat t in
    let kind = next t in
    let c = next_nat t in
    DrCheer (owner, (match kind with "py" -> PyInt c | "np" -> NpInt c | s -> failwith ("unknown int kind " ^ s)))
  | "matrix" -> DrMatrix (next_list t qlist)
  | "perm" -> DrPerm (next_list t next_nat)
  | "weights" -> DrWeights (next_list t qlist)
  | "picks" -> DrPicks (next_list t (fun t -> let p = next_nat t in let x = next_q t in (p, x)))
  | "k" -> DrK (next_nat t)
  | "sets" -> DrSets (next_list t (fun t -> next_list t next_nat))
  | s -> failwith ("unknown draws " ^ s)

let cmd_gn (t : toks) (buf : Buffer.t) : unit =
  let idx = next_nat t in
  let n = next_nat t in
  let d = read_draws t in
  match gn_registry_run idx n d with
  | None -> add buf "err"
  | Some tab ->
    add buf ("ok " ^ b01 (gn_draws_okb d) ^ " " ^ b01 (gn_sa_b n tab) ^ " " ^ b01 (gn_mono_b n tab));
    print_q_list buf tab

let cmd_gnflags (t : toks) (buf : Buffer.t) : unit =
  let idx = next_int t in
  match List.nth_opt gn_registry_flags idx with
  | None -> add buf "none"
  | Some (ok, (mono, ext)) -> add buf (b01 ok ^ " " ^ b01 mono ^ " " ^ b01 ext)

(* gnfam <index> -> the family the extracted registry holds at that index (fingerprint compared with the dump) *)
let cmd_gnfam (t : toks) (buf : Buffer.t) : unit =
  let idx = next_int t in
  let opt = function None -> "none" | Some k -> string_of_int (int_of_nat k) in
  let i k = string_of_int (int_of_nat k) in
  match List.nth_opt gn_registry_families idx with
  | None -> add buf "absent"
  | Some f ->
    add buf (match f with
      | FFactory (vf, rw, o) ->
        "factory " ^ (match vf with VId -> "id" | VSq -> "sq" | VOne -> "one" | VExp -> "exp") ^ " " ^ b01 rw ^ " " ^ opt o
      | FPredictible -> "predictible_factory"
      | FCheer (o, c) -> "cheerleader " ^ opt o ^ " " ^ opt c
      | FCheerNext -> "cheerleader_next"
      | FGraph -> "graph"
      | FCycle -> "cycle"
      | FXos (k, a, b) -> "xos " ^ i k ^ " " ^ b01 a ^ " " ^ b01 b
      | FXs k -> "xs " ^ i k
      | FOxs (k, a) -> "oxs " ^ i k ^ " " ^ b01 a
      | FKBudget -> "kbudget"
      | FCoverage m -> "coverage " ^ i m
      | FNone -> "none")

let () = register "gn" cmd_gn; register "gnflags" cmd_gnflags; register "gnfam" cmd_gnfam

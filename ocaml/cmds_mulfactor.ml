(* C07 (multiplicative factors) driver command.  Parsing / printing only.
   mf <n> <2^n values of the game> <2^n values of the approximating game> <table: 2^n rows "known lower upper">
     -> four results, each a rational or `err` (an assert fires / np.max of an empty array):
        mul_factor_to_approximation(game, approx)  mul_factor_upper_to_approximation(approx, table)
        mul_factor_to_lower_bound(game, table)     mul_factor_lower_upper_bound(table) *)
open Model
open Drv_util

let cmd_mf (t : toks) (buf : Buffer.t) : unit =
  let n = next_int t in
  let size = 1 lsl n in
  let v = List.init size (fun _ -> next_q t) in
  let a = List.init size (fun _ -> next_q t) in
  let tb = read_table t size in
  let rs = mf_all (nat_of_int n) v a tb in
  List.iteri (fun i r ->
    if i > 0 then add buf " ";
    match r with None -> add buf "err" | Some q -> add buf (string_of_q q)) rs

let () = register "mf" cmd_mf

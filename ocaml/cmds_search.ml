open Model
open Drv_util

let print_ids buf l = add buf "["; List.iter (fun s -> add buf (string_of_int (int_of_n s) ^ ",")) l; add buf "]"

(* seqs <n> <table> <max|-1> *)
let cmd_seqs (t : toks) (buf : Buffer.t) : unit =
  let n = next_int t in
  let tb = read_table t (1 lsl n) in
  let m = next_int t in
  List.iter (fun s -> print_ids buf s; add buf " ")
    (sr_sequences (nat_of_int n) tb (if m < 0 then None else Some (nat_of_int m)))

(* srvalues <comp> <gap> <n> <2^n values> <k> known ids <m> then m sequences each "<len> ids..." ; chunk sizes: <c> sizes...
   prints the values computed by the chunked starmap model, in input order *)
let cmd_srvalues (t : toks) (buf : Buffer.t) : unit =
  let c = computer_of_string (next t) in
  let g = Cmds_env.gap_of_string (next t) in
  let n = next_int t in
  let v = List.init (1 lsl n) (fun _ -> next_q t) in
  let known = next_list t next_n in
  let seqs = next_list t (fun t -> next_list t next_n) in
  let sizes = next_list t next_int in
  let rec chunk l sizes = match sizes with
    | [] -> if l = [] then [] else [l]
    | k :: r ->
      let rec take k l acc = if k = 0 then (List.rev acc, l) else (match l with [] -> (List.rev acc, []) | x :: xs -> take (k - 1) xs (x :: acc)) in
      let (a, b) = take k l [] in a :: chunk b r in
  let chunks = chunk seqs sizes in
  let res = sr_starmap (sr_task c g (nat_of_int n) v known) init_table chunks in
  List.iter (fun (s, x) -> print_ids buf s; add buf " "; Cmds_env.print_qopt buf x; add buf " ; ") res

(* beststates <max_steps> <reps> <ncands> each: "<len> ids..." then reps values *)
let cmd_beststates (t : toks) (buf : Buffer.t) : unit =
  let ms = next_int t in
  let reps = next_int t in
  let cands = next_list t (fun t -> let s = next_list t next_n in let col = List.init reps (fun _ -> next_q t) in (s, col)) in
  List.iter (fun b -> print_ids buf b.sb_seq; print_q_list buf b.sb_col; add buf " ; ")
    (sr_best_states (nat_of_int ms) (nat_of_int reps) cands)

let () = register "seqs" cmd_seqs; register "srvalues" cmd_srvalues; register "beststates" cmd_beststates

(* egsearch <comp> <gap> <n> <ngames> games(2^n values each) <k> known ids <max_steps> <m> possible ids *)
let cmd_egsearch (t : toks) (buf : Buffer.t) : unit =
  let c = computer_of_string (next t) in
  let g = Cmds_env.gap_of_string (next t) in
  let n = next_int t in
  let games = next_list t (fun t -> List.init (1 lsl n) (fun _ -> next_q t)) in
  let known = next_list t next_n in
  let ms = next_nat t in
  let possible = next_list t next_n in
  match eg_search c g (nat_of_int n) games known ms possible with
  | None -> add buf "err"
  | Some (seq, rows) ->
    print_ids buf seq;
    List.iter (fun r -> add buf " ;"; print_q_list buf r) rows
let () = register "egsearch" cmd_egsearch

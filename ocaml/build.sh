#!/bin/bash
# build the extracted model + driver; run from anywhere
set -e
cd "$(dirname "$0")"
coqc -Q ../coq/theories ICG ../coq/theories/Extract.v
ocamlfind ocamlopt -O2 -w -a -package str model.mli model.ml drv_util.ml cmds_*.ml driver.ml -o driver 2>/dev/null || \
ocamlfind ocamlopt -w -a model.mli model.ml drv_util.ml cmds_*.ml driver.ml -o driver

From ICG Require Import Prelude Regret.
Theorem rg_stub : True. Proof. exact I. Qed.
Print Assumptions rg_stub.

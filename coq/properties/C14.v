(* C14 - regret minimiser: constructible at every size; strategies valid distributions.
   Only statements + `exact`; the proofs are in theories/RegretProofs.v, the model in theories/Regret.v. *)
From ICG Require Import Prelude Bits Regret RegretProofs.
From Coq Require Import Sorted.

(* ---- the ranking of coalition sets is a bijection ordered by set size: for ALL nc (number of viable coalitions), lim >= 1 *)
Theorem ranking_bijection : forall nc lim : nat,
  (1 <= lim)%nat ->
  NoDup (rg_rank_to_id nc lim) /\
  StronglySorted (fun a b => (rg_popcount a <= rg_popcount b)%nat) (rg_rank_to_id nc lim) /\
  (forall m, In m (rg_rank_to_id nc lim) <-> (m < 2 ^ N.of_nat nc)%N /\ (rg_popcount m <= lim)%nat).
Proof. exact rg_ranking_bijection. Qed.
Print Assumptions ranking_bijection.

Example ranking_bijection_ex :
  rg_rank_to_id 3 2 = [0; 1; 2; 4; 3; 5; 6]%N /\ length (rg_rank_to_id 10 3) = 176%nat.
Proof. split; vm_compute; reflexivity. Qed.

(* itertools.combinations enumeration spec (own minimal copy; Combs.v is written in parallel) *)
Theorem combinations_spec : forall (A : Type) (l : list A) (k : nat) (c : list A),
  In c (rg_combs l k) <-> rg_subseq c l /\ length c = k.
Proof. exact @rg_in_combs. Qed.
Print Assumptions combinations_spec.

Theorem combinations_nodup : forall (A : Type) (l : list A), NoDup l -> forall k, NoDup (rg_combs l k).
Proof. exact @rg_NoDup_combs. Qed.
Print Assumptions combinations_nodup.

Example combinations_ex : rg_combs [1; 2; 3; 4]%nat 2 = [[1; 2]; [1; 3]; [1; 4]; [2; 3]; [2; 4]; [3; 4]]%nat /\ NoDup [1; 2; 3; 4]%nat.
Proof. split; [reflexivity| repeat constructor; simpl; intuition lia]. Qed.

(* ---- id -> rank, table sized by the largest id: the inverse of rank -> id *)
Theorem id_to_rank_inverse_ById : forall nc lim r : nat,
  (r < length (rg_rank_to_id nc lim))%nat ->
  rg_id_to_rank ById nc lim (nth r (rg_rank_to_id nc lim) 0%N) = Some r.
Proof. exact rg_id_to_rank_inverse_ById. Qed.
Print Assumptions id_to_rank_inverse_ById.

Example id_to_rank_inverse_ById_ex : (5 < length (rg_rank_to_id 10 1))%nat /\ rg_id_to_rank ById 10 1 16%N = Some 5%nat.
Proof. split; vm_compute; [lia| reflexivity]. Qed.

(* ---- the constructor as it stands (table sized by the number of viable sets) fails: Python IndexError *)
Theorem constructor_ByCount_refuted :
  exists np lim : nat, (1 <= lim)%nat /\ rg_ncoal np = 3%nat /\
    forall clamp plus, rg_construct (rg_mkvariant ByCount clamp) np lim plus = RgIndexError.
Proof. exact rg_constructor_ByCount_refuted. Qed.
Print Assumptions constructor_ByCount_refuted.

Theorem constructor_ById_total : forall clamp (np nc lim : nat) plus,
  exists s, rg_mk (rg_mkvariant ById clamp) np nc lim plus = RgOk s /\
            rg_nc s = nc /\ rg_r2i s = rg_rank_to_id nc lim /\
            length (rg_regret s) = rg_nrm s /\ length (rg_strat s) = rg_nrm s.
Proof. exact rg_constructor_ById_total. Qed.
Print Assumptions constructor_ById_total.

(* ---- unclamped limit above the number of coalitions: 0/0 at the full set, NaN after one iteration *)
Theorem rm_unclamped_refuted :
  exists (np lim : nat) (s0 : rg_rm), (1 <= lim)%nat /\ rg_construct rg_unclamped np lim false = RgOk s0 /\
    rg_strategy s0 (N.ones (N.of_nat (rg_nc s0))) = RgNaN /\
    rg_iteration s0 [] [] = RgNaN /\
    rg_bind (rg_iteration s0 [] []) (fun s1 => rg_strategy s1 0%N) = RgNaN.
Proof. exact rg_rm_unclamped_refuted. Qed.
Print Assumptions rm_unclamped_refuted.

(* ---- regret matching at one node *)
Theorem strategy_distribution : forall (nc : nat) (m : N) (row : list Q),
  length row = nc ->
  (exists a, (a < nc)%nat /\ tb m a = false) ->
  (forall a, (a < nc)%nat -> tb m a = true -> nth a row 0 <= 0) ->
  exists sg, rg_match nc m row = RgOk sg /\ length sg = nc /\
    (forall x, In x sg -> 0 <= x) /\ qsum sg == 1 /\
    (forall a, (a < nc)%nat -> tb m a = true -> nth a sg 0 == 0).
Proof. exact rg_strategy_distribution. Qed.
Print Assumptions strategy_distribution.

Example strategy_distribution_ex :
  let row := [-(1#2); 1#2; 3#2] in
  length row = 3%nat /\ (exists a, (a < 3)%nat /\ tb 1%N a = false) /\
  (forall a, (a < 3)%nat -> tb 1%N a = true -> nth a row 0 <= 0) /\
  rg_match 3 1%N row = RgOk [0; 1#4; 3#4].
Proof.
  cbv zeta. split; [reflexivity|]. split; [exists 1%nat; split; [lia| reflexivity]|]. split.
  - intros a Ha Ht. destruct a as [|[|[|a]]]; [simpl; lra| vm_compute in Ht; discriminate| vm_compute in Ht; discriminate| lia].
  - vm_compute. reflexivity.
Qed.

Theorem regret_orthogonal : forall (nc : nat) (m : N) (row qrow sg : list Q),
  rg_match nc m row = RgOk sg -> length row = nc -> length qrow = nc ->
  rg_dot sg (rg_map2 Qminus (rg_regret_row false row qrow (Qred (rg_dot qrow sg))) row) == 0.
Proof. exact rg_regret_orthogonal. Qed.
Print Assumptions regret_orthogonal.

Example regret_orthogonal_ex :
  let row := [-(1#2); 1#2; 3#2] in let q := [0; 5; 1] in let sg := [0; 1#4; 3#4] in
  rg_match 3 1%N row = RgOk sg /\ length row = 3%nat /\ length q = 3%nat /\
  rg_map2 Qminus (rg_regret_row false row q (Qred (rg_dot q sg))) row = [-8 # 4; 12 # 4; -4 # 4].
Proof. cbv zeta. repeat split; vm_compute; reflexivity. Qed.

(* ---- save / load *)
Theorem save_load_id : forall v s, rg_wf v s ->
  rg_load v (rg_save s) = RgOk s /\
  forall hist, rg_bind (rg_load v (rg_save s)) (fun s' => rg_run s' hist) = rg_run s hist.
Proof. exact rg_save_load_both. Qed.
Print Assumptions save_load_id.

(* the hypothesis rg_wf holds for every state reachable from a constructor by iterations *)
Theorem reachable_wf : forall v np lim plus s0 hist s,
  rg_construct v np lim plus = RgOk s0 -> rg_run s0 hist = RgOk s -> rg_wf v s.
Proof. exact rg_reachable_wf. Qed.
Print Assumptions reachable_wf.

Example save_load_id_ex :
  exists s0 s, rg_construct (rg_mkvariant ById true) 3 2 true = RgOk s0 /\
    rg_run s0 [([1; 0; 0], [[3; 5]; [5; 6]; [3; 6]]%N); ([0; 1; 0], [[3; 5]; [5; 6]; [3; 6]]%N)] = RgOk s /\
    rg_iter s = 2%nat /\ nth 0 (rg_regret s) [] = [1#6; 1#6; 1#2].
Proof.
  destruct (rg_construct (rg_mkvariant ById true) 3 2 true) as [s0| | |] eqn:E; try (vm_compute in E; discriminate).
  exists s0.
  destruct (rg_run s0 [([1; 0; 0], [[3; 5]; [5; 6]; [3; 6]]%N); ([0; 1; 0], [[3; 5]; [5; 6]; [3; 6]]%N)]) as [s| | |] eqn:E2.
  - exists s. split; [reflexivity|]. split; [reflexivity|].
    vm_compute in E. inversion E. subst s0. vm_compute in E2. inversion E2. subst s. split; reflexivity.
  - vm_compute in E. inversion E. subst s0. vm_compute in E2. discriminate.
  - vm_compute in E. inversion E. subst s0. vm_compute in E2. discriminate.
  - vm_compute in E. inversion E. subst s0. vm_compute in E2. discriminate.
Qed.

(* ---- invariant over ALL iteration histories with non-negative terminal values, every decision node, plain and plus,
        every number of coalitions nc and every limit >= 1 (table by id; limit clamped or within nc) *)
Theorem rm_invariant : forall clamp (np nc lim : nat) plus s0 hist s,
  (1 <= lim)%nat -> (clamp = true \/ (lim <= nc)%nat) ->
  rg_mk (rg_mkvariant ById clamp) np nc lim plus = RgOk s0 ->
  Forall (fun tu => rg_nonneg (fst tu)) hist ->
  rg_run s0 hist = RgOk s ->
  forall i, (i < rg_nrm s)%nat ->
    (exists sg, rg_strategy s (rg_node s i) = RgOk sg /\ length sg = rg_nc s /\ rg_nonneg sg /\ qsum sg == 1 /\ rg_used0 s i sg) /\
    (forall a, (a < rg_nc s)%nat -> tb (rg_node s i) a = true -> nth a (nth i (rg_regret s) []) 0 <= 0) /\
    (rg_plus s = true -> rg_nonneg (nth i (rg_regret s) [])).
Proof. exact rg_rm_invariant_full. Qed.
Print Assumptions rm_invariant.

Example rm_invariant_ex :
  let hist := [([1; 0; 0], [[3; 5]; [5; 6]; [3; 6]]%N); ([0; 1; 0], [[3; 5]; [5; 6]; [3; 6]]%N)] in
  Forall (fun tu => rg_nonneg (fst tu)) hist /\
  exists s0 s, rg_mk (rg_mkvariant ById true) 3 3 2 true = RgOk s0 /\ rg_run s0 hist = RgOk s /\ rg_nrm s = 4%nat /\
               nth 0 (rg_regret s) [] = [1#6; 1#6; 1#2].
Proof.
  cbv zeta. split.
  - repeat constructor; simpl; lra.
  - destruct (rg_mk (rg_mkvariant ById true) 3 3 2 true) as [s0| | |] eqn:E; try (vm_compute in E; discriminate).
    exists s0. vm_compute in E. apply rg_ok_inj in E. subst s0.
    match goal with |- exists s, _ /\ ?r = RgOk s /\ _ => destruct r as [s| | |] eqn:E2 end;
      vm_compute in E2; try discriminate.
    exists s. apply rg_ok_inj in E2. subst s. repeat split; reflexivity.
Qed.

(* ---- average strategy (get_average_strategy, in the coalition space of the original game) for n = 3, 4, 5 *)
Theorem avg_strategy_distribution : forall clamp (np lim : nat) plus s0 hist s,
  In np [3; 4; 5]%nat -> (1 <= lim)%nat -> (clamp = true \/ (lim <= rg_ncoal np)%nat) ->
  rg_construct (rg_mkvariant ById clamp) np lim plus = RgOk s0 ->
  Forall (fun tu => rg_nonneg (fst tu)) hist ->
  rg_run s0 hist = RgOk s ->
  forall i past, (i < rg_nrm s)%nat -> rg_meta_id (rg_np s) (rg_pmap s) past = RgOk (rg_node s i) ->
  exists av, rg_average_strategy s past = RgOk av /\ length av = length (rg_pmap s) /\ rg_nonneg av /\ qsum av == 1 /\
    (forall c, ~ nth c av 0 == 0 ->
       exists p, nth c (rg_pmap s) (-1)%Z = Z.of_nat p /\ (p < rg_nc s)%nat /\ tb (rg_node s i) p = false).
Proof. exact rg_avg_full. Qed.
Print Assumptions avg_strategy_distribution.

(* the same in player-id space for every nc (no restriction on the number of players) *)
Theorem avg_strategy_distribution_pid : forall s i, rg_inv s -> (i < rg_nrm s)%nat ->
  exists av, rg_bind (rg_average_pid s (rg_node s i)) rg_normalize = RgOk av /\
             length av = rg_nc s /\ rg_nonneg av /\ qsum av == 1 /\ rg_used0 s i av.
Proof. exact rg_avg_pid_distribution. Qed.
Print Assumptions avg_strategy_distribution_pid.

Example avg_strategy_distribution_ex :
  let hist := [([1; 0; 0], [[3; 5]; [5; 6]; [3; 6]]%N); ([0; 1; 0], [[3; 5]; [5; 6]; [3; 6]]%N)] in
  exists s0 s, rg_construct (rg_mkvariant ById true) 3 2 false = RgOk s0 /\ rg_run s0 hist = RgOk s /\
    (1 < rg_nrm s)%nat /\ rg_meta_id (rg_np s) (rg_pmap s) [3%N] = RgOk (rg_node s 1) /\
    rg_average_strategy s [] = RgOk [0; 0; 0; 5 # 12; 0; 5 # 12; 1 # 6; 0].
Proof.
  cbv zeta.
  destruct (rg_construct (rg_mkvariant ById true) 3 2 false) as [s0| | |] eqn:E; try (vm_compute in E; discriminate).
  exists s0. vm_compute in E. apply rg_ok_inj in E. subst s0.
  match goal with |- exists s, _ /\ ?r = RgOk s /\ _ => destruct r as [s| | |] eqn:E2 end;
    vm_compute in E2; try discriminate.
  exists s. apply rg_ok_inj in E2. subst s. repeat split; vm_compute; try reflexivity. lia.
Qed.

(* ---- orthogonality for a whole iteration: at EVERY decision node the regret added (before plus-clipping) is orthogonal
        to the strategy played there; the new regret table is that sum (plain) / its positive part (plus) *)
Theorem regret_orthogonal_iteration : forall s terminal used s',
  rg_inv s -> rg_nonneg terminal -> rg_iteration s terminal used = RgOk s' ->
  exists qs exl,
    rg_regret s' = rg_regret_update (rg_plus s) (rg_regret s) qs exl /\
    forall i, (i < rg_nrm s)%nat ->
      exists sg, rg_strategy s (rg_node s i) = RgOk sg /\
        rg_dot sg (rg_map2 Qminus (nth i (rg_regret_update false (rg_regret s) qs exl) []) (nth i (rg_regret s) [])) == 0.
Proof. exact rg_iteration_orthogonal. Qed.
Print Assumptions regret_orthogonal_iteration.

(* rg_inv is established by the (by-id, clamped-or-within-range) constructor and preserved by iterations *)
Theorem constructor_establishes_invariant : forall clamp (np nc lim : nat) plus s,
  (1 <= lim)%nat -> (clamp = true \/ (lim <= nc)%nat) ->
  rg_mk (rg_mkvariant ById clamp) np nc lim plus = RgOk s -> rg_inv s.
Proof. exact rg_constructor_inv. Qed.
Print Assumptions constructor_establishes_invariant.

Theorem iteration_preserves_invariant : forall s terminal used s',
  rg_inv s -> rg_nonneg terminal -> rg_iteration s terminal used = RgOk s' -> rg_inv s'.
Proof. exact rg_rm_invariant_step. Qed.
Print Assumptions iteration_preserves_invariant.

Example regret_orthogonal_iteration_ex :
  exists s s', rg_mk (rg_mkvariant ById true) 3 3 2 false = RgOk s /\ rg_nonneg [1; 0; 0] /\
    rg_iteration s [1; 0; 0] [[3; 5]; [5; 6]; [3; 6]]%N = RgOk s' /\
    nth 0 (rg_regret s') [] = [1#6; 1#6; -1#3] /\ rg_strategy s 0%N = RgOk [1#3; 1#3; 1#3].
Proof.
  destruct (rg_mk (rg_mkvariant ById true) 3 3 2 false) as [s| | |] eqn:E; try (vm_compute in E; discriminate).
  exists s. vm_compute in E. apply rg_ok_inj in E. subst s.
  match goal with |- exists s', _ /\ _ /\ ?r = RgOk s' /\ _ => destruct r as [s'| | |] eqn:E2 end;
    vm_compute in E2; try discriminate.
  exists s'. apply rg_ok_inj in E2. subst s'. split; [reflexivity|]. split; [repeat constructor; lra|].
  repeat split; vm_compute; reflexivity.
Qed.

(* ---- the positive counterpart of rm_unclamped_refuted: with the limit clamped (or within range) no iteration of any
        non-negative history ever produces NaN, for every nc and every limit >= 1 *)
Theorem rm_clamped_never_nan : forall clamp (np nc lim : nat) plus s0 hist,
  (1 <= lim)%nat -> (clamp = true \/ (lim <= nc)%nat) ->
  rg_mk (rg_mkvariant ById clamp) np nc lim plus = RgOk s0 ->
  Forall (fun tu => rg_nonneg (fst tu)) hist ->
  rg_run s0 hist <> RgNaN.
Proof. exact rg_run_no_nan. Qed.
Print Assumptions rm_clamped_never_nan.

Example rm_clamped_never_nan_ex :   (* the refutation witness (n = 3, limit 4), now clamped: one iteration is fine *)
  exists s0 s1, rg_mk (rg_mkvariant ById true) 3 3 4 false = RgOk s0 /\ rg_nrm s0 = 7%nat /\
    rg_iteration s0 [2] [[3; 5; 6]]%N = RgOk s1 /\ rg_strategy s1 0%N = RgOk [1#3; 1#3; 1#3].
Proof.
  destruct (rg_mk (rg_mkvariant ById true) 3 3 4 false) as [s0| | |] eqn:E; try (vm_compute in E; discriminate).
  exists s0. vm_compute in E. apply rg_ok_inj in E. subst s0.
  match goal with |- exists s', _ /\ _ /\ ?r = RgOk s' /\ _ => destruct r as [sx| | |] eqn:E2 end;
    vm_compute in E2; try discriminate.
  exists sx. apply rg_ok_inj in E2. subst sx. repeat split; vm_compute; reflexivity.
Qed.

(* C18 - coalitions are finite sets in both representations; predicates match definitions. *)
From Coq Require Import ZArith.
From ICG Require Import Bits CoalitionGen CoalitionGenProps.
Local Open Scope Z_scope.

Theorem C18_gen_and_spec a b i : Z.testbit (gen_and a b) i = (Z.testbit a i && Z.testbit b i)%bool.
Proof. exact (gen_and_spec a b i). Qed.
Print Assumptions C18_gen_and_spec.

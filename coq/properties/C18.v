(* C18 - Coalitions are finite sets in both representations; predicates match definitions.

   Part G: theorems over the definitions REGENERATED from incomplete_cooperative/coalitions.py on every run
           (theories/gen/CoalitionGen.v); ids are arbitrary integers >= 0, players >= 0, any n.
   Part E: the enumerations (Coalition.players / __len__ / from_players / get_sub_coalitions / get_super_coalitions and
           coalition_ids.players / get_size / sub_coalitions / super_coalitions), all n, all coalitions.
   Part K: itertools.combinations / functoolz.powerset (Combs.v).
   Part P: is_superadditive / is_monotone_decreasing / is_sam / check_supermodularity = textbook definitions. *)
From Coq Require Import ZArith NArith QArith Qabs List Sorted Permutation Bool.
From ICG Require Import Prelude Bits Combs CombsProofs Enum EnumProofs Preds PredsProofs CoalitionGen CoalitionGenProps.
Import ListNotations.

(* ======================= Part G: generated Coalition operators ======================= *)
Section G.
Local Open Scope Z_scope.

Theorem C18_and_is_intersection a b i : Z.testbit (gen_and a b) i = Z.testbit a i && Z.testbit b i.
Proof. exact (gen_and_spec a b i). Qed.
Print Assumptions C18_and_is_intersection.

Theorem C18_or_is_union a b i : Z.testbit (gen_or a b) i = Z.testbit a i || Z.testbit b i.
Proof. exact (gen_or_spec a b i). Qed.
Print Assumptions C18_or_is_union.

Theorem C18_sub_is_difference a b i : Z.testbit (gen_sub a b) i = Z.testbit a i && negb (Z.testbit b i).
Proof. exact (gen_sub_spec a b i). Qed.
Print Assumptions C18_sub_is_difference.

Theorem C18_sub_player_removes a p i : 0 <= p -> Z.testbit (gen_sub_player a p) i = Z.testbit a i && negb (i =? p).
Proof. exact (gen_sub_player_spec a p i). Qed.
Print Assumptions C18_sub_player_removes.

Theorem C18_add_player_inserts a p i : 0 <= p -> Z.testbit (gen_add a p) i = Z.testbit a i || (i =? p).
Proof. exact (gen_add_spec a p i). Qed.
Print Assumptions C18_add_player_inserts.

Theorem C18_and_player a p i : 0 <= p -> Z.testbit (gen_and_player a p) i = Z.testbit a i && (i =? p).
Proof. exact (gen_and_player_spec a p i). Qed.
Print Assumptions C18_and_player.

Theorem C18_or_player a p i : 0 <= p -> Z.testbit (gen_or_player a p) i = Z.testbit a i || (i =? p).
Proof. exact (gen_or_player_spec a p i). Qed.
Print Assumptions C18_or_player.

(* `b in a` for coalitions: subset *)
Theorem C18_contains_is_subset a b :
  gen_contains a b = true <-> forall i, Z.testbit b i = true -> Z.testbit a i = true.
Proof. exact (gen_contains_spec a b). Qed.
Print Assumptions C18_contains_is_subset.

(* `p in a` for a player: membership *)
Theorem C18_contains_player_is_membership a p : 0 <= p -> gen_contains_player a p = Z.testbit a p.
Proof. exact (gen_contains_player_spec a p). Qed.
Print Assumptions C18_contains_player_is_membership.

Theorem C18_eq_is_equality a b : gen_eq a b = true <-> a = b.
Proof. exact (gen_eq_spec a b). Qed.
Print Assumptions C18_eq_is_equality.

(* complement within n players (no bound on a needed), and it is a coalition of the n-player game again *)
Theorem C18_inverted_is_complement a n i :
  0 <= n -> Z.testbit (gen_inverted a n) i = (0 <=? i) && (i <? n) && negb (Z.testbit a i).
Proof. exact (gen_inverted_spec a n i). Qed.
Print Assumptions C18_inverted_is_complement.

Theorem C18_inverted_in_range a n : 0 <= n -> 0 <= gen_inverted a n < 2 ^ n.
Proof. intro H. split; [exact (gen_inverted_nonneg a n H)| exact (gen_inverted_lt a n H)]. Qed.
Print Assumptions C18_inverted_in_range.

Theorem C18_disjoint_iff_no_common_player a b :
  gen_disjoint a b = true <-> forall i, Z.testbit a i = true -> Z.testbit b i = false.
Proof. exact (gen_disjoint_spec a b). Qed.
Print Assumptions C18_disjoint_iff_no_common_player.

Theorem C18_grand_is_n_ones n i : 0 <= n -> Z.testbit (gen_grand n) i = (0 <=? i) && (i <? n).
Proof. exact (gen_grand_spec n i). Qed.
Print Assumptions C18_grand_is_n_ones.

Theorem C18_player_to_coalition_is_singleton p i : 0 <= p -> Z.testbit (gen_player_to_coalition p) i = (i =? p).
Proof. exact (gen_player_to_coalition_spec p i). Qed.
Print Assumptions C18_player_to_coalition_is_singleton.

Theorem C18_exclude_keeps_disjoint c e :
  gen_exclude_keep c e = true <-> forall i, Z.testbit c i = true -> Z.testbit e i = false.
Proof. exact (gen_exclude_keep_spec c e). Qed.
Print Assumptions C18_exclude_keeps_disjoint.

(* results of the operators are ids again (>= 0) *)
Theorem C18_ops_closed a b p :
  0 <= a -> 0 <= b -> 0 <= p ->
  0 <= gen_and a b /\ 0 <= gen_or a b /\ 0 <= gen_sub a b /\ 0 <= gen_add a p /\ 0 <= gen_sub_player a p /\
  0 <= gen_player_to_coalition p /\ 0 <= gen_grand p.
Proof.
  intros Ha Hb Hp.
  exact (conj (gen_and_nonneg a b Ha) (conj (gen_or_nonneg a b Ha Hb) (conj (gen_sub_nonneg a b Ha)
        (conj (gen_add_nonneg a p Ha Hp) (conj (gen_sub_player_nonneg a p Ha Hp)
        (conj (gen_player_to_coalition_nonneg p Hp) (gen_grand_nonneg p Hp))))))).
Qed.
Print Assumptions C18_ops_closed.

(* link to the hand model used by every other property (Bits.v, N bitmasks) *)
Theorem C18_link_and a b : Z.of_N (N.land a b) = gen_and (Z.of_N a) (Z.of_N b).
Proof. exact (gen_and_link a b). Qed.
Print Assumptions C18_link_and.
Theorem C18_link_or a b : Z.of_N (N.lor a b) = gen_or (Z.of_N a) (Z.of_N b).
Proof. exact (gen_or_link a b). Qed.
Print Assumptions C18_link_or.
Theorem C18_link_sub a b : Z.of_N (N.ldiff a b) = gen_sub (Z.of_N a) (Z.of_N b).
Proof. exact (gen_sub_link a b). Qed.
Print Assumptions C18_link_sub.
Theorem C18_link_contains a s : gen_contains (Z.of_N s) (Z.of_N a) = sub a s.
Proof. exact (gen_contains_link a s). Qed.
Print Assumptions C18_link_contains.
Theorem C18_link_contains_player s p : gen_contains_player (Z.of_N s) (Z.of_nat p) = tb s p.
Proof. exact (gen_contains_player_link s p). Qed.
Print Assumptions C18_link_contains_player.
Theorem C18_link_disjoint a b : gen_disjoint (Z.of_N a) (Z.of_N b) = disjb a b.
Proof. exact (gen_disjoint_link a b). Qed.
Print Assumptions C18_link_disjoint.
Theorem C18_link_exclude c e : gen_exclude_keep (Z.of_N c) (Z.of_N e) = disjb c e.
Proof. exact (gen_exclude_keep_link c e). Qed.
Print Assumptions C18_link_exclude.
Theorem C18_link_grand n : Z.of_N (grand n) = gen_grand (Z.of_nat n).
Proof. exact (gen_grand_link n). Qed.
Print Assumptions C18_link_grand.
Theorem C18_link_singleton p : Z.of_N (single p) = gen_player_to_coalition (Z.of_nat p).
Proof. exact (gen_player_to_coalition_link p). Qed.
Print Assumptions C18_link_singleton.
Theorem C18_link_add a p : Z.of_N (N.lor a (single p)) = gen_add (Z.of_N a) (Z.of_nat p).
Proof. exact (gen_add_link a p). Qed.
Print Assumptions C18_link_add.
Theorem C18_link_sub_player a p : Z.of_N (N.ldiff a (single p)) = gen_sub_player (Z.of_N a) (Z.of_nat p).
Proof. exact (gen_sub_player_link a p). Qed.
Print Assumptions C18_link_sub_player.
Theorem C18_link_inverted a n : Z.of_N (N.ldiff (grand n) a) = gen_inverted (Z.of_N a) (Z.of_nat n).
Proof. exact (gen_inverted_link a n). Qed.
Print Assumptions C18_link_inverted.
End G.

(* ======================= Part E: listings and enumerations ======================= *)
Section E.
Local Open Scope N_scope.

(* Coalition.players lists exactly the set bits (all below n), increasing, without repetition;
   the shift loop ends because the id became 0 *)
Theorem C18_players n c :
  bounded n c ->
  (forall i, In i (en_players c) <-> tb c i = true /\ (i < n)%nat) /\
  StronglySorted lt (en_players c) /\ NoDup (en_players c) /\
  (forall f i, (N.size_nat c <= f)%nat -> en_players_loop f c i = en_players_loop (N.size_nat c) c i).
Proof.
  intro Hb.
  exact (conj (fun i => en_players_spec_n n c i Hb) (conj (en_players_sorted c) (conj (en_players_NoDup c)
        (fun f i => en_players_fuel c f i)))).
Qed.
Print Assumptions C18_players.

Theorem C18_len_is_number_of_players c : en_len c = length (en_players c).
Proof. exact (en_len_spec c). Qed.
Print Assumptions C18_len_is_number_of_players.

(* from_players: duplicates collapse, order irrelevant; round trip *)
Theorem C18_from_players l i : tb (en_from_players l) i = true <-> In i l.
Proof. exact (en_from_players_spec l i). Qed.
Print Assumptions C18_from_players.
Theorem C18_from_players_round_trip c : en_from_players (en_players c) = c.
Proof. exact (en_from_players_players c). Qed.
Print Assumptions C18_from_players_round_trip.

(* the id-array versions agree with the object versions and with Bits.players / Bits.size; ids >= 2^n are refused *)
Theorem C18_players_two_representations n c :
  bounded n c ->
  en_ids_players n c = Some (en_players c) /\ en_players c = players n c /\
  en_ids_size n c = Some (en_len c) /\ en_len c = size n c.
Proof.
  intro Hb. exact (conj (en_players_obj_ids n c Hb) (conj (en_players_bits n c Hb)
                  (conj (en_len_obj_ids n c Hb) (en_len_size n c Hb)))).
Qed.
Print Assumptions C18_players_two_representations.

Theorem C18_ids_assert n c :
  ~ bounded n c ->
  en_ids_players n c = None /\ en_ids_size n c = None /\ en_ids_sub n c = None /\ en_ids_super n c = None.
Proof.
  intro H. exact (conj (en_ids_players_err n c H) (conj (en_ids_size_err n c H)
                 (conj (en_ids_sub_err n c H) (en_ids_super_err n c H)))).
Qed.
Print Assumptions C18_ids_assert.

(* get_sub_coalitions: every sub-coalition exactly once (empty one first, 2^|c| of them) *)
Theorem C18_sub_obj c :
  NoDup (en_sub_obj c) /\ (forall x, In x (en_sub_obj c) <-> sub x c = true) /\
  (exists r, en_sub_obj c = 0 :: r) /\ length (en_sub_obj c) = (2 ^ en_len c)%nat.
Proof.
  exact (conj (en_sub_obj_NoDup c) (conj (en_sub_obj_in c) (conj (en_sub_obj_head c) (en_sub_obj_length c)))).
Qed.
Print Assumptions C18_sub_obj.

(* coalition_ids.sub_coalitions: every sub-coalition exactly once, in increasing id order *)
Theorem C18_sub_ids n c l :
  bounded n c -> en_ids_sub n c = Some l ->
  NoDup l /\ StronglySorted N.lt l /\ forall x, In x l <-> sub x c = true.
Proof. exact (en_ids_sub_spec n c l). Qed.
Print Assumptions C18_sub_ids.

Theorem C18_sub_ids_is_filter n c : bounded n c -> en_ids_sub n c = Some (filter (fun x => sub x c) (alln n)).
Proof. exact (en_ids_sub_eq n c). Qed.
Print Assumptions C18_sub_ids_is_filter.

(* super-coalitions: exactly the supersets below 2^n, once each, in both representations *)
Theorem C18_super_obj n c :
  bounded n c ->
  NoDup (en_super_obj n c) /\ forall x, In x (en_super_obj n c) <-> (sub c x = true /\ bounded n x).
Proof. exact (en_super_obj_spec n c). Qed.
Print Assumptions C18_super_obj.

Theorem C18_super_ids n c l :
  bounded n c -> en_ids_super n c = Some l ->
  NoDup l /\ forall x, In x l <-> (sub c x = true /\ bounded n x).
Proof. exact (en_ids_super_spec n c l). Qed.
Print Assumptions C18_super_ids.

(* order (C11/C14 iterate over these): super_coalitions is the id-ordered filter; get_sub_coalitions goes by non-decreasing size *)
Theorem C18_super_ids_is_filter n c : bounded n c -> en_ids_super n c = Some (filter (fun x => sub c x) (alln n)).
Proof. exact (en_ids_super_is_filter n c). Qed.
Print Assumptions C18_super_ids_is_filter.
Theorem C18_sub_obj_by_size c : StronglySorted (fun a b => (en_len a <= en_len b)%nat) (en_sub_obj c).
Proof. exact (en_sub_obj_sorted_size c). Qed.
Print Assumptions C18_sub_obj_by_size.

(* the two representations enumerate the same sets; so do the enumerations of the bound computers (Bits.splits/supers) *)
Theorem C18_sub_permutation n c l : bounded n c -> en_ids_sub n c = Some l -> Permutation (en_sub_obj c) l.
Proof. exact (en_sub_perm n c l). Qed.
Print Assumptions C18_sub_permutation.
Theorem C18_super_permutation n c l : bounded n c -> en_ids_super n c = Some l -> Permutation (en_super_obj n c) l.
Proof. exact (en_super_perm n c l). Qed.
Print Assumptions C18_super_permutation.
Theorem C18_splits_are_filtered_sub_ids n s l :
  bounded n s -> en_ids_sub n s = Some l -> splits n s = filter (fun a => negb (a =? s) && negb (a =? 0)) l.
Proof. exact (en_splits_filter n s l). Qed.
Print Assumptions C18_splits_are_filtered_sub_ids.
Theorem C18_splits_obj_permutation n s :
  bounded n s -> Permutation (splits n s) (filter (fun a => negb (a =? s) && negb (a =? 0)) (en_sub_obj s)).
Proof. exact (en_splits_obj_perm n s). Qed.
Print Assumptions C18_splits_obj_permutation.
Theorem C18_supers_are_filtered_super_ids n s l :
  bounded n s -> en_ids_super n s = Some l -> Permutation (supers n s) (filter (fun T => negb (T =? s)) l).
Proof. exact (en_supers_perm n s l). Qed.
Print Assumptions C18_supers_are_filtered_super_ids.

(* `U - Ss` (is_superadditive) and `coalition ^ sub` (bounds) are set difference on sub-coalitions *)
Theorem C18_ids_diff_is_setminus s u : sub s u = true -> u - s = N.ldiff u s /\ N.ldiff u s = N.lxor u s.
Proof. exact (en_diff_is_setminus s u). Qed.
Print Assumptions C18_ids_diff_is_setminus.
End E.

(* ======================= Part K: combinations / powerset ======================= *)
Section K.
Context {A : Type}.

Theorem C18_combs_enumerates_k_sublists k (l s : list A) :
  In s (cb_combs k l) <-> cb_sublist s l /\ length s = k.
Proof. exact (cb_combs_in k l s). Qed.
Theorem C18_combs_NoDup k (l : list A) : NoDup l -> NoDup (cb_combs k l).
Proof. exact (cb_combs_NoDup k l). Qed.
(* by position: also with repeated elements every index set is produced once, count = binomial *)
Theorem C18_combs_by_index k (l : list A) d :
  cb_combs k l = map (map (fun i => nth i l d)) (cb_combs k (seq 0 (length l))).
Proof. exact (cb_combs_by_index k l d). Qed.
Theorem C18_combs_length k (l : list A) : length (cb_combs k l) = cb_binom (length l) k.
Proof. exact (cb_combs_length k l). Qed.
Theorem C18_powerset (l : list A) :
  (forall s, In s (cb_powerset l) <-> cb_sublist s l) /\ (NoDup l -> NoDup (cb_powerset l)) /\
  length (cb_powerset l) = (2 ^ length l)%nat.
Proof. exact (conj (cb_powerset_in l) (conj (cb_powerset_NoDup l) (cb_powerset_length l))). Qed.
Theorem C18_powerset_by_size (l : list A) : StronglySorted (fun s t => (length s <= length t)%nat) (cb_powerset l).
Proof. exact (cb_powerset_sorted_length l). Qed.
End K.
Print Assumptions C18_powerset_by_size.
Print Assumptions C18_combs_enumerates_k_sublists.
Print Assumptions C18_combs_NoDup.
Print Assumptions C18_combs_by_index.
Print Assumptions C18_combs_length.
Print Assumptions C18_powerset.

(* ======================= Part P: predicates ======================= *)
Section P.
Local Open Scope Q_scope.

(* is_superadditive(game, rtol, atol) never raises and answers True exactly on the games that are superadditive
   up to the documented tolerance:  v(A) + v(B) <= v(A u B)  or  |v(A)+v(B) - v(A u B)| <= atol + rtol |v(A u B)| *)
Theorem C18_is_superadditive_iff n v rtol atol :
  (pd_is_superadditive n v rtol atol = Some true <->
   forall A B, bounded n A -> bounded n B -> disjb A B = true ->
     v A + v B <= v (N.lor A B) \/ Qabs (v A + v B - v (N.lor A B)) <= atol + rtol * Qabs (v (N.lor A B)))
  /\ exists b, pd_is_superadditive n v rtol atol = Some b.
Proof. exact (conj (pd_is_superadditive_iff n v rtol atol) (pd_is_superadditive_total n v rtol atol)). Qed.
Print Assumptions C18_is_superadditive_iff.

Theorem C18_is_superadditive_exact n v :
  pd_is_superadditive n v 0 0 = Some true <->
  forall A B, bounded n A -> bounded n B -> disjb A B = true -> v A + v B <= v (N.lor A B).
Proof. exact (pd_is_superadditive_exact n v). Qed.
Print Assumptions C18_is_superadditive_exact.

Theorem C18_is_monotone_decreasing_iff n v :
  (pd_is_monotone_decreasing n v = Some true <-> forall A B, bounded n B -> sub A B = true -> v B <= v A)
  /\ exists b, pd_is_monotone_decreasing n v = Some b.
Proof. exact (conj (pd_is_monotone_decreasing_iff n v) (pd_is_monotone_decreasing_total n v)). Qed.
Print Assumptions C18_is_monotone_decreasing_iff.

Theorem C18_is_sam_iff n v rtol :
  pd_is_sam n v rtol = Some true <-> pd_SA_tol n v rtol 0 /\ pd_MonoDec n v.
Proof. exact (pd_is_sam_iff n v rtol). Qed.
Print Assumptions C18_is_sam_iff.

(* check_supermodularity returns None exactly on the games with increasing differences (up to tol);
   a returned triple is a genuine violation *)
Theorem C18_check_supermodularity_iff n v tol :
  pd_check_supermodularity n v tol = None <->
  forall T S i, bounded n T -> (i < n)%nat -> tb T i = false -> ssub S T = true ->
    v (N.lor S (single i)) - v S <= v (N.lor T (single i)) - v T + tol.
Proof. exact (pd_check_supermodularity_none_iff n v tol). Qed.
Print Assumptions C18_check_supermodularity_iff.

Theorem C18_check_supermodularity_witness n v tol T S i :
  pd_check_supermodularity n v tol = Some (T, S, i) ->
  bounded n T /\ (i < n)%nat /\ tb T i = false /\ ssub S T = true /\
  ~ v (N.lor S (single i)) - v S <= v (N.lor T (single i)) - v T + tol.
Proof. exact (pd_check_supermodularity_some n v tol T S i). Qed.
Print Assumptions C18_check_supermodularity_witness.
End P.

(* ======================= Examples: the hypotheses are satisfiable, the models compute ======================= *)
Example C18_ex_bounded : bounded 3 5%N.
Proof. apply bounded_lt. reflexivity. Qed.
Example C18_ex_players : en_players 13 = [0; 2; 3]%nat /\ en_len 13 = 3%nat /\ en_ids_players 4 13 = Some [0; 2; 3]%nat.
Proof. vm_compute. auto. Qed.
Example C18_ex_from_players : en_from_players [3; 1; 3; 1; 0]%nat = 11%N.
Proof. reflexivity. Qed.
(* object order (by size, itertools order) differs from id order: sequences differ, sets agree *)
Example C18_ex_sub : en_sub_obj 7 = [0; 1; 2; 4; 3; 5; 6; 7]%N /\ en_ids_sub 3 7 = Some [0; 1; 2; 3; 4; 5; 6; 7]%N.
Proof. vm_compute. auto. Qed.
Example C18_ex_super : en_super_obj 3 1 = [1; 3; 5; 7]%N /\ en_ids_super 3 1 = Some [1; 3; 5; 7]%N /\ en_ids_super 3 8 = None.
Proof. vm_compute. auto. Qed.
Example C18_ex_combs : cb_combs 2 [0; 1; 2; 3]%nat = [[0; 1]; [0; 2]; [0; 3]; [1; 2]; [1; 3]; [2; 3]]%nat.
Proof. reflexivity. Qed.
Example C18_ex_gen : (gen_sub 13 6 = 9 /\ gen_inverted 5 4 = 10 /\ gen_contains 13 5 = true /\ gen_disjoint 9 6 = true)%Z.
Proof. vm_compute. auto. Qed.

Definition C18_ex_game (l : list Q) : N -> Q := fun s => nth (N.to_nat s) l 0%Q.
(* v = (0, 1, 1, 3) is superadditive, (0,1,1,1) is not but passes with rtol = 1 (|2 - 1| <= 1 * 1) *)
Example C18_ex_sa :
  pd_is_superadditive 2 (C18_ex_game [0; 1; 1; 3]%Q) 0 0 = Some true /\
  pd_is_superadditive 2 (C18_ex_game [0; 1; 1; 1]%Q) 0 0 = Some false /\
  pd_is_superadditive 2 (C18_ex_game [0; 1; 1; 1]%Q) 1 0 = Some true.
Proof. vm_compute. auto. Qed.
Example C18_ex_sa_hyp : pd_SA 2 (C18_ex_game [0; 1; 1; 3]%Q).
Proof. apply pd_is_superadditive_exact. vm_compute. reflexivity. Qed.
Example C18_ex_mono : pd_is_monotone_decreasing 2 (C18_ex_game [0; -1; -1; -2]%Q) = Some true /\ pd_MonoDec 2 (C18_ex_game [0; -1; -1; -2]%Q).
Proof. split; [vm_compute; reflexivity| apply pd_is_monotone_decreasing_iff; vm_compute; reflexivity]. Qed.
Example C18_ex_supermod :
  pd_check_supermodularity 2 (C18_ex_game [0; 1; 1; 3]%Q) 0 = None /\
  pd_check_supermodularity 2 (C18_ex_game [0; 1; 1; 1]%Q) 0 = Some (1%N, 0%N, 1%nat).
Proof. vm_compute. auto. Qed.

(* ---------- id-array side REGENERATED from coalition_ids.py (gen/CoalitionIdsGen.v, built from the NpArr.v operators) ----------
   The generated definitions (Python parameter order: coalition, number_of_players) equal the hand model of Enum.v for
   every n and every id (asserts included: both sides None), so all C18_*_ids theorems above hold of the generated
   definitions.  Players / sizes are N on the generated side (N.of_nat is injective). *)
From ICG Require Import NpArr CoalitionIdsGen CoalitionIdsGenProps.

Theorem C18_idg_get_all_coalitions n : idg_get_all_coalitions (N.of_nat n) = alln n.
Proof. exact (idg_get_all_coalitions_eq n). Qed.
Print Assumptions C18_idg_get_all_coalitions.

Theorem C18_idg_players n c : idg_players c (N.of_nat n) = option_map (map N.of_nat) (en_ids_players n c).
Proof. exact (idg_players_eq n c). Qed.
Print Assumptions C18_idg_players.

Theorem C18_idg_get_size n c : idg_get_size c (N.of_nat n) = option_map N.of_nat (en_ids_size n c).
Proof. exact (idg_get_size_eq n c). Qed.
Print Assumptions C18_idg_get_size.

Theorem C18_idg_sub_coalitions n c : idg_sub_coalitions c (N.of_nat n) = en_ids_sub n c.
Proof. exact (idg_sub_coalitions_eq n c). Qed.
Print Assumptions C18_idg_sub_coalitions.

Theorem C18_idg_super_coalitions n c : idg_super_coalitions c (N.of_nat n) = en_ids_super n c.
Proof. exact (idg_super_coalitions_eq n c). Qed.
Print Assumptions C18_idg_super_coalitions.

Example C18_ex_idg :
  idg_players 5 3 = Some [0; 2]%N /\ idg_get_size 5 3 = Some 2%N /\ idg_sub_coalitions 5 3 = Some [0; 1; 4; 5]%N /\
  idg_super_coalitions 5 3 = Some [5; 7]%N /\ idg_players 8 3 = None /\ idg_get_all_coalitions 2 = [0; 1; 2; 3]%N.
Proof. vm_compute. auto 10. Qed.

(* C12 - evaluate() records true trajectories; results independent of parallelism.
   Statements only; proofs in theories/EvaluateProofs.v.
   Partial: pickle / multiprocessing.Pool semantics are MODELLED (tasks pickled by value, objects shared inside a chunk,
   default chunksize ceil(len / 4p)), validated by running the implementation with 1..16 processes, not verified. *)
From ICG Require Import Prelude Bits Table Bounds GameOps FoldLemmas Shapley Exploit Norms Env EnvProofs Evaluate EvaluateProofs.

(* eval_one: row 0 is the gap after the reset with THIS repetition's hidden game v; for every recorded step t the
   environment reached by the first t recorded actions in that same game is et, the policy chose a there, the step
   succeeded, row t+1 is its gap, and the action matrix holds the id c = explorable[a] - unknown before, known after
   (hence distinct and explorable) *)
Theorem C12_eval_one_records :
  forall policy e limit v nv gs cs,
    ev_wf e -> el_eval_one policy e limit v nv = Some (gs, cs) ->
    exists e0 acts es,
      ev_reset e v nv = Some e0 /\ e_hidden e0 = v /\ (length acts <= limit)%nat
      /\ gs = ev_gapv e0 :: map ev_gapv es /\ length cs = length acts
      /\ (forall t, (t < length acts)%nat ->
            exists et et1 a c, ev_run e (EReset v nv :: map EStep (firstn t acts)) = Some et
                            /\ policy et = Some a /\ nth_error acts t = Some a
                            /\ ev_step et a = Some et1 /\ nth_error es t = Some et1
                            /\ nth_error cs t = Some c /\ nth_error (e_expl e) a = Some c
                            /\ Kn (e_tab et) c = false /\ Kn (e_tab et1) c = true).
Proof. exact el_eval_one_records. Qed.
Print Assumptions C12_eval_one_records.

(* one child random stream per environment: the hidden game of every repetition is the same under sequential
   execution and under ANY chunking of the task list over worker processes ... *)
Theorem C12_perenv_parallel_eq_seq :
  forall reps chunks, el_hidden_draws ElPerEnv (Some chunks) reps = el_hidden_draws ElPerEnv None reps.
Proof. exact el_perenv_parallel_eq_seq. Qed.
Print Assumptions C12_perenv_parallel_eq_seq.

(* ... and distinct repetitions read distinct streams *)
Theorem C12_perenv_independent :
  forall reps j j' d d', j <> j' ->
    nth_error (el_hidden_draws ElPerEnv None reps) j = Some d ->
    nth_error (el_hidden_draws ElPerEnv None reps) j' = Some d' -> fst d <> fst d'.
Proof. exact el_perenv_independent. Qed.
Print Assumptions C12_perenv_independent.

(* one generator shared by all environments (the wiring of the code before the repair): under Pool.starmap distinct
   repetitions replay the same hidden game, and the result differs from the sequential one.  Witness: 12 repetitions,
   2 processes (chunk size 2): repetitions 0 and 2. *)
Theorem C12_shared_refuted :
  exists reps procs j j', j <> j' /\
    nth_error (el_hidden_draws ElShared (Some (el_pool_chunks reps procs)) reps) j
    = nth_error (el_hidden_draws ElShared (Some (el_pool_chunks reps procs)) reps) j'
    /\ nth_error (el_hidden_draws ElShared (Some (el_pool_chunks reps procs)) reps) j <> None.
Proof. exact el_shared_refuted. Qed.
Print Assumptions C12_shared_refuted.

Theorem C12_shared_parallel_differs :
  exists reps procs, el_hidden_draws ElShared (Some (el_pool_chunks reps procs)) reps <> el_hidden_draws ElShared None reps.
Proof. exact el_shared_parallel_differs. Qed.
Print Assumptions C12_shared_parallel_differs.

(* The solver's OWN random stream (RandomSolver owns one random.Random; known finding
   C12:random-solver:shared-python-random-per-chunk, not repaired).  Sequentially, distinct repetitions of positive length
   read disjoint stretches of it ... *)
Theorem C12_solver_stream_sequential_distinct :
  forall reps L j j' p p', (0 < L)%nat -> j <> j' ->
    nth_error (el_solver_seq reps L 0) j = Some p -> nth_error (el_solver_seq reps L 0) j' = Some p' -> p <> p'.
Proof. exact el_solver_seq_distinct. Qed.
Print Assumptions C12_solver_stream_sequential_distinct.

(* ... but as soon as the task list is cut into two non-empty chunks, the first repetitions of both chunks replay the same
   draws (the solver object is pickled with every chunk and the parent's copy never advances) ... *)
Theorem C12_solver_stream_replayed_per_chunk :
  forall c1 c2 rest L, (0 < c1)%nat -> (0 < c2)%nat ->
    nth_error (el_solver_par (c1 :: c2 :: rest) L) 0 = Some 0%nat /\
    nth_error (el_solver_par (c1 :: c2 :: rest) L) c1 = Some 0%nat.
Proof. exact el_solver_par_replays. Qed.
Print Assumptions C12_solver_stream_replayed_per_chunk.

(* ... so the statement "the result is the same for every number of worker processes" is REFUTED for the random solver on the
   pool's real chunking: 5 repetitions of 3 steps, 2 processes. *)
Theorem C12_solver_stream_refuted :
  exists reps procs L j j', j <> j' /\ (0 < L)%nat /\
    (nth_error (el_solver_par (el_pool_chunks reps procs) L) j = nth_error (el_solver_par (el_pool_chunks reps procs) L) j')
    /\ (nth_error (el_solver_par (el_pool_chunks reps procs) L) j <> None)
    /\ (el_solver_par (el_pool_chunks reps procs) L <> el_solver_seq reps L 0).
Proof. exact el_solver_shared_refuted. Qed.
Print Assumptions C12_solver_stream_refuted.

Example C12_eval_one_nontrivial :
  let e0 := ev_make 3 CCached GExploit None [1; 2; 4]%N in
  let v := [0; 1; 1; 3; 1; 2; 4; 9] in
  el_eval_one (fun e => sv_largest e) e0 2 v v = Some ([Some 6; Some 4; Some 2], [3; 5]%N).
Proof. vm_compute. reflexivity. Qed.

From ICG Require Import Store Crash.
Theorem stub_C19 : True. Proof. exact I. Qed.
Print Assumptions stub_C19.

(* C19 - Saved results read back faithfully and are never overwritten.
   Model: theories/Store.v; proofs: theories/StoreProofs.v.
   Partial by design: the JSON *text* codec (json.dump / json.loads, float repr, the NaN literal) is CPython's and is
   trusted; the store below is the parsed dictionary, numbers are exact rationals. *)
From Coq Require Import List NArith QArith Bool Arith Lia.
From ICG Require Import Store StoreProofs.
Import ListNotations.

(* matrices of any rank with every dimension >= 1 (NaN cells included) survive tolist -> np.array exactly,
   shape included *)
Theorem tolist_roundtrip : forall a : st_ndarray,
  st_wf a -> Forall (fun d => 1 <= d)%nat (st_shape a) -> st_of_list (st_tolist a) = Some a.
Proof. exact st_tolist_roundtrip. Qed.
Print Assumptions tolist_roundtrip.

(* ... and the hypothesis is needed: a (0, 3) array reads back with shape (0,) - why the property says
   "at least one row and column" *)
Theorem tolist_roundtrip_needs_nonempty :
  exists a, st_wf a /\ In O (st_shape a) /\ st_of_list (st_tolist a) <> Some a.
Proof. exact st_tolist_roundtrip_needs_nonempty. Qed.
Print Assumptions tolist_roundtrip_needs_nonempty.

(* Output.json followed by Output.from_json: both matrices come back exactly, and the metadata of the loaded Output is
   the metadata that was written (Output.metadata after json's stringification of Path / tuples / other objects) *)
Theorem entry_roundtrip : forall (o : st_output) (j : st_jv),
  st_wf (st_o_data o) -> st_wf (st_o_actions o) ->
  Forall (fun d => 1 <= d)%nat (st_shape (st_o_data o)) -> Forall (fun d => 1 <= d)%nat (st_shape (st_o_actions o)) ->
  st_entry_json o = Some j ->
  exists l, st_from_json j = Some l /\
            st_l_data l = st_o_data o /\ st_l_actions l = st_o_actions o /\
            st_metadata_jv (st_l_args l) = st_metadata (st_o_args o).
Proof. exact st_entry_roundtrip. Qed.
Print Assumptions entry_roundtrip.

(* for ALL histories of saves (repeated names included): once a name reads as e, it reads as e after any further saves *)
Theorem saves_preserve : forall (A : Type) (hist : list (st_str * A)) (name : st_str) (e : A),
  st_lookup name (st_run hist) = Some e -> forall more, st_lookup name (st_run (hist ++ more)) = Some e.
Proof. exact (@st_saves_preserve). Qed.
Print Assumptions saves_preserve.

(* saving under an existing name changes nothing *)
Theorem save_existing_noop : forall (A : Type) (s : list (st_str * A)) (name : st_str) (e : A),
  st_mem name s = true -> st_save s name e = s.
Proof. exact (@st_save_existing_noop). Qed.
Print Assumptions save_existing_noop.

(* saving under a new name: the old file is a literal prefix of the new one, the new entry is present,
   every other name reads as before *)
Theorem save_new_adds : forall (A : Type) (s : list (st_str * A)) (name : st_str) (e : A),
  st_mem name s = false ->
  st_save s name e = s ++ [(name, e)] /\
  st_lookup name (st_save s name e) = Some e /\
  (forall other, other <> name -> st_lookup other (st_save s name e) = st_lookup other s).
Proof. exact (@st_save_new_adds). Qed.
Print Assumptions save_new_adds.

(* for ALL histories: a name reads as the first entry ever saved under it *)
Theorem first_write_wins : forall (A : Type) (hist : list (st_str * A)) (name : st_str),
  st_lookup name (st_run hist) = st_first name hist.
Proof. exact (@st_first_write_wins). Qed.
Print Assumptions first_write_wins.

(* the history of Outputs that save_json sees is the value-level history of their JSON forms, so the three
   theorems above apply to what st_run_outputs (the function compared with the implementation) computes *)
Theorem run_outputs_is_run : forall hist store js,
  Forall2 (fun no nj => fst no = fst nj /\ st_entry_json (snd no) = Some (snd nj)) hist js ->
  st_run_outputs store hist = Some (st_run_from store js).
Proof. exact st_run_outputs_spec. Qed.
Print Assumptions run_outputs_is_run.

(* ---------- the hypotheses are satisfiable by non-trivial instances ---------- *)
(* a 2 x 2 x 2 array with NaN padding and a negative, a large and a fractional value *)
Definition ex_arr : st_ndarray :=
  st_mkarr [2; 2; 2]%nat [St_Num (3 # 1); St_NaN; St_Num (-7 # 2); St_Num (1267650600228229401496703205376 # 1);
                          St_Num 0; St_NaN; St_NaN; St_Num (1 # 1024)].
Example ex_arr_ok : st_wf ex_arr /\ Forall (fun d => 1 <= d)%nat (st_shape ex_arr).
Proof. split; [reflexivity| repeat constructor]. Qed.
Example ex_arr_roundtrip : st_of_list (st_tolist ex_arr) = Some ex_arr.
Proof. vm_compute. reflexivity. Qed.

(* an Output whose namespace has a Path, a tuple, a function and the func entry *)
Definition ex_out : st_output :=
  st_mkout ex_arr (st_mkarr [1; 2]%nat [St_Num 5; St_NaN])
           [([115; 101; 101; 100]%N, St_MNum 7);
            (st_s_func, St_MRepr [60; 102; 117; 110; 99; 116; 105; 111; 110; 32; 101; 118; 97; 108; 95; 102; 117; 110; 99; 62]%N);
            ([100; 105; 114]%N, St_MPath [47; 120]%N);
            ([116]%N, St_MList [St_MNum 1; St_MBool true; St_MNull])].
Example ex_out_saves : exists j, st_entry_json ex_out = Some j /\
  match st_from_json j with
  | Some l => st_l_data l = ex_arr /\ st_lookup st_s_run_type (st_l_args l) = Some (St_JStr st_s_eval)
  | None => False
  end.
Proof. eexists. split; [vm_compute; reflexivity|]. vm_compute. split; reflexivity. Qed.

(* a history with a repeated name: the second save under "a" is ignored, "b" is added *)
Example ex_history :
  let a := [97]%N in let b := [98]%N in
  st_run [(a, 1%nat); (b, 2%nat); (a, 3%nat)] = [(a, 1%nat); (b, 2%nat)] /\
  st_lookup a (st_run [(a, 1%nat); (b, 2%nat); (a, 3%nat)]) = Some 1%nat.
Proof. vm_compute. split; reflexivity. Qed.

(* C04 - Approximate superadditive-monotone bounds are sound, ordered, self-consistent.
   Statements only; proofs in theories/SAMSound.v, SAMOrder.v, SAMKnowledge.v.  All theorems hold for EVERY repetition count r. *)
From ICG Require Import Prelude Bits Table Bounds FoldLemmas BoundsSpec SASound SAEquiv SATight SAKnowledge SAMSpec SAMSound SAMOrder SAMKnowledge Checks ChecksSAM GameOps HistorySound.
From ICG Require Import RegistryTypes gen.Registry gen.RegistryLinkProps.

(* soundness: for every superadditive, monotone non-increasing hidden game, every knowledge set containing the minimal
   information, any table holding that knowledge (arbitrary stale rows), every r *)
Theorem C04_sam_sound :
  forall n r K v t t',
    SA n v -> Mono n v -> v 0%N == 0 -> MinK n K -> agrees n t K v -> compute_sam n r t = Some t' ->
    forall s, bounded n s ->
      L t' s <= v s /\ v s <= U t' s /\ L t' s <= U t' s /\ Kn t' s = K s
      /\ (K s = true -> get t' s = get t s /\ L t' s == v s /\ U t' s == v s).
Proof. exact sam_sound. Qed.
Print Assumptions C04_sam_sound.

Theorem C04_sam_defined :
  forall n r K v t, MinK n K -> agrees n t K v -> exists t', compute_sam n r t = Some t'.
Proof. exact sam_defined. Qed.
Print Assumptions C04_sam_defined.

(* soundness after any history of public operations carrying true values (as C01_sa_sound_history) *)
Theorem C04_sam_sound_history :
  forall n r v ops t',
    SA n v -> Mono n v -> v 0%N == 0 ->
    forallb public_op ops = true -> Forall (truthful n v) ops ->
    MinK n (Kn (run n ops init_table)) -> compute_sam n r (run n ops init_table) = Some t' ->
    forall s, bounded n s -> sound_at n (Kn (run n ops init_table)) v (run n ops init_table) t' s.
Proof. exact sam_sound_history. Qed.
Print Assumptions C04_sam_sound_history.

(* never looser than the plain superadditive bounds *)
Theorem C04_sam_tighter_than_sa :
  forall n r K v t ts tsa,
    SA n v -> Mono n v -> v 0%N == 0 -> MinK n K -> agrees n t K v ->
    compute_sam n r t = Some ts -> compute_sa_cached n t = Some tsa ->
    forall s, bounded n s -> L tsa s <= L ts s /\ U ts s <= U tsa s.
Proof. exact sam_tighter_than_sa. Qed.
Print Assumptions C04_sam_tighter_than_sa.

(* raising the repetition count never loosens them *)
Theorem C04_sam_mono_in_r :
  forall n r K v t ta tb,
    SA n v -> Mono n v -> v 0%N == 0 -> MinK n K -> agrees n t K v ->
    compute_sam n r t = Some ta -> compute_sam n (S r) t = Some tb ->
    forall s, bounded n s -> L ta s <= L tb s /\ U tb s <= U ta s.
Proof. exact sam_mono_in_r. Qed.
Print Assumptions C04_sam_mono_in_r.

(* lower bounds are themselves monotone non-increasing along inclusion *)
Theorem C04_sam_lower_antitone :
  forall n r K v t t' a b,
    SA n v -> Mono n v -> v 0%N == 0 -> MinK n K -> agrees n t K v -> compute_sam n r t = Some t' ->
    bounded n a -> bounded n b -> sub a b = true -> L t' b <= L t' a.
Proof. exact sam_lower_antitone. Qed.
Print Assumptions C04_sam_lower_antitone.

(* no upper bound exceeds the value of a known sub-coalition, nor v(T) - lower(T \ S) for a known superset T *)
Theorem C04_sam_upper_caps :
  forall n r K v t t' s,
    SA n v -> Mono n v -> v 0%N == 0 -> MinK n K -> agrees n t K v -> compute_sam n r t = Some t' ->
    bounded n s -> K s = false ->
    (forall a, bounded n a -> K a = true -> ssub a s = true -> a <> 0%N -> U t' s <= v a) /\
    (forall T, bounded n T -> K T = true -> ssub s T = true -> U t' s <= v T - L t' (N.ldiff T s)).
Proof. exact sam_upper_caps. Qed.
Print Assumptions C04_sam_upper_caps.

(* the registered repetition counts (sam_apx_1/10/100/1000 ...) are instances of the theorems above, which hold for every r *)
Theorem C04_registry_bounds_modelled :
  Forall (fun kv => exists c : computer, rl_computer (snd kv) = Some c) bounds_registry.
Proof. exact registry_bounds_modelled. Qed.
Print Assumptions C04_registry_bounds_modelled.

(* Non-vacuity: a 3-player SAM game (negated monotone subadditive), K = minimal + {0,1}. *)
Definition ex_v : N -> Q := game_of [0; -3; -2; -4; -2; -4; -3; -5].
Definition ex_K : N -> bool := known_in [0; 1; 2; 4; 7; 3]%N.
Definition ex_t : table := table_of 3 ex_K ex_v 77.
Example C04_hypotheses_satisfiable :
  SA 3 ex_v /\ Mono 3 ex_v /\ ex_v 0%N == 0 /\ MinK 3 ex_K /\ agrees 3 ex_t ex_K ex_v
  /\ exists t', compute_sam 3 1 ex_t = Some t' /\ L t' 5 < U t' 5.
Proof.
  split; [apply sa_check_sound; vm_compute; reflexivity|].
  split; [apply mono_check_sound; vm_compute; reflexivity|]. split; [reflexivity|].
  split; [apply mink_check_sound; vm_compute; reflexivity|].
  split; [apply agrees_check_sound; vm_compute; reflexivity|].
  eexists. split; vm_compute; reflexivity.
Qed.

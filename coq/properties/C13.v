(* C13 - Built-in solvers pick valid actions by their rule and leave the env untouched.
   Statements only; proofs in theories/SolversProofs.v and theories/EnvProofs.v. *)
From ICG Require Import Prelude Bits Table Bounds GameOps SAKnowledge Shapley Exploit Norms Env EnvProofs SolversProofs Search Greedy GreedyProofs SASound SAMSpec SearchMono.
From ICG Require Import RegistryTypes gen.Registry gen.RegistryLinkProps.
From ICG Require Import GreedyInst ScaleProofs.

(* valid actions = positions where the mask is true *)
Theorem C13_valid : forall e a, In a (sv_valid e) <-> nth_error (ev_mask e) a = Some true.
Proof. exact sv_valid_spec. Qed.
Print Assumptions C13_valid.

(* greedy (worst = false) / worst-greedy (worst = true): a valid action whose reward after one step is maximal / minimal
   among all valid actions, and every valid action with a lower index is strictly worse (ties go to the lowest index) *)
Theorem C13_greedy : forall worst e a, sv_greedy worst e = Some a ->
  In a (sv_valid e) /\ exists r, sv_try e a = Some r
    /\ (forall b rb, In b (sv_valid e) -> sv_try e b = Some rb -> if worst then r <= rb else rb <= r)
    /\ (forall b rb, In b (sv_valid e) -> (b < a)%nat -> sv_try e b = Some rb -> if worst then r < rb else rb < r).
Proof. exact sv_greedy_spec. Qed.
Print Assumptions C13_greedy.

(* the decision as a function of the tried rewards (the form compared in lock-step with the implementation) *)
Theorem C13_pick : forall worst acts vals a, length acts = length vals -> sv_pick worst acts vals = Some a ->
  exists i y, nth_error acts i = Some a /\ nth_error vals i = Some y
    /\ (forall z, In z vals -> if worst then y <= z else z <= y)
    /\ (forall j z, (j < i)%nat -> nth_error vals j = Some z -> if worst then y < z else z < y).
Proof. exact sv_pick_spec. Qed.
Print Assumptions C13_pick.
Theorem C13_pick_total : forall worst acts vals, length acts = length vals -> vals <> [] -> exists a, sv_pick worst acts vals = Some a.
Proof. exact sv_pick_total. Qed.
Print Assumptions C13_pick_total.

(* largest: a valid action whose coalition is largest among the valid ones, lowest index among those *)
Theorem C13_largest : forall e a, sv_largest e = Some a ->
  In a (sv_valid e)
  /\ (forall b, In b (sv_valid e) -> (sv_size e b <= sv_size e a)%nat)
  /\ (forall b, In b (sv_valid e) -> (b < a)%nat -> (sv_size e b < sv_size e a)%nat).
Proof. exact sv_largest_spec. Qed.
Print Assumptions C13_largest.

(* trying an action is a step; step followed by unstep restores the environment exactly (C09_step_unstep),
   so the solvers leave the environment as they found it *)
Theorem C13_try_is_step : forall e a r, sv_try e a = Some r -> exists e1 g, ev_step e a = Some e1 /\ ev_gapv e1 = Some g /\ r = - g.
Proof. exact sv_try_is_step_reward. Qed.
Print Assumptions C13_try_is_step.
Theorem C13_step_unstep_restores : forall e a e1 e2 ch k, ev_wf e -> ev_inv e ch k ->
  ev_step e a = Some e1 -> ev_unstep e1 a = Some e2 -> teqn (e_n e) (e_tab e2) (e_tab e) /\ e_steps e2 = e_steps e.
Proof. exact ev_step_unstep. Qed.
Print Assumptions C13_step_unstep_restores.

(* ---------- the expected-greedy search (run/greedy.py get_greedy_rewards) ----------
   [value s] = column of gaps over the sampled games after revealing the coalitions of s; eg_run returns the chosen
   sequence and the rows of the gap matrix.  The search never repeats a coalition, has exactly max_steps choices,
   row k is the gap column of its first k choices, and each choice minimises the mean gap among ALL one-coalition
   extensions by a not yet chosen coalition. *)
Theorem C13_expected_greedy :
  forall value max_steps possible seq rows,
    NoDup possible -> eg_run value max_steps possible = Some (seq, rows) ->
    length seq = max_steps /\ NoDup seq /\ (forall a, In a seq -> In a possible)
    /\ rows = map (fun k => value (firstn k seq)) (List.seq 0 (S max_steps))
    /\ (forall j a, nth_error seq j = Some a ->
          forall b, In b possible -> ~ In b (firstn j seq) ->
            sr_mean (value (firstn j seq ++ [a])) <= sr_mean (value (firstn j seq ++ [b]))).
Proof. exact eg_run_spec. Qed.
Print Assumptions C13_expected_greedy.

(* its gap curve is non-increasing whenever one more revealed coalition never increases the mean gap ... *)
Theorem C13_expected_greedy_curve_nonincreasing :
  forall value max_steps possible seq rows,
    (forall s a, sr_mean (value (s ++ [a])) <= sr_mean (value s)) ->
    NoDup possible -> eg_run value max_steps possible = Some (seq, rows) ->
    forall k, (k < max_steps)%nat -> eg_curve value seq (S k) <= eg_curve value seq k.
Proof. exact eg_curve_nonincreasing. Qed.
Print Assumptions C13_expected_greedy_curve_nonincreasing.

(* ... which is the case for games of the class matching the computer (per sampled game; means follow by sr_mean_le) *)
Theorem C13_value_monotone_sa :
  forall (c : computer) g n t v known seq a x x',
    (c = CRef \/ c = CCached) -> SA n (ev_val v) -> ev_val v 0%N == 0 ->
    MinK n (fun s => ev_mem s (seq ++ known)) ->
    sr_value c g n t v known seq = Some x -> sr_value c g n t v known (seq ++ [a]) = Some x' -> x' <= x.
Proof. exact sr_value_monotone_sa. Qed.
Print Assumptions C13_value_monotone_sa.
Theorem C13_value_monotone_sam :
  forall r g n t v known seq a x x',
    SA n (ev_val v) -> Mono n (ev_val v) -> ev_val v 0%N == 0 ->
    MinK n (fun s => ev_mem s (seq ++ known)) ->
    sr_value (CSam r) g n t v known seq = Some x -> sr_value (CSam r) g n t v known (seq ++ [a]) = Some x' -> x' <= x.
Proof. exact sr_value_monotone_sam. Qed.
Print Assumptions C13_value_monotone_sam.

(* never below any lower bound of the mean gaps of all sets of the same size (in particular the exhaustive optimum, C11),
   and optimal for one reveal (for zero reveals row 0 is the gap at the starting knowledge by C13_expected_greedy) *)
Theorem C13_expected_greedy_vs_optimum :
  forall value max_steps possible seq rows k bound,
    NoDup possible -> eg_run value max_steps possible = Some (seq, rows) -> (k <= max_steps)%nat ->
    (forall s, NoDup s -> (forall a, In a s -> In a possible) -> length s = k -> bound <= sr_mean (value s)) ->
    bound <= eg_curve value seq k.
Proof. exact eg_never_below_optimum. Qed.
Print Assumptions C13_expected_greedy_vs_optimum.
Theorem C13_expected_greedy_first_step_optimal :
  forall value max_steps possible seq rows a,
    NoDup possible -> eg_run value max_steps possible = Some (seq, rows) -> nth_error seq 0 = Some a ->
    forall b, In b possible -> eg_curve value seq 1 <= sr_mean (value [b]).
Proof. exact eg_first_step_optimal. Qed.
Print Assumptions C13_expected_greedy_first_step_optimal.

(* every name of the SOLVERS registry of /repo (regenerated on every run) is one of the modelled solvers *)
Theorem C13_registry_solvers_modelled :
  Forall (fun kv => exists m, rl_solver (snd kv) = Some m) solvers_registry.
Proof. exact registry_solvers_modelled. Qed.
Print Assumptions C13_registry_solvers_modelled.

Example C13_nontrivial :
  let e0 := ev_make 4 CCached GExploit None [1; 2; 4; 8]%N in
  let v := [0; 1; 1; 3; 1; 2; 2; 6; 1; 2; 2; 5; 2; 6; 4; 14] in
  exists e, ev_run e0 [EReset v v] = Some e /\ sv_greedy false e = Some 9%nat /\ sv_greedy true e = Some 1%nat
            /\ sv_largest e = Some 3%nat.
Proof. eexists. split; [vm_compute; reflexivity|]. vm_compute. auto. Qed.

(* ---------- scale-freeness of the expected-greedy search (theories/ScaleProofs.v) ----------
   sc_col c l l' : l' is the column l multiplied by c (entry by entry, up to ==);
   sc_eg_rel c o o' : both searches raise, or both return the SAME sequence and every row of the gap matrix of the
   second is the row of the first multiplied by c. *)

(* np.argmin: multiplying all candidate values by c > 0 leaves the first minimiser (ties included) unchanged *)
Theorem C13_argmin_scale_free : forall c xs xs', 0 < c -> sc_col c xs xs' -> eg_argmin xs' = eg_argmin xs.
Proof. exact sc_argmin. Qed.
Print Assumptions C13_argmin_scale_free.

(* column level: every gap column multiplied by c > 0 *)
Theorem C13_expected_greedy_scale_free :
  forall (c : Q) (value value' : list N -> list Q) (max_steps : nat) (possible : list N),
    0 < c -> (forall s, sc_col c (value s) (value' s)) ->
    sc_eg_rel c (eg_run value max_steps possible) (eg_run value' max_steps possible).
Proof. exact sc_greedy_scale. Qed.
Print Assumptions C13_expected_greedy_scale_free.

(* game level: every sampled game multiplied by the same c > 0 (sc_vals c v v': v' reads as c * v); any computer, any gap
   function (factor c, or c*c for the squared l2 norm), any starting knowledge *)
Theorem C13_expected_greedy_scale_free_games :
  forall c comp g n games games' kn max_steps possible,
    0 < c -> Forall2 (sc_vals c) games games' ->
    sc_eg_rel (sc_gfac g c) (eg_search comp g n games kn max_steps possible)
                            (eg_search comp g n games' kn max_steps possible).
Proof. exact sc_eg_search_scale. Qed.
Print Assumptions C13_expected_greedy_scale_free_games.

(* the reported mean-gap curve is multiplied by the factor *)
Theorem C13_expected_greedy_scale_free_curve :
  forall c o o', sc_eg_rel c o o' ->
    match o, o' with
    | Some (s, rows), Some (s', rows') => s' = s /\ sc_col c (map sr_mean rows) (map sr_mean rows')
    | None, None => True
    | _, _ => False
    end.
Proof. exact sc_greedy_curve. Qed.
Print Assumptions C13_expected_greedy_scale_free_curve.

(* two sampled 3-player games and the same games multiplied by 2^-10: both sides of the search *)
Example C13_scale_free_nontrivial :
  let c := 1 # 1024 in
  let v := [0; 1; 1; 3; 1; 2; 4; 9] in let w := [0; 2; 1; 3; 2; 5; 3; 10] in
  let v' := map (Qmult c) v in let w' := map (Qmult c) w in
  Forall2 (sc_vals c) [v; w] [v'; w']
  /\ eg_search CCached GExploit 3 [v; w] (sr_minimal 3) 2 [3; 5; 6]%N
     = Some ([3; 5]%N, [[6; 5]; [4; 10 # 3]; [2; 5 # 3]])
  /\ eg_search CCached GExploit 3 [v'; w'] (sr_minimal 3) 2 [3; 5; 6]%N
     = Some ([3; 5]%N, [[3 # 512; 5 # 1024]; [1 # 256; 5 # 1536]; [1 # 512; 5 # 3072]])   (* rows / 2^10, reduced *)
  /\ eg_search (CSam 2) GL2 3 [v; w] (sr_minimal 3) 1 [3; 5; 6]%N
     = Some ([3]%N, [[192; 226]; [128; 145]])
  /\ eg_search (CSam 2) GL2 3 [v'; w'] (sr_minimal 3) 1 [3; 5; 6]%N
     = Some ([3]%N, [[3 # 16384; 113 # 524288]; [1 # 8192; 145 # 1048576]])   (* rows / 2^20, reduced *).
Proof.
  split; [apply (sc_games_map (1 # 1024) [_; _])|]. vm_compute. repeat split; reflexivity.
Qed.

(* C13 - Built-in solvers pick valid actions by their rule and leave the env untouched.
   Statements only; proofs in theories/SolversProofs.v and theories/EnvProofs.v. *)
From ICG Require Import Prelude Bits Table Bounds GameOps SAKnowledge Shapley Exploit Norms Env EnvProofs SolversProofs.
From ICG Require Import RegistryTypes gen.Registry gen.RegistryLinkProps.

(* valid actions = positions where the mask is true *)
Theorem C13_valid : forall e a, In a (sv_valid e) <-> nth_error (ev_mask e) a = Some true.
Proof. exact sv_valid_spec. Qed.
Print Assumptions C13_valid.

(* greedy (worst = false) / worst-greedy (worst = true): a valid action whose reward after one step is maximal / minimal
   among all valid actions, and every valid action with a lower index is strictly worse (ties go to the lowest index) *)
Theorem C13_greedy : forall worst e a, sv_greedy worst e = Some a ->
  In a (sv_valid e) /\ exists r, sv_try e a = Some r
    /\ (forall b rb, In b (sv_valid e) -> sv_try e b = Some rb -> if worst then r <= rb else rb <= r)
    /\ (forall b rb, In b (sv_valid e) -> (b < a)%nat -> sv_try e b = Some rb -> if worst then r < rb else rb < r).
Proof. exact sv_greedy_spec. Qed.
Print Assumptions C13_greedy.

(* the decision as a function of the tried rewards (the form compared in lock-step with the implementation) *)
Theorem C13_pick : forall worst acts vals a, length acts = length vals -> sv_pick worst acts vals = Some a ->
  exists i y, nth_error acts i = Some a /\ nth_error vals i = Some y
    /\ (forall z, In z vals -> if worst then y <= z else z <= y)
    /\ (forall j z, (j < i)%nat -> nth_error vals j = Some z -> if worst then y < z else z < y).
Proof. exact sv_pick_spec. Qed.
Print Assumptions C13_pick.
Theorem C13_pick_total : forall worst acts vals, length acts = length vals -> vals <> [] -> exists a, sv_pick worst acts vals = Some a.
Proof. exact sv_pick_total. Qed.
Print Assumptions C13_pick_total.

(* largest: a valid action whose coalition is largest among the valid ones, lowest index among those *)
Theorem C13_largest : forall e a, sv_largest e = Some a ->
  In a (sv_valid e)
  /\ (forall b, In b (sv_valid e) -> (sv_size e b <= sv_size e a)%nat)
  /\ (forall b, In b (sv_valid e) -> (b < a)%nat -> (sv_size e b < sv_size e a)%nat).
Proof. exact sv_largest_spec. Qed.
Print Assumptions C13_largest.

(* trying an action is a step; step followed by unstep restores the environment exactly (C09_step_unstep),
   so the solvers leave the environment as they found it *)
Theorem C13_try_is_step : forall e a r, sv_try e a = Some r -> exists e1 g, ev_step e a = Some e1 /\ ev_gapv e1 = Some g /\ r = - g.
Proof. exact sv_try_is_step_reward. Qed.
Print Assumptions C13_try_is_step.
Theorem C13_step_unstep_restores : forall e a e1 e2 ch k, ev_wf e -> ev_inv e ch k ->
  ev_step e a = Some e1 -> ev_unstep e1 a = Some e2 -> teqn (e_n e) (e_tab e2) (e_tab e) /\ e_steps e2 = e_steps e.
Proof. exact ev_step_unstep. Qed.
Print Assumptions C13_step_unstep_restores.

(* every name of the SOLVERS registry of /repo (regenerated on every run) is one of the modelled solvers *)
Theorem C13_registry_solvers_modelled :
  Forall (fun kv => exists m, rl_solver (snd kv) = Some m) solvers_registry.
Proof. exact registry_solvers_modelled. Qed.
Print Assumptions C13_registry_solvers_modelled.

Example C13_nontrivial :
  let e0 := ev_make 4 CCached GExploit None [1; 2; 4; 8]%N in
  let v := [0; 1; 1; 3; 1; 2; 2; 6; 1; 2; 2; 5; 2; 6; 4; 14] in
  exists e, ev_run e0 [EReset v v] = Some e /\ sv_greedy false e = Some 9%nat /\ sv_greedy true e = Some 1%nat
            /\ sv_largest e = Some 3%nat.
Proof. eexists. split; [vm_compute; reflexivity|]. vm_compute. auto. Qed.

(* C13 - Built-in solvers pick valid actions by their rule and leave the env untouched.
   Statements only; proofs in theories/SolversProofs.v and theories/EnvProofs.v. *)
From ICG Require Import Prelude Bits Table Bounds GameOps SAKnowledge Shapley Exploit Norms Env EnvProofs SolversProofs Search Greedy GreedyProofs SASound SAMSpec SearchMono.
From ICG Require Import RegistryTypes gen.Registry gen.RegistryLinkProps.

(* valid actions = positions where the mask is true *)
Theorem C13_valid : forall e a, In a (sv_valid e) <-> nth_error (ev_mask e) a = Some true.
Proof. exact sv_valid_spec. Qed.
Print Assumptions C13_valid.

(* greedy (worst = false) / worst-greedy (worst = true): a valid action whose reward after one step is maximal / minimal
   among all valid actions, and every valid action with a lower index is strictly worse (ties go to the lowest index) *)
Theorem C13_greedy : forall worst e a, sv_greedy worst e = Some a ->
  In a (sv_valid e) /\ exists r, sv_try e a = Some r
    /\ (forall b rb, In b (sv_valid e) -> sv_try e b = Some rb -> if worst then r <= rb else rb <= r)
    /\ (forall b rb, In b (sv_valid e) -> (b < a)%nat -> sv_try e b = Some rb -> if worst then r < rb else rb < r).
Proof. exact sv_greedy_spec. Qed.
Print Assumptions C13_greedy.

(* the decision as a function of the tried rewards (the form compared in lock-step with the implementation) *)
Theorem C13_pick : forall worst acts vals a, length acts = length vals -> sv_pick worst acts vals = Some a ->
  exists i y, nth_error acts i = Some a /\ nth_error vals i = Some y
    /\ (forall z, In z vals -> if worst then y <= z else z <= y)
    /\ (forall j z, (j < i)%nat -> nth_error vals j = Some z -> if worst then y < z else z < y).
Proof. exact sv_pick_spec. Qed.
Print Assumptions C13_pick.
Theorem C13_pick_total : forall worst acts vals, length acts = length vals -> vals <> [] -> exists a, sv_pick worst acts vals = Some a.
Proof. exact sv_pick_total. Qed.
Print Assumptions C13_pick_total.

(* largest: a valid action whose coalition is largest among the valid ones, lowest index among those *)
Theorem C13_largest : forall e a, sv_largest e = Some a ->
  In a (sv_valid e)
  /\ (forall b, In b (sv_valid e) -> (sv_size e b <= sv_size e a)%nat)
  /\ (forall b, In b (sv_valid e) -> (b < a)%nat -> (sv_size e b < sv_size e a)%nat).
Proof. exact sv_largest_spec. Qed.
Print Assumptions C13_largest.

(* trying an action is a step; step followed by unstep restores the environment exactly (C09_step_unstep),
   so the solvers leave the environment as they found it *)
Theorem C13_try_is_step : forall e a r, sv_try e a = Some r -> exists e1 g, ev_step e a = Some e1 /\ ev_gapv e1 = Some g /\ r = - g.
Proof. exact sv_try_is_step_reward. Qed.
Print Assumptions C13_try_is_step.
Theorem C13_step_unstep_restores : forall e a e1 e2 ch k, ev_wf e -> ev_inv e ch k ->
  ev_step e a = Some e1 -> ev_unstep e1 a = Some e2 -> teqn (e_n e) (e_tab e2) (e_tab e) /\ e_steps e2 = e_steps e.
Proof. exact ev_step_unstep. Qed.
Print Assumptions C13_step_unstep_restores.

(* ---------- the expected-greedy search (run/greedy.py get_greedy_rewards) ----------
   [value s] = column of gaps over the sampled games after revealing the coalitions of s; eg_run returns the chosen
   sequence and the rows of the gap matrix.  The search never repeats a coalition, has exactly max_steps choices,
   row k is the gap column of its first k choices, and each choice minimises the mean gap among ALL one-coalition
   extensions by a not yet chosen coalition. *)
Theorem C13_expected_greedy :
  forall value max_steps possible seq rows,
    NoDup possible -> eg_run value max_steps possible = Some (seq, rows) ->
    length seq = max_steps /\ NoDup seq /\ (forall a, In a seq -> In a possible)
    /\ rows = map (fun k => value (firstn k seq)) (List.seq 0 (S max_steps))
    /\ (forall j a, nth_error seq j = Some a ->
          forall b, In b possible -> ~ In b (firstn j seq) ->
            sr_mean (value (firstn j seq ++ [a])) <= sr_mean (value (firstn j seq ++ [b]))).
Proof. exact eg_run_spec. Qed.
Print Assumptions C13_expected_greedy.

(* its gap curve is non-increasing whenever one more revealed coalition never increases the mean gap ... *)
Theorem C13_expected_greedy_curve_nonincreasing :
  forall value max_steps possible seq rows,
    (forall s a, sr_mean (value (s ++ [a])) <= sr_mean (value s)) ->
    NoDup possible -> eg_run value max_steps possible = Some (seq, rows) ->
    forall k, (k < max_steps)%nat -> eg_curve value seq (S k) <= eg_curve value seq k.
Proof. exact eg_curve_nonincreasing. Qed.
Print Assumptions C13_expected_greedy_curve_nonincreasing.

(* ... which is the case for games of the class matching the computer (per sampled game; means follow by sr_mean_le) *)
Theorem C13_value_monotone_sa :
  forall (c : computer) g n t v known seq a x x',
    (c = CRef \/ c = CCached) -> SA n (ev_val v) -> ev_val v 0%N == 0 ->
    MinK n (fun s => ev_mem s (seq ++ known)) ->
    sr_value c g n t v known seq = Some x -> sr_value c g n t v known (seq ++ [a]) = Some x' -> x' <= x.
Proof. exact sr_value_monotone_sa. Qed.
Print Assumptions C13_value_monotone_sa.
Theorem C13_value_monotone_sam :
  forall r g n t v known seq a x x',
    SA n (ev_val v) -> Mono n (ev_val v) -> ev_val v 0%N == 0 ->
    MinK n (fun s => ev_mem s (seq ++ known)) ->
    sr_value (CSam r) g n t v known seq = Some x -> sr_value (CSam r) g n t v known (seq ++ [a]) = Some x' -> x' <= x.
Proof. exact sr_value_monotone_sam. Qed.
Print Assumptions C13_value_monotone_sam.

(* never below any lower bound of the mean gaps of all sets of the same size (in particular the exhaustive optimum, C11),
   and optimal for one reveal (for zero reveals row 0 is the gap at the starting knowledge by C13_expected_greedy) *)
Theorem C13_expected_greedy_vs_optimum :
  forall value max_steps possible seq rows k bound,
    NoDup possible -> eg_run value max_steps possible = Some (seq, rows) -> (k <= max_steps)%nat ->
    (forall s, NoDup s -> (forall a, In a s -> In a possible) -> length s = k -> bound <= sr_mean (value s)) ->
    bound <= eg_curve value seq k.
Proof. exact eg_never_below_optimum. Qed.
Print Assumptions C13_expected_greedy_vs_optimum.
Theorem C13_expected_greedy_first_step_optimal :
  forall value max_steps possible seq rows a,
    NoDup possible -> eg_run value max_steps possible = Some (seq, rows) -> nth_error seq 0 = Some a ->
    forall b, In b possible -> eg_curve value seq 1 <= sr_mean (value [b]).
Proof. exact eg_first_step_optimal. Qed.
Print Assumptions C13_expected_greedy_first_step_optimal.

(* every name of the SOLVERS registry of /repo (regenerated on every run) is one of the modelled solvers *)
Theorem C13_registry_solvers_modelled :
  Forall (fun kv => exists m, rl_solver (snd kv) = Some m) solvers_registry.
Proof. exact registry_solvers_modelled. Qed.
Print Assumptions C13_registry_solvers_modelled.

Example C13_nontrivial :
  let e0 := ev_make 4 CCached GExploit None [1; 2; 4; 8]%N in
  let v := [0; 1; 1; 3; 1; 2; 2; 6; 1; 2; 2; 5; 2; 6; 4; 14] in
  exists e, ev_run e0 [EReset v v] = Some e /\ sv_greedy false e = Some 9%nat /\ sv_greedy true e = Some 1%nat
            /\ sv_largest e = Some 3%nat.
Proof. eexists. split; [vm_compute; reflexivity|]. vm_compute. auto. Qed.

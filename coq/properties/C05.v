(* C05 - exploitability = summed best-case Shapley gain = binomially weighted gap.
   Model: theories/Exploit.v (ex_maxgain = MaxGainGame.get_values, ex_exploit = compute_exploitability,
   ex_wgap = sum w(S)/C(n,|S|) with Pascal's C), Shapley.v, Norms.v.
   Proofs: theories/ExploitProofs.v (sum exchange in ShapleyProofs.v), NormsProofs.v. *)
From ICG Require Import Prelude Bits Table Shapley ShapleyProofs Exploit ExploitProofs Norms NormsProofs.
Local Open Scope Q_scope.

(* MAIN identity, for ALL n (sum-exchange argument, no reflection, no bound on n).
   Hypotheses as in DESIGN 7 C05: the grand coalition is known (l N == u N) and upper(empty) == 0. *)
Theorem exploit_weighted_gap n l u :
  (1 <= n)%nat -> l (grand n) == u (grand n) -> u 0%N == 0 ->
  ex_exploit n l u == ex_wgap n (fun S => u S - l S).
Proof. exact (ex_weighted_gap n l u). Qed.
Print Assumptions exploit_weighted_gap.

(* The code subtracts game.get_value(N), which reads the LOWER column of the known row; modelled that way,
   the identity needs neither 1 <= n nor l N == u N, and shows exactly what u(empty) contributes. *)
Theorem exploit_weighted_gap_general n l u :
  ex_exploit n l u == ex_wgap n (fun S => u S - l S) - u 0%N.
Proof. exact (ex_weighted_gap_general n l u). Qed.
Print Assumptions exploit_weighted_gap_general.

(* "the sum over players of the largest Shapley value that player obtains in any game between the bounds,
    minus the grand coalition's value": the sum of the max-gain values minus v(N) ... *)
Theorem exploit_is_summed_max_gain n l u :
  l (grand n) == u (grand n) ->
  ex_exploit n l u == qsum (map (fun i => sh_player n i (ex_maxgain l u i)) (seq 0 n)) - u (grand n).
Proof. exact (ex_is_summed_max_gain n l u). Qed.
Print Assumptions exploit_is_summed_max_gain.

(* ... where the max-gain game dominates every completion inside the box (ALL n) ... *)
Theorem maxgain_dominates n l u i w :
  (i < n)%nat -> (forall S, bounded n S -> l S <= w S /\ w S <= u S) ->
  sh_player n i w <= sh_player n i (ex_maxgain l u i).
Proof. exact (ex_maxgain_dominates n l u i w). Qed.
Print Assumptions maxgain_dominates.

(* ... and is itself inside the box, so the maximum is attained *)
Theorem maxgain_in_box l u i S : l S <= u S -> l S <= ex_maxgain l u i S /\ ex_maxgain l u i S <= u S.
Proof. exact (ex_maxgain_in_box l u i S). Qed.
Print Assumptions maxgain_in_box.

Theorem exploit_nonneg n l u :
  u 0%N == 0 -> (forall S, bounded n S -> l S <= u S) -> 0 <= ex_exploit n l u.
Proof. exact (ex_nonneg n l u). Qed.
Print Assumptions exploit_nonneg.

Theorem exploit_zero_iff n l u :
  u 0%N == 0 -> (forall S, bounded n S -> l S <= u S) ->
  (ex_exploit n l u == 0 <-> forall S, bounded n S -> l S == u S).
Proof. exact (ex_zero_iff n l u). Qed.
Print Assumptions exploit_zero_iff.

(* on a game object (table of rows known/lower/upper): a number is returned only if the grand coalition is known,
   and then it is the weighted gap of the two bound columns *)
Theorem exploit_on_game_object n t x :
  ex_exploit_tab n t = Some x -> hi (get t 0%N) == 0 ->
  known (get t (grand n)) = true /\ x == ex_wgap n (fun S => hi (get t S) - lo (get t S)).
Proof. exact (ex_tab_weighted_gap n t x). Qed.
Print Assumptions exploit_on_game_object.

(* the four gap functions as functions of the width vector (used by C07) *)
Theorem c05_gaps_monotone n w w' :
  (forall S, bounded n S -> 0 <= w' S /\ w' S <= w S) ->
  nm_l1 n w' <= nm_l1 n w /\ nm_linf n w' <= nm_linf n w /\ nm_l2sq n w' <= nm_l2sq n w /\
  ex_wgap n w' <= ex_wgap n w.
Proof. exact (gaps_monotone n w w'). Qed.
Print Assumptions c05_gaps_monotone.

Theorem c05_gaps_nonneg_and_zero n w :
  (forall S, bounded n S -> 0 <= w S) ->
  (0 <= nm_l1 n w /\ 0 <= nm_linf n w /\ 0 <= nm_l2sq n w /\ 0 <= ex_wgap n w) /\
  ((forall S, bounded n S -> w S == 0) ->
   nm_l1 n w == 0 /\ nm_linf n w == 0 /\ nm_l2sq n w == 0 /\ ex_wgap n w == 0).
Proof. exact (gaps_nonneg_and_zero n w). Qed.
Print Assumptions c05_gaps_nonneg_and_zero.

(* ---------- concrete, non-trivial instance (3 players; unequal widths on sizes 1 and 2) ---------- *)
(* ids 0..7 = {},{0},{1},{0,1},{2},{0,2},{1,2},{0,1,2} *)
Definition c05_l : N -> Q := sh_game_of_list [0; 1; 2; 4; 3; 5; 7; 12].
Definition c05_u : N -> Q := sh_game_of_list [0; 1; 4; 7; 3; 5; 8; 12].
Definition c05_w : N -> Q := sh_game_of_list [0; 1; 3; 5; 3; 5; 15 # 2; 12].   (* a completion inside the box *)

Example c05_hypotheses :
  (1 <= 3)%nat /\ c05_l (grand 3) == c05_u (grand 3) /\ c05_u 0%N == 0 /\
  (forall S, bounded 3 S -> c05_l S <= c05_w S /\ c05_w S <= c05_u S).
Proof.
  repeat split; try lia; try (vm_compute; reflexivity);
    apply in_alln in H; vm_compute in H;
    repeat (destruct H as [<-|H]; [vm_compute; discriminate|]); destruct H.
Qed.

Example c05_box : forall S, bounded 3 S -> c05_l S <= c05_u S.
Proof. intros S HS. destruct c05_hypotheses as [_ [_ [_ H]]]. destruct (H S HS). lra. Qed.

(* widths: 2 at {1} (size 1), 3 at {0,1} and 1 at {1,2} (size 2):  2/3 + 3/3 + 1/3 = 2 *)
Example c05_value : Qred (ex_exploit 3 c05_l c05_u) = 2 # 1 /\ Qred (ex_wgap 3 (fun S => c05_u S - c05_l S)) = 2 # 1.
Proof. split; vm_compute; reflexivity. Qed.

Example c05_identity_instance : ex_exploit 3 c05_l c05_u == ex_wgap 3 (fun S => c05_u S - c05_l S).
Proof. destruct c05_hypotheses as [H1 [H2 [H3 _]]]. apply exploit_weighted_gap; assumption. Qed.

Example c05_nonneg_instance : 0 <= ex_exploit 3 c05_l c05_u /\ ~ ex_exploit 3 c05_l c05_u == 0.
Proof.
  destruct c05_hypotheses as [_ [_ [H3 _]]]. split; [apply exploit_nonneg; [exact H3| exact c05_box]|].
  intro E. destruct (exploit_zero_iff 3 c05_l c05_u H3 c05_box) as [Hz _].
  assert (Hb : bounded 3 2) by (apply in_alln; vm_compute; tauto).
  specialize (Hz E 2%N Hb). vm_compute in Hz. discriminate.
Qed.

Example c05_domination_instance :
  sh_player 3 1 c05_w <= sh_player 3 1 (ex_maxgain c05_l c05_u 1) /\
  Qred (sh_player 3 1 c05_w) = 19 # 4 /\ Qred (sh_player 3 1 (ex_maxgain c05_l c05_u 1)) = 11 # 2.
Proof.
  split; [apply maxgain_dominates; [lia| apply c05_hypotheses]| split; vm_compute; reflexivity].
Qed.

(* the game object of the same box: rows (known, lower, upper); {1}, {0,1}, {1,2} unknown *)
Definition c05_t : table :=
  of_fun (alln 3) (fun S => mkrow (Qeq_bool (c05_l S) (c05_u S)) (c05_l S) (c05_u S)).
Example c05_object_instance : ex_exploit_tab 3 c05_t = Some (2 # 1) /\ ex_exploit_tab 3 empty = None.
Proof. split; vm_compute; reflexivity. Qed.

From ICG Require Import Prelude.
Theorem c05_stub : True. Proof. exact I. Qed.
Print Assumptions c05_stub.

From ICG Require Import Prelude.
Theorem stub : True. Proof. exact I. Qed.
Print Assumptions stub.

(* C01 - Superadditive bounds always contain the true game.
   Statements only; proofs live in theories/SASound.v and theories/SAEquiv.v. *)
From ICG Require Import Prelude Bits Table Bounds GameOps FoldLemmas BoundsSpec SASound SAEquiv Checks HistorySound.

(* For either superadditive computer, any player count, any knowledge K containing the minimal information,
   any superadditive hidden game v, and ANY table t holding that knowledge (unknown rows arbitrary, i.e. whatever
   stale numbers an earlier history left): after the computation the true value of every coalition lies in
   [lower, upper], lower <= upper, the known flags are K, and every known row is untouched and equals its value. *)
Theorem C01_sa_sound :
  forall (c : computer) (n : nat) (K : N -> bool) (v : N -> Q) (t t' : table),
    (c = CRef \/ c = CCached) -> SA n v -> MinK n K -> agrees n t K v -> compute c n t = Some t' ->
    forall s, bounded n s ->
      L t' s <= v s /\ v s <= U t' s /\ L t' s <= U t' s /\ Kn t' s = K s
      /\ (K s = true -> get t' s = get t s /\ L t' s == v s /\ U t' s == v s).
Proof. exact sa_sound. Qed.
Print Assumptions C01_sa_sound.

(* the computation is defined (raises nothing) under the same hypotheses *)
Theorem C01_sa_defined :
  forall (c : computer) (n : nat) (K : N -> bool) (v : N -> Q) (t : table),
    (c = CRef \/ c = CCached) -> MinK n K -> agrees n t K v -> exists t', compute c n t = Some t'.
Proof. exact sa_defined. Qed.
Print Assumptions C01_sa_defined.

(* The same over operation HISTORIES, with the quantifier explicit: after any sequence of public operations on a fresh game
   object (set / unset / reveal / un-reveal / bulk set / bulk reset / bulk bound set / recompute with any computer, in any
   order and number) whose value-carrying operations carry true values of v, if the resulting knowledge contains the minimal
   information then computing the bounds gives sound intervals for the knowledge the object then has. *)
Theorem C01_sa_sound_history :
  forall (c : computer) n v ops t',
    (c = CRef \/ c = CCached) -> SA n v -> v 0%N == 0 ->
    forallb public_op ops = true -> Forall (truthful n v) ops ->
    MinK n (Kn (run n ops init_table)) -> compute c n (run n ops init_table) = Some t' ->
    forall s, bounded n s ->
      L t' s <= v s /\ v s <= U t' s /\ L t' s <= U t' s /\ Kn t' s = Kn (run n ops init_table) s
      /\ (Kn (run n ops init_table) s = true ->
           get t' s = get (run n ops init_table) s /\ L t' s == v s /\ U t' s == v s).
Proof. exact sa_sound_history. Qed.
Print Assumptions C01_sa_sound_history.

(* Non-vacuity: a non-additive superadditive 3-player game with negative and non-zero singletons,
   K = minimal information + {0,1}, stale rows holding 77 / -77: the hypotheses hold and an interval is non-degenerate. *)
Definition ex_v : N -> Q := game_of [0; -1; 2; 3; 1#2; 1; 4; 9].
Definition ex_K : N -> bool := known_in [0; 1; 2; 4; 7; 3]%N.
Definition ex_t : table := table_of 3 ex_K ex_v 77.

Example C01_hypotheses_satisfiable :
  SA 3 ex_v /\ MinK 3 ex_K /\ agrees 3 ex_t ex_K ex_v
  /\ exists t', compute CCached 3 ex_t = Some t' /\ compute CRef 3 ex_t = Some t' /\ L t' 5 < U t' 5.
Proof.
  split; [apply sa_check_sound; vm_compute; reflexivity|].
  split; [apply mink_check_sound; vm_compute; reflexivity|].
  split; [apply agrees_check_sound; vm_compute; reflexivity|].
  eexists. split; [vm_compute; reflexivity|]. split; [vm_compute; reflexivity|]. vm_compute. reflexivity.
Qed.

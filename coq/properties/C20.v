(* C20 - Saving results is all-or-nothing under a crash.
   Model: theories/Crash.v; proofs: theories/CrashProofs.v, theories/CrashFrameProofs.v (public save(): frame theorem).

   ASSUMPTIONS built into the model's semantics (cr_step / cr_stop), i.e. the trusted base of these theorems:
     (A1) os.replace (rename(2)) within one directory is atomic: the target is the old file or the whole new one;
     (A2) bytes handed to the kernel by a completed write(2) are not undone by the death of the process, and bytes
          still in user-space buffers are lost by it;
     (A3) an exception unwinds through the with-block, whose exit flushes and closes the file (Cr_Interrupt); an
          exception raised inside a flush may lose buffered bytes (Cr_Partial n, any n);
     (A4) power loss / fsync ordering / other writers of the same file are out of scope.
   Partial by design: these POSIX / CPython behaviours are modelled and validated by fault injection on every run
   (harness/props/c20.py), not verified. *)
From Coq Require Import List NArith Bool Arith Lia.
From ICG Require Import Store StoreProofs Crash CrashProofs CrashFrameProofs.
Import ListNotations.

(* Temp file + replace.  For every directory content, every payload, every way the runtime chunks the payload into
   writes and spills its buffers (body), every crash point k (also beyond the end of the trace) and every crash
   mode - process death, interrupt, or an interrupt that loses part of the buffers - the results file is exactly the
   previous file (None = it did not exist) or exactly the complete new file. *)
Theorem atomic_all_or_nothing :
  forall (fs0 : cr_fsmap) (h p q : N) (body : list cr_op) (payload : cr_bytes),
    p <> q -> cr_body_ok h payload body = true ->
    forall (k : nat) (m : cr_mode),
      cr_crash_at m (cr_save_atomic h p q body) k fs0 p = cr_file fs0 p \/
      cr_crash_at m (cr_save_atomic h p q body) k fs0 p = Some payload.
Proof. exact cr_atomic_all_or_nothing. Qed.
Print Assumptions atomic_all_or_nothing.

(* the same in the words of DESIGN.md section 7: content in {encode store, encode (save_json store name e)} *)
Theorem atomic_all_or_nothing_store :
  forall (E : Type) (encode : list (st_str * E) -> cr_bytes) (fs0 : cr_fsmap) (h p q : N)
         (store : list (st_str * E)) (name : st_str) (e : E) (body : list cr_op) (k : nat) (m : cr_mode),
    p <> q -> cr_file fs0 p = Some (encode store) ->
    cr_body_ok h (encode (st_save store name e)) body = true ->
    k <= length (cr_save_atomic h p q body) ->
    cr_crash_at m (cr_save_atomic h p q body) k fs0 p = Some (encode store) \/
    cr_crash_at m (cr_save_atomic h p q body) k fs0 p = Some (encode (st_save store name e)).
Proof. exact (@cr_atomic_all_or_nothing_store). Qed.
Print Assumptions atomic_all_or_nothing_store.

(* Sessions: any sequence of saves into a fresh directory, ANY of which (not just one) may be cut short at any
   operation in any mode.  Afterwards the file parses (or was never created), every save that completed is in it,
   and whatever it held at any earlier moment it still holds, unchanged. Needs: json.loads inverts json.dumps
   (trusted codec), the runtime writes exactly the payload through the temp handle (checked on every recorded trace). *)
Theorem atomic_never_loses :
  forall (E : Type) (encode : list (st_str * E) -> cr_bytes) (decode : cr_bytes -> option (list (st_str * E)))
         (policy : cr_bytes -> list cr_op) (h p q : N),
    p <> q ->
    (forall s, decode (encode s) = Some s) ->
    (forall b, cr_body_ok h b (policy b) = true) ->
    forall (fs0 : cr_fsmap) (reqs : list cr_req),
      cr_file fs0 p = None ->
      exists s, cr_load decode p (cr_session encode decode policy h p q Cr_Atomic fs0 reqs) = Some s /\
                (forall r, In r reqs -> cr_fault r = None -> st_mem (cr_name r) s = true) /\
                (forall pre post s_pre name e,
                    reqs = pre ++ post ->
                    cr_load decode p (cr_session encode decode policy h p q Cr_Atomic fs0 pre) = Some s_pre ->
                    st_lookup name s_pre = Some e -> st_lookup name s = Some e).
Proof. exact (@cr_atomic_never_loses). Qed.
Print Assumptions atomic_never_loses.

(* The code as it stands (open "w", then dump).  Refutation by computation: old file {"a":1}, new file
   {"a":1,"b":2}, death after the fourth operation: the file holds the first 8 bytes of the new text. *)
Theorem inplace_refuted :
  exists fs0 h p body payload k m,
    cr_body_ok h payload body = true /\ k <= length (cr_save_inplace h p body) /\
    cr_crash_at m (cr_save_inplace h p body) k fs0 p <> cr_file fs0 p /\
    cr_crash_at m (cr_save_inplace h p body) k fs0 p <> Some payload.
Proof. exact cr_inplace_refuted. Qed.
Print Assumptions inplace_refuted.

(* k = 1 gives the empty file - for every old content, payload, chunking and crash mode *)
Theorem inplace_truncates :
  forall (fs0 : cr_fsmap) (h p : N) (body : list cr_op) (m : cr_mode),
    cr_crash_at m (cr_save_inplace h p body) 1 fs0 p = Some [].
Proof. exact cr_inplace_truncates. Qed.
Print Assumptions inplace_truncates.

(* and what that means for a session: one fault right after the open loses every earlier run for good, because the
   empty text does not parse and every later save dies in json.loads before writing anything *)
Theorem inplace_loses_everything :
  forall (E : Type) (encode : list (st_str * E) -> cr_bytes) (decode : cr_bytes -> option (list (st_str * E)))
         (policy : cr_bytes -> list cr_op) (h p q : N),
    (forall s, decode (encode s) = Some s) ->
    decode [] = None ->
    forall (fs : cr_fsmap) (s : list (st_str * E)) (name : st_str) (e : E) (m : cr_mode) (later : list cr_req),
      cr_holds encode p fs s -> st_mem name s = false ->
      let fs' := cr_session encode decode policy h p q Cr_InPlace fs (cr_mkreq name e (Some (1, m)) :: later) in
      cr_file fs' p = Some [] /\ cr_load decode p fs' = None.
Proof. exact (@cr_inplace_loses_everything). Qed.
Print Assumptions inplace_loses_everything.

(* ---------- the hypotheses are satisfiable by a non-trivial instance ---------- *)
(* the body of cr_ex_body (two writes, a partial spill, a third write) is a legal chunking of the 13-byte payload *)
Example ex_body_ok : cr_body_ok 1 cr_ex_new cr_ex_body = true.
Proof. vm_compute. reflexivity. Qed.
(* all crash points x three modes of the atomic trace on that instance, computed: old or new, and both occur *)
Example ex_atomic_all_points :
  let tr := cr_save_atomic 1 1 2 cr_ex_body in
  forallb (fun k => forallb (fun m =>
      match cr_crash_at m tr k cr_ex_fs 1 with
      | Some c => cr_bytes_eqb c cr_ex_old || cr_bytes_eqb c cr_ex_new
      | None => false
      end) [Cr_Death; Cr_Interrupt; Cr_Partial 3]) (seq 0 (S (length tr))) = true
  /\ cr_crash_at Cr_Death tr 6 cr_ex_fs 1 = Some cr_ex_old
  /\ cr_crash_at Cr_Death tr 7 cr_ex_fs 1 = Some cr_ex_new.
Proof. vm_compute. repeat split; reflexivity. Qed.
(* the same points on the in-place trace: 5 of the 7 crash points leave neither file *)
Example ex_inplace_points :
  map (fun k => cr_crash_at Cr_Death (cr_save_inplace 1 1 cr_ex_body) k cr_ex_fs 1) (seq 0 7) =
  [Some cr_ex_old; Some []; Some []; Some []; Some (firstn 8 cr_ex_new); Some (firstn 8 cr_ex_new); Some cr_ex_new].
Proof. vm_compute. reflexivity. Qed.

(* the hypotheses of atomic_never_loses / inplace_loses_everything hold together for a concrete codec and chunking policy
   (entries = unit, file = byte 123 followed by length-prefixed keys; policy = write 5 bytes, spill 3, write the rest) *)
Example ex_session_hyps :
  (forall s, cr_ex_decode (cr_ex_encode s) = Some s) /\
  (forall b, cr_body_ok 1 b (cr_ex_policy b) = true) /\
  cr_ex_decode [] = None.
Proof. exact cr_ex_hyps. Qed.

(* a session on that instance, computed: save "a"; save "b" but stop after 2 operations with 2 buffered bytes reaching the file; save "c"; save "a" again.
   temp+replace: the file parses and holds a and c.   in place: the file is left with a strict prefix of the new text,
   no longer parses, and the later saves change nothing *)
Definition ex_reqs : list (@cr_req unit) :=
  [cr_mkreq [97]%N tt None; cr_mkreq [98]%N tt (Some (2, Cr_Partial 2)); cr_mkreq [99]%N tt None; cr_mkreq [97]%N tt None].
Example ex_session_atomic :
  cr_load cr_ex_decode 1 (cr_session cr_ex_encode cr_ex_decode cr_ex_policy 1 1 2 Cr_Atomic [] ex_reqs)
  = Some [([97]%N, tt); ([99]%N, tt)].
Proof. vm_compute. reflexivity. Qed.
Example ex_session_inplace :
  let fs := cr_session cr_ex_encode cr_ex_decode cr_ex_policy 1 1 2 Cr_InPlace [] ex_reqs in
  cr_file fs 1 = Some [123; 1]%N /\ cr_load cr_ex_decode 1 fs = None.
Proof. vm_compute. split; reflexivity. Qed.

(* ================= the public entry point save(model_path, unique_name, output) ================= *)
(* save() runs  save_data_plot ; save_json ; save_draw_coalitions.  The two plot savers are modelled as ARBITRARY
   traces [pre] and [post] of foreign operations: any number of opens / writes / spills / flushes / closes / renames,
   any content, handles left open across the json save or not - as long as no operation names the results file p or
   its temporary q, nor uses the json saver's handle h.  [cr_foreign] constructor by constructor: *)
Theorem foreign_spec :
  forall (p q h : N) (o : cr_op),
    cr_foreign p q [h] o = true <->
    match o with
    | Cr_OpenTrunc h' y | Cr_OpenTmp h' y => h' <> h /\ y <> p /\ y <> q
    | Cr_Write h' _ | Cr_Spill h' _ | Cr_Flush h' | Cr_Close h' => h' <> h
    | Cr_Replace a b => a <> p /\ a <> q /\ b <> p /\ b <> q
    end.
Proof. exact cr_foreign_spec. Qed.
Print Assumptions foreign_spec.

(* FRAME THEOREM.  Wherever the process stops - inside the first plot saver, inside the json saver, inside the second
   plot saver, or after the end - and however (death, interrupt with the with-blocks of ALL open files unwinding,
   interrupt losing part of every buffer), the results file is exactly the previous file (None = absent) or exactly
   the complete new one.  The process starts with nothing open (cr_crash starts from cr_init fs0), so "h is not open
   in fs0" holds by construction. *)
Theorem public_save_all_or_nothing :
  forall (h p q : N) (body : list cr_op) (payload : cr_bytes),
    p <> q -> cr_body_ok h payload body = true ->
    forall (fs0 : cr_fsmap) (pre post : list cr_op),
      forallb (cr_foreign p q [h]) pre = true -> forallb (cr_foreign p q [h]) post = true ->
      forall (k : nat) (m : cr_mode),
        cr_crash_at m (pre ++ cr_save_atomic h p q body ++ post) k fs0 p = cr_file fs0 p \/
        cr_crash_at m (pre ++ cr_save_atomic h p q body ++ post) k fs0 p = Some payload.
Proof. exact cr_public_save_all_or_nothing. Qed.
Print Assumptions public_save_all_or_nothing.

(* sharper, and with the minimal hypothesis for this sequential shape: only the PATH clauses of cr_foreign are needed
   (the plot savers may reuse any handle number); the file is the previous one up to and including the close of the
   temp file and the payload from the rename on *)
Theorem public_save_exact :
  forall (h p q : N) (body : list cr_op) (payload : cr_bytes),
    p <> q -> cr_body_ok h payload body = true ->
    forall (fs0 : cr_fsmap) (pre post : list cr_op) (k : nat) (m : cr_mode),
      forallb (cr_pathfree p q) pre = true -> forallb (cr_pathfree p q) post = true ->
      cr_crash_at m (pre ++ cr_save_atomic h p q body ++ post) k fs0 p =
      if k <=? length pre + length body + 2 then cr_file fs0 p else Some payload.
Proof. exact cr_public_save_exact. Qed.
Print Assumptions public_save_exact.

(* no fault, or one after the last operation: the results file holds the payload *)
Theorem public_save_completes :
  forall (h p q : N) (body : list cr_op) (payload : cr_bytes),
    p <> q -> cr_body_ok h payload body = true ->
    forall (fs0 : cr_fsmap) (pre post : list cr_op),
      forallb (cr_foreign p q [h]) pre = true -> forallb (cr_foreign p q [h]) post = true ->
      forall (k : nat) (m : cr_mode),
        length (pre ++ cr_save_atomic h p q body ++ post) <= k ->
        cr_crash_at m (pre ++ cr_save_atomic h p q body ++ post) k fs0 p = Some payload.
Proof. exact cr_public_save_completes. Qed.
Print Assumptions public_save_completes.

(* Stronger shape: the foreign operations may come ANYWHERE, also between the json saver's own operations (another
   thread, a signal handler, savers run concurrently).  Hypothesis: the non-foreign operations of the trace are
   exactly the json saver's, in order.  Here the handle clause of cr_foreign is what keeps the save intact. *)
Theorem interleaved_save_all_or_nothing :
  forall (h p q : N) (body : list cr_op) (payload : cr_bytes),
    p <> q -> cr_body_ok h payload body = true ->
    forall (fs0 : cr_fsmap) (tr : list cr_op),
      filter (fun o => negb (cr_foreign p q [h] o)) tr = cr_save_atomic h p q body ->
      forall (k : nat) (m : cr_mode),
        cr_crash_at m tr k fs0 p = cr_file fs0 p \/ cr_crash_at m tr k fs0 p = Some payload.
Proof. exact cr_interleaved_save_all_or_nothing. Qed.
Print Assumptions interleaved_save_all_or_nothing.

(* What the frame hypothesis excludes, and rightly so.  Seeded defect "a fresh model directory gets an empty results
   file written in place before the savers run": [open p "w"; write "{}"; close] ++ the atomic save.  The pre-creation
   names p (so it is not foreign) and a stop at k = 2 (file truncated, "{}" still buffered) leaves a ZERO-BYTE results
   file in a directory that had none: neither the previous state nor the payload, and it does not parse. *)
Theorem precreate_inplace_refuted :
  exists fs0 h' h p q text body payload k m,
    p <> q /\ cr_body_ok h payload body = true /\
    k <= length (cr_precreate h' p text ++ cr_save_atomic h p q body) /\
    cr_file fs0 p = None /\
    cr_crash_at m (cr_precreate h' p text ++ cr_save_atomic h p q body) k fs0 p = Some [] /\
    cr_crash_at m (cr_precreate h' p text ++ cr_save_atomic h p q body) k fs0 p <> cr_file fs0 p /\
    cr_crash_at m (cr_precreate h' p text ++ cr_save_atomic h p q body) k fs0 p <> Some payload.
Proof. exact cr_precreate_inplace_refuted. Qed.
Print Assumptions precreate_inplace_refuted.

(* generally: whatever follows a truncating open of p, a stop right after it leaves the empty file, in every mode;
   and the pre-creation never satisfies the frame hypothesis *)
Theorem precreate_truncates :
  forall (fs0 : cr_fsmap) (h' p : N) (rest : list cr_op) (m : cr_mode),
    cr_crash_at m (Cr_OpenTrunc h' p :: rest) 1 fs0 p = Some [].
Proof. exact cr_precreate_truncates. Qed.
Print Assumptions precreate_truncates.

Theorem precreate_not_foreign :
  forall (h' p q : N) (hs : list N) (text : cr_bytes), forallb (cr_foreign p q hs) (cr_precreate h' p text) = false.
Proof. exact cr_precreate_not_foreign. Qed.
Print Assumptions precreate_not_foreign.

(* ---------- a concrete public save: the hypotheses hold, and what the files are ---------- *)
(* results file 1 = {"a":1}, temp 2, json handle 1, payload {"a":1,"b":2} chunked as cr_ex_body.
   pre  = open 10 (handle 5), write 4 bytes, spill 2 of them, LEAVE IT OPEN; write 12 through handle 6, close, rename 12 -> 11
   post = 2 more bytes to handle 5, close it; reopen 11 truncating, write, flush, close.          20 operations. *)
Example ex_public_hyps :
  cr_ex_pre = [Cr_OpenTrunc 5 10; Cr_Write 5 [137; 80; 78; 71]; Cr_Spill 5 2;
               Cr_OpenTmp 6 12; Cr_Write 6 [1; 2; 3]; Cr_Close 6; Cr_Replace 12 11]%N /\
  cr_ex_post = [Cr_Write 5 [0; 0]; Cr_Close 5; Cr_OpenTrunc 6 11; Cr_Write 6 [4; 5]; Cr_Flush 6; Cr_Close 6]%N /\
  cr_ex_public = cr_ex_pre ++ cr_save_atomic 1 1 2 cr_ex_body ++ cr_ex_post /\
  forallb (cr_foreign 1 2 [1%N]) cr_ex_pre = true /\ forallb (cr_foreign 1 2 [1%N]) cr_ex_post = true /\
  cr_body_ok 1 cr_ex_new cr_ex_body = true /\ length cr_ex_public = 20.
Proof. vm_compute. repeat split; reflexivity. Qed.

(* every crash point x three modes, computed: the results file is old up to k = 13 (close of the temp file) and new
   from k = 14 (the rename) on - while the plot files DO pass through third states (file 10 holds a 2-byte prefix
   after a death at k = 10; an interrupt at the same point flushes handle 5 into file 10, not into the results file) *)
Example ex_public_all_points :
  forallb (fun k => forallb (fun m =>
      match cr_crash_at m cr_ex_public k cr_ex_fs 1 with
      | Some c => cr_bytes_eqb c (if k <=? 13 then cr_ex_old else cr_ex_new)
      | None => false
      end) [Cr_Death; Cr_Interrupt; Cr_Partial 1]) (seq 0 22) = true
  /\ cr_crash_at Cr_Interrupt cr_ex_public 3 cr_ex_fs 1 = Some cr_ex_old       (* inside the first plot saver *)
  /\ cr_crash_at Cr_Interrupt cr_ex_public 10 cr_ex_fs 1 = Some cr_ex_old      (* inside the json saver *)
  /\ cr_crash_at Cr_Death cr_ex_public 13 cr_ex_fs 1 = Some cr_ex_old          (* temp file closed, not yet renamed *)
  /\ cr_crash_at Cr_Death cr_ex_public 14 cr_ex_fs 1 = Some cr_ex_new          (* renamed *)
  /\ cr_crash_at (Cr_Partial 1) cr_ex_public 17 cr_ex_fs 1 = Some cr_ex_new    (* inside the second plot saver *)
  /\ cr_crash_at Cr_Death cr_ex_public 10 cr_ex_fs 10 = Some [137; 80]%N
  /\ cr_crash_at Cr_Interrupt cr_ex_public 10 cr_ex_fs 10 = Some [137; 80; 78; 71]%N
  /\ cr_crash_at Cr_Death cr_ex_public 18 cr_ex_fs 11 = Some [].
Proof. vm_compute. repeat split; reflexivity. Qed.

(* an interleaved trace satisfying the hypothesis of interleaved_save_all_or_nothing: handle 5 writes file 10 and
   renames it to 11 while the json saver is at work; all points x modes are old-or-new and both occur *)
Example ex_interleaved :
  filter (fun o => negb (cr_foreign 1 2 [1%N] o)) cr_ex_interleaved = cr_save_atomic 1 1 2 cr_ex_body
  /\ forallb (fun k => forallb (fun m =>
      match cr_crash_at m cr_ex_interleaved k cr_ex_fs 1 with
      | Some c => cr_bytes_eqb c (if k <=? 12 then cr_ex_old else cr_ex_new)
      | None => false
      end) [Cr_Death; Cr_Interrupt; Cr_Partial 1]) (seq 0 (S (length cr_ex_interleaved))) = true
  /\ cr_crash_at Cr_Interrupt cr_ex_interleaved 14 cr_ex_fs 11 = Some [137; 80; 78; 71; 0; 0]%N.
Proof. vm_compute. repeat split; reflexivity. Qed.

(* the seeded pre-creation on a fresh directory, all points: absent, then a zero-byte file (k = 1, 2), then "{}"
   (k = 3 .. 9: parses, but is a third state byte-wise), then the payload *)
Example ex_precreate_points :
  map (fun k => cr_crash_at Cr_Death (cr_precreate 2 1 [123; 125]%N ++ cr_save_atomic 1 1 2 cr_ex_body) k [] 1) (seq 0 11) =
  [None; Some []; Some []; Some [123; 125]%N; Some [123; 125]%N; Some [123; 125]%N; Some [123; 125]%N;
   Some [123; 125]%N; Some [123; 125]%N; Some [123; 125]%N; Some cr_ex_new].
Proof. vm_compute. reflexivity. Qed.

(* C02 - Superadditive bounds are tight: the extreme superadditive completions.
   Statements only; proofs in theories/SATight.v and theories/SAWitness.v. *)
From ICG Require Import Prelude Bits Table Bounds FoldLemmas BoundsSpec SASound SAEquiv SATight SAWitness SAPartition Checks.

(* Completion n K v w : w is superadditive, w(empty) = 0, and w agrees with v on every known coalition.
   (1) every completion lies between the computed bounds; (2) the lower bounds themselves are a completion
   (so each lower bound is the minimum, attained simultaneously); (3) the explicit upper-bound formula. *)
Theorem C02_sa_tight :
  forall (c : computer) n K v t t',
    (c = CRef \/ c = CCached) -> SA n v -> v 0%N == 0 -> MinK n K -> agrees n t K v -> compute c n t = Some t' ->
    (forall w, Completion n K v w -> forall s, bounded n s -> L t' s <= w s /\ w s <= U t' s)
    /\ Completion n K v (L t')
    /\ (forall s, bounded n s -> K s = false ->
          U t' s == qminl (map (fun T => v T - L t' (N.ldiff T s)) (filter K (supers n s)))).
Proof. exact sa_tight. Qed.
Print Assumptions C02_sa_tight.

(* (4) the upper bound of every coalition is the maximum: some completion attains it *)
Theorem C02_sa_upper_attained :
  forall (c : computer) n K v t t',
    (c = CRef \/ c = CCached) -> SA n v -> v 0%N == 0 -> MinK n K -> agrees n t K v -> compute c n t = Some t' ->
    forall s, bounded n s -> exists w, Completion n K v w /\ w s == U t' s.
Proof. exact sa_upper_attained. Qed.
Print Assumptions C02_sa_upper_attained.

Theorem C02_sa_lower_attained :
  forall (c : computer) n K v t t',
    (c = CRef \/ c = CCached) -> SA n v -> v 0%N == 0 -> MinK n K -> agrees n t K v -> compute c n t = Some t' ->
    forall s, bounded n s -> exists w, Completion n K v w /\ w s == L t' s.
Proof. exact sa_lower_attained. Qed.
Print Assumptions C02_sa_lower_attained.

(* (5) equivalently: the lower bound is the best total of a partition of S into known coalitions.
   Part n K S ps : ps lists non-empty, known, pairwise disjoint coalitions of the game whose union is S. *)
Theorem C02_sa_lower_best_partition :
  forall (c : computer) n K v t t',
    (c = CRef \/ c = CCached) -> SA n v -> v 0%N == 0 -> MinK n K -> agrees n t K v -> compute c n t = Some t' ->
    forall S, bounded n S ->
      (forall ps, Part n K S ps -> qsum (map v ps) <= L t' S)
      /\ exists ps, Part n K S ps /\ qsum (map v ps) == L t' S.
Proof. exact sa_lower_best_partition. Qed.
Print Assumptions C02_sa_lower_best_partition.

Definition ex_v : N -> Q := game_of [0; -1; 2; 3; 1#2; 1; 4; 9].
Definition ex_K : N -> bool := known_in [0; 1; 2; 4; 7; 3]%N.
Definition ex_t : table := table_of 3 ex_K ex_v 77.
Example C02_hypotheses_satisfiable :
  SA 3 ex_v /\ ex_v 0%N == 0 /\ MinK 3 ex_K /\ agrees 3 ex_t ex_K ex_v
  /\ exists t', compute CCached 3 ex_t = Some t' /\ L t' 5 < ex_v 5 /\ ex_v 5 < U t' 5.
Proof.
  split; [apply sa_check_sound; vm_compute; reflexivity|]. split; [reflexivity|].
  split; [apply mink_check_sound; vm_compute; reflexivity|].
  split; [apply agrees_check_sound; vm_compute; reflexivity|].
  eexists. split; [vm_compute; reflexivity|]. split; vm_compute; reflexivity.
Qed.

(* C16 - The size-aggregated environment is a faithful abstraction of the full one.
   Statements only; proofs in theories/LinearProofs.v.  The coalition sampled among the candidates is an oracle argument. *)
From ICG Require Import Prelude Bits Table Bounds GameOps Shapley Exploit Norms Env EnvProofs LinearProofs.

(* lv_unknown_of_size e k a : action a denotes an explorable coalition of size k that is still unknown *)

(* the mask allows size k iff some explorable coalition of size k is still unknown *)
Theorem C16_mask : forall e k, nth_error (lv_mask e) k = Some true <-> exists a, lv_unknown_of_size e k a.
Proof. exact lv_mask_spec. Qed.
Print Assumptions C16_mask.

(* the candidates among which the step samples are exactly those coalitions; non-empty when the size is allowed *)
Theorem C16_candidates : forall e k a, In a (lv_candidates e k) <-> lv_unknown_of_size e k a.
Proof. exact lv_candidates_spec. Qed.
Print Assumptions C16_candidates.
Theorem C16_candidates_nonempty : forall e k, nth_error (lv_mask e) k = Some true -> lv_candidates e k <> [].
Proof. exact lv_candidates_nonempty. Qed.
Print Assumptions C16_candidates_nonempty.

(* a step with size k reveals exactly one previously unknown coalition of that size: it IS the underlying step of that
   coalition (so reward, done, info, knowledge are those of C09) *)
Theorem C16_step : forall e k a e', lv_step e k a = Some e' ->
  (k < e_n e)%nat /\ lv_unknown_of_size e k a /\ ev_step e a = Some e'.
Proof. exact lv_step_spec. Qed.
Print Assumptions C16_step.
Theorem C16_step_defined : forall e k a, (k < e_n e)%nat -> lv_unknown_of_size e k a -> lv_step e k a = ev_step e a.
Proof. exact lv_step_defined. Qed.
Print Assumptions C16_step_defined.

(* the observation is the per-size sum of the underlying observation, of length n *)
Theorem C16_obs : forall e k, (k < lv_len e)%nat ->
  nth_error (lv_obs e) k
  = Some (qsum (map snd (filter (fun p => Nat.eqb (fst p) k) (combine (lv_sizes e) (ev_obs e))))).
Proof. exact lv_obs_spec. Qed.
Print Assumptions C16_obs.
Theorem C16_lengths : forall e, length (lv_obs e) = lv_len e /\ length (lv_mask e) = lv_len e.
Proof. exact lv_obs_length. Qed.
Print Assumptions C16_lengths.
Theorem C16_len_is_n : forall e, (1 <= e_n e)%nat ->
  (exists s, In s (e_expl e) /\ size (e_n e) s = (e_n e - 1)%nat) ->
  (forall s, In s (e_expl e) -> (size (e_n e) s <= e_n e - 1)%nat) -> lv_len e = e_n e.
Proof. exact lv_len_is_n. Qed.
Print Assumptions C16_len_is_n.

Example C16_nontrivial :
  let e0 := ev_make 3 CCached GExploit None [1; 2; 4]%N in
  let v := [0; 1; 1; 3; 1; 2; 4; 9] in
  exists e, ev_run e0 [EReset v v; EStep 0] = Some e
            /\ lv_mask e = [false; false; true] /\ lv_candidates e 2 = [1%nat; 2%nat] /\ length (lv_obs e) = 3%nat.
Proof. eexists. split; [vm_compute; reflexivity|]. vm_compute. auto. Qed.

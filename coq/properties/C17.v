(* C17 - An incomplete game object is a faithful map coalition -> (known?, lower, upper).
   Statements only; proofs in theories/GameOpsProofs.v.  [public_op] = every value / bulk / bound-computation operation;
   the scalar bound setters (the computers' private interface) are excluded, as in the property. *)
From ICG Require Import Prelude Bits Table Bounds GameOps FoldLemmas GameOpsProofs.

(* refinement to the abstract map (last relevant operation wins; bulk reset clears; bound setters and computations
   never change what is known): for every history of public operations on a fresh object, for EVERY coalition id *)
Theorem C17_ops_refine_spec :
  forall n ops, forallb public_op ops = true ->
    forall s, Kn (run n ops init_table) s = isSome (known_spec n ops s)
              /\ (forall x, known_spec n ops s = Some x -> L (run n ops init_table) s = x /\ U (run n ops init_table) s = x).
Proof. exact ops_refine_spec. Qed.
Print Assumptions C17_ops_refine_spec.

Theorem C17_wf_invariant :
  forall n ops, forallb public_op ops = true ->
    forall s, Kn (run n ops init_table) s = true -> L (run n ops init_table) s = U (run n ops init_table) s.
Proof. exact wf_invariant. Qed.
Print Assumptions C17_wf_invariant.

Theorem C17_bulk_bounds_skip_known :
  forall upper n t s, Kn t s = true ->
    (forall ss xs, get (fst (set_bounds_some upper n t ss xs)) s = get t s) /\
    (forall xs, get (fst (set_bounds_all upper n t xs)) s = get t s).
Proof. exact bulk_bounds_skip_known. Qed.
Print Assumptions C17_bulk_bounds_skip_known.

Theorem C17_unknown_never_a_value :
  forall t s, Kn t s = false ->
    get_value t s = None /\ get_known_value t s = None /\ get_known_values_of t [s] = [None]
    /\ forall ss, In s ss -> get_values_of t ss = None.
Proof. exact unknown_never_a_value. Qed.
Print Assumptions C17_unknown_never_a_value.

Theorem C17_known_value_returned :
  forall t s, Kn t s = true ->
    get_value t s = Some (L t s) /\ get_known_value t s = Some (L t s) /\ get_known_values_of t [s] = [Some (U t s)].
Proof. exact known_value_returned. Qed.
Print Assumptions C17_known_value_returned.

Theorem C17_init_empty_known :
  Kn init_table 0%N = true /\ L init_table 0%N = 0 /\ U init_table 0%N = 0 /\ forall s, s <> 0%N -> get init_table s = row0.
Proof. exact init_empty_known. Qed.
Print Assumptions C17_init_empty_known.

Theorem C17_neg_spec :
  forall n t s, bounded n s -> get (neg_table n t) s = mkrow (known (get t s)) (- hi (get t s)) (- lo (get t s)).
Proof. exact neg_spec. Qed.
Print Assumptions C17_neg_spec.

Theorem C17_neg_involution :
  forall n t s, bounded n s -> get (neg_table n (neg_table n t)) s = get t s.
Proof. exact neg_involution. Qed.
Print Assumptions C17_neg_involution.

(* every computer leaves the flags and the known rows alone, for all ids *)
Theorem C17_compute_frame :
  forall (c : computer) n t t', compute c n t = Some t' ->
    forall s, Kn t' s = Kn t s /\ (Kn t s = true -> get t' s = get t s).
Proof. exact compute_frame. Qed.
Print Assumptions C17_compute_frame.

Example C17_history_nontrivial :
  let ops := [OReveal 3%N 5; OSetLowersAll [1;1;1;1]; OSet 1%N (-2); OUnreveal 3%N; OSetUppersSome [2;2;1]%N [7;8;9]] in
  forallb public_op ops = true /\ Kn (run 2 ops init_table) 1 = true /\ U (run 2 ops init_table) 1%N == -2
  /\ Kn (run 2 ops init_table) 3 = false /\ U (run 2 ops init_table) 2%N == 8.
Proof. vm_compute. repeat split; reflexivity. Qed.

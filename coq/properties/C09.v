(* C09 - The reveal-one-coalition environment reflects exactly what was revealed.
   Statements only; proofs in theories/EnvProofs.v.  The hidden game v and its normalised copy nv drawn at each reset
   are inputs of the state machine. *)
From ICG Require Import Prelude Bits Table Bounds GameOps FoldLemmas SASound SAKnowledge SAMKnowledge Shapley Exploit Norms Env EnvProofs GapsAlongReveals.
From ICG Require Import RegistryTypes gen.Registry gen.RegistryLinkProps.
From Coq Require Import ZArith.

(* After ANY sequence of reset / step / unstep calls that starts with a reset and in which every call succeeds
   (i.e. every action is valid): the configuration is unchanged; for every coalition of the game the known flag is
   "initially known or chosen since the last reset"; known rows carry the hidden game's values (lower = upper = v);
   the table is fresh (its bounds are those of its own knowledge); the step counter is #steps - #unsteps since the reset. *)
Theorem C09_env_invariant :
  forall e0 v nv tr e, ev_wf e0 -> ev_run e0 (EReset v nv :: tr) = Some e ->
    ev_same_config e0 e /\ ev_wf e /\
    ev_inv e (ev_chosen (e_expl e0) (EReset v nv :: tr)) (fold_left ev_count_step (EReset v nv :: tr) 0%Z).
Proof. exact ev_invariant. Qed.
Print Assumptions C09_env_invariant.

(* the constructor produces a well-formed configuration (explorable = everything not initially known) *)
Theorem C09_make_wf : forall n c g b init, ev_wf (ev_make n c g b init).
Proof. exact ev_make_wf. Qed.
Print Assumptions C09_make_wf.

(* the action mask marks exactly the still-unknown explorable coalitions *)
Theorem C09_mask : forall e ch k, ev_wf e -> ev_inv e ch k ->
  ev_mask e = map (fun s => negb (ev_mem s ch)) (e_expl e).
Proof. exact ev_mask_spec. Qed.
Print Assumptions C09_mask.

(* the observation shows the normalised hidden value at chosen positions and 0 elsewhere *)
Theorem C09_obs : forall e ch k, ev_wf e -> ev_inv e ch k ->
  ev_obs e = map (fun s => if ev_mem s ch then ev_val (e_norm e) s else 0) (e_expl e).
Proof. exact ev_obs_spec. Qed.
Print Assumptions C09_obs.

(* done iff budget used up, nothing left to reveal, or all intervals degenerate *)
Theorem C09_done : forall e,
  ev_done e = (match e_budget e with Some b => (Z.of_nat b <=? e_steps e)%Z | None => false end)
              || negb (existsb (fun s => negb (known (get (e_tab e) s))) (e_expl e))
              || forallb (fun s => Qeq_bool (hi (get (e_tab e) s) - lo (get (e_tab e) s)) 0) (alln (e_n e)).
Proof. exact ev_done_spec. Qed.
Print Assumptions C09_done.

(* info reports the revealed coalition *)
Theorem C09_info : forall e a e', ev_step e a = Some e' -> ev_info e' a = nth_error (e_expl e) a /\ ev_info e' a <> None.
Proof. exact ev_info_spec. Qed.
Print Assumptions C09_info.

(* reset installs the new hidden game and forgets everything but the initial knowledge *)
Theorem C09_reset : forall e v nv e', ev_wf e -> ev_reset e v nv = Some e' ->
  e_hidden e' = v /\ e_norm e' = nv /\ e_steps e' = 0%Z /\
  forall s, bounded (e_n e') s -> Kn (e_tab e') s = ev_mem s (e_init e').
Proof. exact ev_reset_spec. Qed.
Print Assumptions C09_reset.

(* step followed by unstep of the same action restores table (hence mask, observation, reward, done) and counter *)
Theorem C09_step_unstep : forall e a e1 e2 ch k, ev_wf e -> ev_inv e ch k ->
  ev_step e a = Some e1 -> ev_unstep e1 a = Some e2 ->
  teqn (e_n e) (e_tab e2) (e_tab e) /\ e_steps e2 = e_steps e.
Proof. exact ev_step_unstep. Qed.
Print Assumptions C09_step_unstep.

(* the reward is minus the gap of the current table: ev_gapv e = ev_gap (e_gap e) (e_n e) (e_tab e) by definition; for any
   table whose bounds are sound for a hidden game with v(empty) = 0 (C01 for superadditive games under the superadditive
   computers, C04 for superadditive-monotone games under the SAM approximations) the gap is >= 0, i.e. the reward is never positive *)
Theorem C09_reward_never_positive :
  forall g n K v t t' x, v 0%N == 0 -> K 0%N = true -> (forall s, bounded n s -> sound_at n K v t t' s) ->
    ev_gap g n t' = Some x -> 0 <= x.
Proof. exact reward_never_positive. Qed.
Print Assumptions C09_reward_never_positive.

(* every registered computer and gap function of /repo (regenerated on every run) is an object of the model *)
Theorem C09_registry_modelled :
  Forall (fun kv => exists c : computer, rl_computer (snd kv) = Some c) bounds_registry
  /\ Forall (fun kv => exists g : gapfn, rl_gap (snd kv) = Some g) gap_registry.
Proof. exact (conj registry_bounds_modelled registry_gaps_modelled). Qed.
Print Assumptions C09_registry_modelled.

Example C09_trace_nontrivial :
  let e0 := ev_make 3 CCached GExploit (Some 2%nat) [1; 2; 4]%N in
  let v := [0; 1; 1; 3; 1; 2; 4; 9] in
  exists e, ev_run e0 [EReset v v; EStep 0; EStep 2; EUnstep 0] = Some e
            /\ ev_mask e = [true; true; false] /\ e_steps e = 1%Z /\ ev_done e = false.
Proof. eexists. split; [vm_compute; reflexivity|]. vm_compute. auto. Qed.

(* C09 - The reveal-one-coalition environment reflects exactly what was revealed.
   Statements only; proofs in theories/EnvProofs.v.  The hidden game v and its normalised copy nv drawn at each reset
   are inputs of the state machine. *)
From ICG Require Import Prelude Bits Table Bounds GameOps FoldLemmas SASound SAKnowledge SAMKnowledge Shapley Exploit Norms Env EnvProofs GapsAlongReveals.
From ICG Require Import RegistryTypes gen.Registry gen.RegistryLinkProps.
From ICG Require Import Normalize NormalizeProofs ScaleProofs ShiftProofs NormalInvProofs.
From Coq Require Import ZArith.

(* After ANY sequence of reset / step / unstep calls that starts with a reset and in which every call succeeds
   (i.e. every action is valid): the configuration is unchanged; for every coalition of the game the known flag is
   "initially known or chosen since the last reset"; known rows carry the hidden game's values (lower = upper = v);
   the table is fresh (its bounds are those of its own knowledge); the step counter is #steps - #unsteps since the reset. *)
Theorem C09_env_invariant :
  forall e0 v nv tr e, ev_wf e0 -> ev_run e0 (EReset v nv :: tr) = Some e ->
    ev_same_config e0 e /\ ev_wf e /\
    ev_inv e (ev_chosen (e_expl e0) (EReset v nv :: tr)) (fold_left ev_count_step (EReset v nv :: tr) 0%Z).
Proof. exact ev_invariant. Qed.
Print Assumptions C09_env_invariant.

(* the constructor produces a well-formed configuration (explorable = everything not initially known) *)
Theorem C09_make_wf : forall n c g b init, ev_wf (ev_make n c g b init).
Proof. exact ev_make_wf. Qed.
Print Assumptions C09_make_wf.

(* the action mask marks exactly the still-unknown explorable coalitions *)
Theorem C09_mask : forall e ch k, ev_wf e -> ev_inv e ch k ->
  ev_mask e = map (fun s => negb (ev_mem s ch)) (e_expl e).
Proof. exact ev_mask_spec. Qed.
Print Assumptions C09_mask.

(* the observation shows the normalised hidden value at chosen positions and 0 elsewhere *)
Theorem C09_obs : forall e ch k, ev_wf e -> ev_inv e ch k ->
  ev_obs e = map (fun s => if ev_mem s ch then ev_val (e_norm e) s else 0) (e_expl e).
Proof. exact ev_obs_spec. Qed.
Print Assumptions C09_obs.

(* done iff budget used up, nothing left to reveal, or all intervals degenerate *)
Theorem C09_done : forall e,
  ev_done e = (match e_budget e with Some b => (Z.of_nat b <=? e_steps e)%Z | None => false end)
              || negb (existsb (fun s => negb (known (get (e_tab e) s))) (e_expl e))
              || forallb (fun s => Qeq_bool (hi (get (e_tab e) s) - lo (get (e_tab e) s)) 0) (alln (e_n e)).
Proof. exact ev_done_spec. Qed.
Print Assumptions C09_done.

(* info reports the revealed coalition *)
Theorem C09_info : forall e a e', ev_step e a = Some e' -> ev_info e' a = nth_error (e_expl e) a /\ ev_info e' a <> None.
Proof. exact ev_info_spec. Qed.
Print Assumptions C09_info.

(* reset installs the new hidden game and forgets everything but the initial knowledge *)
Theorem C09_reset : forall e v nv e', ev_wf e -> ev_reset e v nv = Some e' ->
  e_hidden e' = v /\ e_norm e' = nv /\ e_steps e' = 0%Z /\
  forall s, bounded (e_n e') s -> Kn (e_tab e') s = ev_mem s (e_init e').
Proof. exact ev_reset_spec. Qed.
Print Assumptions C09_reset.

(* step followed by unstep of the same action restores table (hence mask, observation, reward, done) and counter *)
Theorem C09_step_unstep : forall e a e1 e2 ch k, ev_wf e -> ev_inv e ch k ->
  ev_step e a = Some e1 -> ev_unstep e1 a = Some e2 ->
  teqn (e_n e) (e_tab e2) (e_tab e) /\ e_steps e2 = e_steps e.
Proof. exact ev_step_unstep. Qed.
Print Assumptions C09_step_unstep.

(* the reward is minus the gap of the current table: ev_gapv e = ev_gap (e_gap e) (e_n e) (e_tab e) by definition; for any
   table whose bounds are sound for a hidden game with v(empty) = 0 (C01 for superadditive games under the superadditive
   computers, C04 for superadditive-monotone games under the SAM approximations) the gap is >= 0, i.e. the reward is never positive *)
Theorem C09_reward_never_positive :
  forall g n K v t t' x, v 0%N == 0 -> K 0%N = true -> (forall s, bounded n s -> sound_at n K v t t' s) ->
    ev_gap g n t' = Some x -> 0 <= x.
Proof. exact reward_never_positive. Qed.
Print Assumptions C09_reward_never_positive.

(* every registered computer and gap function of /repo (regenerated on every run) is an object of the model *)
Theorem C09_registry_modelled :
  Forall (fun kv => exists c : computer, rl_computer (snd kv) = Some c) bounds_registry
  /\ Forall (fun kv => exists g : gapfn, rl_gap (snd kv) = Some g) gap_registry.
Proof. exact (conj registry_bounds_modelled registry_gaps_modelled). Qed.
Print Assumptions C09_registry_modelled.

Example C09_trace_nontrivial :
  let e0 := ev_make 3 CCached GExploit (Some 2%nat) [1; 2; 4]%N in
  let v := [0; 1; 1; 3; 1; 2; 4; 9] in
  exists e, ev_run e0 [EReset v v; EStep 0; EStep 2; EUnstep 0] = Some e
            /\ ev_mask e = [true; true; false] /\ e_steps e = 1%Z /\ ev_done e = false.
Proof. eexists. split; [vm_compute; reflexivity|]. vm_compute. auto. Qed.

(* ---------- Affine invariance of what the agent sees (theories/NormalInvProofs.v) ----------
   ni_affine_vals n c a v v' : forall X, bounded n X -> ev_val v' X == c * (ev_val v X + tr_add a n X)
                               (v' is the image of the hidden game v under scaling by c and adding the additive game of a)
   ni_normalised n v nv      : forall X, bounded n X -> ev_val nv X == nz_normal n (ev_val v) X
                               (nv is what normalize_game leaves of a copy of v: C15.normalize_spec)
   ni_regular n g            : ~ nz_surplus n g == 0 \/ (nz_SA n g /\ g 0 == 0)
   ni_action o               : o is a step or an unstep *)

(* the same configuration, the same actions; two hidden games, one the positive affine image of the other, each with its
   normalised copy: whenever both runs succeed, the masks are equal and the observations are pointwise == .
   Every computer (also the monotone approximations).  Since tr is arbitrary this covers every state along the runs. *)
Theorem C09_observation_affine_invariant :
  forall e c a v v' nv nv' tr e1 e2,
    ev_wf e -> 0 < c -> ni_regular (e_n e) (ev_val v) ->
    ni_affine_vals (e_n e) c a v v' -> ni_normalised (e_n e) v nv -> ni_normalised (e_n e) v' nv' ->
    Forall ni_action tr ->
    ev_run e (EReset v nv :: tr) = Some e1 -> ev_run e (EReset v' nv' :: tr) = Some e2 ->
    ev_mask e2 = ev_mask e1 /\ Forall2 Qeq (ev_obs e1) (ev_obs e2).
Proof. exact ni_obs_affine_invariant. Qed.
Print Assumptions C09_observation_affine_invariant.

(* superadditive computers (reference, cached), any hidden game: after the reset and after every further valid or invalid
   action both runs raise or both succeed; then the bounds tables are in the affine relation (tr_aff_rel), the gap
   (reward = - gap) is multiplied by sc_gfac gap c = c (exploitability, l1, l-infinity) or c * c (the squared l2 norm
   the model carries), and mask and done flag are the same *)
Theorem C09_reward_affine :
  forall e c a v v' nv nv' tr,
    ev_wf e -> tr_sa_computer (e_comp e) = true -> 0 < c -> ni_affine_vals (e_n e) c a v v' -> Forall ni_action tr ->
    match ev_run e (EReset v nv :: tr), ev_run e (EReset v' nv' :: tr) with
    | Some e1, Some e2 =>
        tr_aff_rel c a (e_n e) (e_tab e1) (e_tab e2)
        /\ sc_optq_rel (sc_gfac (e_gap e) c) (ev_gapv e1) (ev_gapv e2)
        /\ ev_mask e2 = ev_mask e1 /\ ev_done e2 = ev_done e1
    | None, None => True
    | _, _ => False
    end.
Proof. exact ni_reward_affine. Qed.
Print Assumptions C09_reward_affine.

(* both together: everything step() returns to the agent *)
Theorem C09_agent_view_affine :
  forall e c a v v' nv nv' tr,
    ev_wf e -> tr_sa_computer (e_comp e) = true -> 0 < c -> ni_regular (e_n e) (ev_val v) ->
    ni_affine_vals (e_n e) c a v v' -> ni_normalised (e_n e) v nv -> ni_normalised (e_n e) v' nv' ->
    Forall ni_action tr ->
    match ev_run e (EReset v nv :: tr), ev_run e (EReset v' nv' :: tr) with
    | Some e1, Some e2 =>
        Forall2 Qeq (ev_obs e1) (ev_obs e2) /\ ev_mask e2 = ev_mask e1 /\ ev_done e2 = ev_done e1
        /\ sc_optq_rel (sc_gfac (e_gap e) c) (ev_gapv e1) (ev_gapv e2)
    | None, None => True
    | _, _ => False
    end.
Proof. exact ni_agent_view_affine. Qed.
Print Assumptions C09_agent_view_affine.

(* Example: 3 players, singletons initially known, hidden game v = (0; 1; 1; 3; 1; 2; 4; 9) and its image under
   c = 1/1024, a = (2; -1; 1/2); after revealing {0,1} and {1,2}: the same observation (1/6; 0; 1/3) and mask,
   exploitability 2 and 2/1024, squared l2 gap (reference computer) 36 and 36/1024^2 *)
Definition ex_ni_v : list Q := [0; 1; 1; 3; 1; 2; 4; 9].
Definition ex_ni_a : nat -> Q := tr_vec [2; -(1); 1#2].
Definition ex_ni_v' : list Q := ni_image_list 3 (1#1024) ex_ni_a ex_ni_v.
Definition ex_ni_show (o : option env) : option (list Q * list bool * bool * option Q) :=
  option_map (fun e => (map Qred (ev_obs e), ev_mask e, ev_done e, ev_gapv e)) o.

Example C09_affine_invariant_nontrivial :
  let e0 := ev_make 3 CCached GExploit None [1; 2; 4]%N in
  let e0' := ev_make 3 CRef GL2 None [1; 2; 4]%N in
  let nv := ni_normal_list 3 ex_ni_v in
  let nv' := ni_normal_list 3 ex_ni_v' in
  let tr := [EStep 0; EStep 2] in
  ev_wf e0 /\ 0 < 1#1024 /\ ni_regular 3 (ev_val ex_ni_v) /\ ni_affine_vals 3 (1#1024) ex_ni_a ex_ni_v ex_ni_v'
  /\ ni_normalised 3 ex_ni_v nv /\ ni_normalised 3 ex_ni_v' nv' /\ Forall ni_action tr
  /\ ex_ni_v' = [0; 3#1024; 0; 1#256; 3#2048; 9#2048; 7#2048; 21#2048]
  /\ ex_ni_show (ev_run e0 (EReset ex_ni_v nv :: tr)) = Some ([1#6; 0; 1#3], [false; true; false], false, Some 2)
  /\ ex_ni_show (ev_run e0 (EReset ex_ni_v' nv' :: tr)) = Some ([1#6; 0; 1#3], [false; true; false], false, Some (1#512))
  /\ ex_ni_show (ev_run e0' (EReset ex_ni_v nv :: tr)) = Some ([1#6; 0; 1#3], [false; true; false], false, Some 36)
  /\ ex_ni_show (ev_run e0' (EReset ex_ni_v' nv' :: tr)) = Some ([1#6; 0; 1#3], [false; true; false], false, Some (9#262144)).
Proof.
  cbv zeta. split; [apply ev_make_wf|]. split; [reflexivity|]. split; [left; vm_compute; intro H; discriminate H|].
  split; [apply ni_affine_vals_check_sound; vm_compute; reflexivity|].
  split; [apply ni_normalised_check_sound; vm_compute; reflexivity|].
  split; [apply ni_normalised_check_sound; vm_compute; reflexivity|].
  split; [repeat constructor|].
  split; [vm_compute; reflexivity|]. split; [vm_compute; reflexivity|]. split; [vm_compute; reflexivity|].
  split; vm_compute; reflexivity.
Qed.

(* The "nothing left to learn" disjunct of done (np.all(upper == lower)) coincides with "the gap is zero", whichever gap
   function the environment was configured with (DoneGap.v, via GapCompare.v): for every table with lower <= upper
   everywhere, a known grand coalition and upper(empty) = 0, for all n.  So a zero reward means every coalition is
   pinned down, and the flag does not depend on the gap function. *)
From ICG Require Import GapCompare DoneGap.
Theorem C09_done_iff_gap_zero :
  forall n t g,
    (forall S, bounded n S -> lo (get t S) <= hi (get t S)) ->
    known (get t (grand n)) = true -> hi (get t 0%N) == 0 ->
    exists x, ev_gap g n t = Some x /\ (dg_degenerate n t = true <-> x == 0).
Proof. exact dg_done_iff_gap_zero. Qed.
Print Assumptions C09_done_iff_gap_zero.

Theorem C09_done_flag_is_the_models : forall e, ev_all_degenerate e = dg_degenerate (e_n e) (e_tab e).
Proof. exact dg_degenerate_env. Qed.
Print Assumptions C09_done_flag_is_the_models.

Theorem C09_zero_gap_independent_of_gap_function :
  forall n t g g' x x',
    (forall S, bounded n S -> lo (get t S) <= hi (get t S)) ->
    known (get t (grand n)) = true -> hi (get t 0%N) == 0 ->
    ev_gap g n t = Some x -> ev_gap g' n t = Some x' -> (x == 0 <-> x' == 0).
Proof. exact dg_zero_gap_independent. Qed.
Print Assumptions C09_zero_gap_independent_of_gap_function.

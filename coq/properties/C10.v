(* C10 - every offered game generator yields a game of its assumed class.
   Statements only; proofs in theories/GeneratorsProofs.v and theories/gen/RegistryProps.v.
   Model: theories/Generators.v (one function per generator family, the random draws are arguments).
   gn_SA n v   := forall A B bounded by n, disjoint -> v A + v B <= v (A u B)
   gn_Mono n v := forall A subset of B (bounded by n), v B <= v A
   gn_SAM0 n v := v 0 == 0 /\ gn_SA n v /\ gn_Mono n v *)
From Coq Require String.
Import String.StringSyntax.
Delimit Scope string_scope with string.
From ICG Require Import Prelude Bits RegistryTypes Generators GeneratorsProofs GeneratorsRegistry.
From ICG Require Import gen.Registry gen.RegistryProps.
Local Open Scope Q_scope.

(* ---- factory: value_fn(sum of weights) for coalitions containing the owner, 0 otherwise.
   Needed: weights >= 0 and value_fn non-decreasing on the non-negatives.  NOT needed (DESIGN 7.C10 listed them):
   owner < n, w owner == 0, 0 <= f 0 - two disjoint coalitions never both contain the owner. *)
Theorem c10_factory_SA : forall n owner w f,
  (forall i, (i < n)%nat -> 0 <= w i) -> (forall x y, 0 <= x -> x <= y -> f x <= f y) ->
  gn_SA n (gn_factory n owner w f) /\ gn_factory n owner w f 0%N = 0.
Proof. intros n owner w f Hw Hf. split; [exact (gn_factory_SA n owner w f Hw Hf)| exact (gn_factory_empty n owner w f)]. Qed.
Print Assumptions c10_factory_SA.

(* the value functions of the registry: lambda x: x, _fac_sq_fn, _fac_one_fn, and the run-time stand-in for math.exp *)
Theorem c10_value_fns_monotone :
  gn_nondecr_nonneg gn_vid /\ gn_nondecr_nonneg gn_vsq /\ gn_nondecr_nonneg gn_vone /\ forall tab, gn_nondecr_nonneg (gn_tabfn tab).
Proof. exact (conj gn_vid_mono (conj gn_vsq_mono (conj gn_vone_mono gn_tabfn_mono))). Qed.
Print Assumptions c10_value_fns_monotone.

(* math.exp: its monotonicity is a hypothesis (trusted base: "math.exp is non-decreasing") *)
Theorem c10_factory_exp_SA : forall (exp : Q -> Q), (forall x y, x <= y -> exp x <= exp y) ->
  forall n owner w, (forall i, (i < n)%nat -> 0 <= w i) -> gn_SA n (gn_factory n owner w exp).
Proof. exact gn_factory_exp_SA. Qed.
Print Assumptions c10_factory_exp_SA.

(* ---- factory with a cheerleader: superadditive for EVERY n, owner, cheerleader (the hypotheses owner <> cheerleader,
   both < n of DESIGN 7.C10 are not needed; no lower bound on n is forced) *)
Theorem c10_cheerleader_SA : forall n owner cheer,
  gn_SA n (gn_cheerleader n owner cheer) /\ gn_cheerleader n owner cheer 0%N = 0.
Proof. intros. split; [apply gn_cheerleader_SA| apply gn_cheerleader_empty]. Qed.
Print Assumptions c10_cheerleader_SA.

(* The scheme of the unrepaired code: the cheerleader reaches Coalition.__contains__ as a numpy.int64.  The faithful
   model of that scheme fails for every n, owner and draw: `factory_cheerleader` never returns a game. *)
Theorem c10_cheerleader_unconverted_refuted :
  exists n owner c, (3 <= n)%nat /\ (owner < n)%nat /\ (c < n)%nat /\ c <> owner /\
                    gn_run (FCheer None None) n (DrCheer owner (NpInt c)) = None.
Proof. exists 3%nat, 0%nat, 1%nat. vm_compute. repeat split; try lia; discriminate. Qed.
Print Assumptions c10_cheerleader_unconverted_refuted.
Theorem c10_cheerleader_unconverted_always_fails : forall fo fc n owner c,
  gn_run (FCheer fo fc) n (DrCheer owner (NpInt c)) = None.
Proof.
  intros. simpl. destruct (_ && _); [|reflexivity]. reflexivity.
Qed.
Print Assumptions c10_cheerleader_unconverted_always_fails.

(* ---- graph games: sum of the weights of the edges inside the coalition *)
Theorem c10_graph_SA : forall n W, (forall i j, 0 <= W i j) -> gn_SA n (gn_graph n W) /\ gn_graph n W 0%N = 0.
Proof. intros n W H. split; [apply gn_graph_SA; exact H| apply gn_graph_empty]. Qed.
Print Assumptions c10_graph_SA.
(* the "polish" (zero the diagonal and the lower triangle) does not change any value *)
Theorem c10_graph_polish : forall n W S, gn_graph n (gn_polish W) S == gn_graph n W S.
Proof. exact gn_graph_polish. Qed.
Print Assumptions c10_graph_polish.

(* ---- additive building block *)
Theorem c10_additive : forall n w A B, disjb A B = true ->
  gn_additive n w (N.lor A B) == gn_additive n w A + gn_additive n w B.
Proof. exact gn_additive_additive. Qed.
Print Assumptions c10_additive.

(* ---- xos: negated maximum of additive games with optional divisions by grand values; a zero divisor (NaN in numpy)
   is None, so "positive grand value when normalising" is the definedness of the run *)
Theorem c10_xos_SAM : forall n ws normalize normalize_additive v,
  (forall w, In w ws -> forall i, (i < n)%nat -> 0 <= w i) ->
  gn_xos n ws normalize normalize_additive = Some v -> gn_SAM0 n v.
Proof. exact gn_xos_SAM. Qed.
Print Assumptions c10_xos_SAM.

(* ---- xs: no hypothesis on the singleton values (`initial=0`) *)
Theorem c10_xs_SAM : forall n s, gn_SAM0 n (gn_xs n s).
Proof. exact gn_xs_SAM. Qed.
Print Assumptions c10_xs_SAM.

(* ---- k-budget: for every k >= 0 (the code draws 1 <= k < n; k = 0 would be the zero game) *)
Theorem c10_kbudget_SAM : forall n k, gn_SAM0 n (gn_kbudget n k).
Proof. exact gn_kbudget_SAM. Qed.
Print Assumptions c10_kbudget_SAM.

(* ---- coverage *)
Theorem c10_coverage_SAM : forall n U, gn_SAM0 n (gn_coverage n U).
Proof. exact gn_coverage_SAM. Qed.
Print Assumptions c10_coverage_SAM.

(* ---- oxs: one min-convolution (what _apply_or leaves in each cell, including the initial zero) preserves the class ... *)
Theorem c10_apply_or_SAM : forall n v1 v2, gn_SAM0 n v1 -> gn_SAM0 n v2 -> gn_SAM0 n (gn_apply_or_cell n v1 v2).
Proof. exact gn_apply_or_cell_SAM0. Qed.
Print Assumptions c10_apply_or_SAM.
(* ... the loop-for-loop model of _apply_or (zeros array, for S, for T disjoint from S, in-place min) computes that in every cell ... *)
Theorem c10_apply_or_loop : forall n t1 t2 U, bounded n U ->
  gn_get (gn_apply_or n t1 t2) U == gn_apply_or_cell n (gn_get t1) (gn_get t2) U.
Proof. exact gn_apply_or_get. Qed.
Print Assumptions c10_apply_or_loop.
(* ... hence the fold `xs_values.pop()` then the rest, with the final normalisation, for every list of XS functions *)
Theorem c10_oxs_SAM : forall n ss normalize t,
  gn_oxs n ss normalize = Some t -> gn_SAM0 n (gn_get t) /\ length t = (2 ^ n)%nat.
Proof. exact gn_oxs_SAM. Qed.
Print Assumptions c10_oxs_SAM.

(* ---- any registry entry, any n, any recorded draws in the checked supports *)
Theorem c10_run_sound : forall f n d t,
  gn_draws_okb d = true -> gn_run f n d = Some t ->
  length t = (2 ^ n)%nat /\ gn_get t 0%N == 0 /\ gn_SA n (gn_get t) /\ (gn_mono_family f = true -> gn_Mono n (gn_get t)).
Proof. exact gn_run_sound. Qed.
Print Assumptions c10_run_sound.

(* ---- the GENERATED registry *)
Theorem c10_registry_generators_classified : Forall (fun kv => gn_family_ok (snd kv)) generators_registry.
Proof. exact registry_generators_classified. Qed.
Print Assumptions c10_registry_generators_classified.

Theorem c10_registry_generators_external :
  map fst (filter (fun kv => gn_is_external (snd kv)) generators_registry) = ["convex"%string].
Proof. exact registry_generators_external. Qed.
Print Assumptions c10_registry_generators_external.

Theorem c10_registry_generators_sound :
  Forall (fun kv => forall n d t, gn_draws_okb d = true -> gn_run (gn_family_of (snd kv)) n d = Some t ->
                                  gn_class_ok (gn_family_of (snd kv)) n t) generators_registry.
Proof. exact registry_generators_sound. Qed.
Print Assumptions c10_registry_generators_sound.

Theorem c10_registry_driver_runs_registry :
  gn_registry_families = map (fun kv => gn_family_of (snd kv)) generators_registry.
Proof. exact registry_generators_families. Qed.
Print Assumptions c10_registry_driver_runs_registry.

(* ---- why registry_generators_classified demands admissible static parameters: with number_of_additive = 0,
   number_of_xs = 0 or universum_mult = 0 the run fails for every n and every draws *)
Theorem c10_inadmissible_static_parameters_never_run : forall a b n d,
  gn_run (FXos 0 a b) n d = None /\ gn_run (FOxs 0 a) n d = None /\ ((1 <= n)%nat -> gn_run (FCoverage 0) n d = None).
Proof. intros. exact (conj (gn_run_xos0 a b n d) (conj (gn_run_oxs0 a n d) (gn_run_coverage0 n d))). Qed.
Print Assumptions c10_inadmissible_static_parameters_never_run.

(* ---- the hypotheses are satisfiable by concrete non-trivial instances; the executable checks agree *)
Example c10_ex_factory_sq :   (* noisy_factory_square, n = 3, owner 1, weights (2.5, *, 4) *)
  gn_run (FFactory VSq true None) 3 (DrFactory 1 [5#2; 7#1; 4#1] []) = Some [0; 0; 0; 25#4; 0; 0; 16#1; 169#4].
Proof. vm_compute. reflexivity. Qed.
Example c10_ex_cheer :        (* factory_cheerleader after the repair, n = 4, owner 0, cheerleader 2 *)
  gn_run (FCheer None None) 4 (DrCheer 0 (PyInt 2)) = Some [0;0;0;1;0;0;0;3;0;1;0;2;0;3;0;6].
Proof. vm_compute. reflexivity. Qed.
Example c10_ex_oxs :          (* two XS functions, n = 3, normalised: grand value -1, strictly monotone *)
  exists t, gn_run (FOxs 2 true) 3 (DrWeights [[1#2; 1#4; 1#8]; [1#3; 1#5; 1#7]]) = Some t
            /\ gn_get t 7%N == -(1) /\ gn_get t 1%N < 0 /\ gn_sa_b 3 t = true /\ gn_mono_b 3 t = true.
Proof. eexists. split; [vm_compute; reflexivity|]. vm_compute. repeat split; intro; discriminate. Qed.
Example c10_ex_xos :          (* xos2_norm_additive on two weight vectors *)
  exists t, gn_run (FXos 2 true true) 3 (DrWeights [[1#2; 1#4; 1#4]; [1#10; 1#5; 7#10]]) = Some t
            /\ gn_get t 7%N == -(1) /\ gn_sa_b 3 t = true /\ gn_mono_b 3 t = true.
Proof. eexists. split; [vm_compute; reflexivity|]. vm_compute. repeat split; intro; discriminate. Qed.
Example c10_ex_xos_nan :      (* all weights zero: the normalisation divides by zero, numpy yields NaN, the model None *)
  gn_run (FXos 1 true false) 3 (DrWeights [[0; 0; 0]]) = None.
Proof. vm_compute. reflexivity. Qed.
Example c10_ex_negative_weight_not_SA :   (* the support hypothesis matters: a negative weight breaks superadditivity *)
  exists t, gn_run (FFactory VId true None) 3 (DrFactory 0 [0; -(1); 0] []) = Some t /\ gn_sa_b 3 t = false.
Proof. eexists. split; vm_compute; reflexivity. Qed.

From ICG Require Import Prelude Generators.
Theorem c10_stub : True. Proof. exact I. Qed.
Print Assumptions c10_stub.

(* C03 - Cached and reference superadditive bound computers are interchangeable.
   Statements only; proofs in theories/SAEquiv.v and theories/StructureProofs.v. *)
From ICG Require Import Prelude Bits Table Bounds FoldLemmas BoundsSpec SASound SAEquiv Structure StructureProofs Checks.
From Coq Require Import ZArith.

(* Whenever both computers are defined on a table whose known rows carry one value (lower == upper),
   they leave extensionally identical tables: every row (flag, lower, upper) is Leibniz-equal. All n. *)
Theorem C03_cached_eq_ref :
  forall n t t1 t2, wfq n t -> compute_sa_ref n t = Some t1 -> compute_sa_cached n t = Some t2 ->
    forall s, get t1 s = get t2 s.
Proof. exact sa_cached_eq_ref. Qed.
Print Assumptions C03_cached_eq_ref.

(* both are defined as soon as the minimal information is known (the reference computer's asserts) *)
Theorem C03_both_defined :
  forall n t, min_known n t = true ->
    exists t1 t2, compute_sa_ref n t = Some t1 /\ compute_sa_cached n t = Some t2.
Proof. exact sa_both_defined. Qed.
Print Assumptions C03_both_defined.

(* the memoised relation matrix: meaning of each code *)
Theorem C03_structure_spec :
  forall c x,
  (st_rel c x = 1%Z <-> x <> 0%N /\ ssub x c = true) /\
  (st_rel c x = 2%Z <-> x <> 0%N /\ ssub c x = true) /\
  (st_rel c x = 0%Z <-> x = c /\ c <> 0%N) /\
  (st_rel c x = (-2)%Z <-> x = 0%N) /\
  (st_rel c x = (-1)%Z <-> x <> 0%N /\ sub x c = false /\ sub c x = false).
Proof. exact st_rel_spec. Qed.
Print Assumptions C03_structure_spec.

(* selecting code 1 / 2 from a row yields exactly the enumerations the bound models use *)
Theorem C03_select_splits : forall n c, st_select n c 1 = splits n c.
Proof. exact st_select_splits. Qed.
Print Assumptions C03_select_splits.
Theorem C03_select_supers : forall n c, c <> 0%N -> st_select n c 2 = supers n c.
Proof. exact st_select_supers. Qed.
Print Assumptions C03_select_supers.

(* the per-n memo never serves the structure of another player count, for any interleaving of calls *)
Theorem C03_cache_returns : forall (calls : list nat) (m : nat), snd (st_call (st_run_cache calls) m) = st_matrix m.
Proof. exact st_call_returns. Qed.
Print Assumptions C03_cache_returns.

Definition ex_v : N -> Q := game_of [0; -1; 2; 3; 1#2; 1; 4; 9].
Definition ex_K : N -> bool := known_in [0; 1; 2; 4; 7; 3]%N.
Definition ex_t : table := table_of 3 ex_K ex_v 77.
Example C03_hypotheses_satisfiable :
  wfq 3 ex_t /\ min_known 3 ex_t = true /\ exists t', compute_sa_ref 3 ex_t = Some t' /\ L t' 5 < U t' 5.
Proof.
  split; [apply (agrees_wfq 3 ex_t ex_K ex_v); apply agrees_check_sound; vm_compute; reflexivity|].
  split; [vm_compute; reflexivity|]. eexists. split; vm_compute; reflexivity.
Qed.

From ICG Require Import Prelude.
Theorem c06_stub : True. Proof. exact I. Qed.
Print Assumptions c06_stub.

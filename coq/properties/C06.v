(* C06 - the Shapley value is the average marginal contribution over all orderings.
   Model: theories/Shapley.v (sh_player / sh_all = the two entry points of shapley.py, loop for loop;
   sh_perms / sh_marg / sh_perm_avg = the textbook definition).  Proofs: theories/ShapleyProofs.v,
   ShapleyPermProofs.v (counting, relabelling, all n), ShapleyCarrierProofs.v (null player out, carrier games, all n). *)
From ICG Require Import Prelude Bits Shapley ShapleyProofs ShapleyPermProofs ShapleyCarrierProofs.
From Coq Require Import Permutation.
Local Open Scope Q_scope.

(* the orderings: sh_perms n enumerates exactly the permutations of the players, each once; there are n! *)
Theorem perms_enumerate_orderings n p : In p (sh_perms n) <-> Permutation (seq 0 n) p.
Proof. exact (sh_perms_spec n p). Qed.
Print Assumptions perms_enumerate_orderings.

Theorem perms_no_duplicates n : NoDup (sh_perms n).
Proof. exact (sh_perms_NoDup n). Qed.
Print Assumptions perms_no_duplicates.

Theorem perms_count n : Z.of_nat (length (sh_perms n)) = sh_fact n.
Proof. exact (sh_perms_length n). Qed.
Print Assumptions perms_count.

(* MAIN, for ALL n, every player, EVERY real-valued game: the value the code computes is the average marginal
   contribution over all n! orderings.  (Counting argument: the orderings in which the predecessors of i are
   exactly S are the concatenations of an ordering of S, i, and an ordering of the rest: |S|!(n-|S|-1)! of them,
   theorem orderings_with_given_predecessors below.)  DESIGN 7 C06 promised this only for n <= 7. *)
Theorem shapley_is_perm_avg n i g : (i < n)%nat -> sh_player n i g == sh_perm_avg n i g.
Proof. exact (sh_is_perm_avg_all n i g). Qed.
Print Assumptions shapley_is_perm_avg.

Theorem orderings_with_given_predecessors n i S : (i < n)%nat -> bounded n S -> tb S i = false ->
  Z.of_nat (length (filter (fun p => N.eqb (sh_pred p i) S) (sh_perms n))) = sh_contrib n (size n S).
Proof. exact (sh_count_with_pred n i S). Qed.
Print Assumptions orderings_with_given_predecessors.

(* second, independent proof of the same statement for each player count 1..7, as planned in DESIGN 7 C06:
   reflection on linear forms (coefficient vectors of n!*Shapley vs the sum over all n! orderings, vm_compute) *)
Theorem shapley_is_perm_avg_by_reflection n i g :
  (1 <= n <= 7)%nat -> (i < n)%nat -> sh_player n i g == sh_perm_avg n i g.
Proof. exact (sh_is_perm_avg n i g). Qed.
Print Assumptions shapley_is_perm_avg_by_reflection.

(* the reflection principle used above, valid for all n *)
Theorem eval_ext n l1 l2 : sh_lf_eqb n l1 l2 = true -> forall g, sh_eval g l1 == sh_eval g l2.
Proof. exact (sh_eval_ext n l1 l2). Qed.
Print Assumptions eval_ext.

(* efficiency: ALL n, all games (the sum-exchange lemma shared with C05); no hypothesis on n or on g 0 *)
Theorem shapley_efficiency n g : qsum (map (fun i => sh_player n i g) (seq 0 n)) == g (grand n) - g 0%N.
Proof. exact (sh_efficiency n g). Qed.
Print Assumptions shapley_efficiency.

(* null player: ALL n *)
Theorem shapley_null n i g :
  (forall S, bounded n S -> tb S i = false -> g (N.lor S (single i)) == g S) -> sh_player n i g == 0.
Proof. exact (sh_null n i g). Qed.
Print Assumptions shapley_null.

(* linearity: ALL n *)
Theorem shapley_linear n i a b g h :
  sh_player n i (fun S => a * g S + b * h S) == a * sh_player n i g + b * sh_player n i h.
Proof. exact (sh_linear n i a b g h). Qed.
Print Assumptions shapley_linear.

(* the all-players entry point returns, at position i, exactly (Leibniz) what the single-player one returns: ALL n *)
Theorem shapley_entry_points_agree n i g d : (i < n)%nat -> nth i (sh_all n g) d = sh_player n i g.
Proof. exact (sh_entry_points_agree n i g d). Qed.
Print Assumptions shapley_entry_points_agree.

Theorem shapley_all_length n g : length (sh_all n g) = n.
Proof. exact (sh_all_length n g). Qed.
Print Assumptions shapley_all_length.

(* relabelling, for ALL n and EVERY permutation pi of the players 0..n-1 (given as a function; the hypothesis says
   that pi permutes them): the relabelled game g o pi^-1 gives player pi(i) what g gives player i *)
Theorem shapley_relabel n pi i g :
  Permutation (seq 0 n) (map pi (seq 0 n)) -> (i < n)%nat ->
  sh_player n (pi i) (sh_relabel_by n pi g) == sh_player n i g.
Proof. intros H. exact (sh_relabel_all n pi H i g). Qed.
Print Assumptions shapley_relabel.

(* meaning of sh_relabel_by: the coalition pi(S) = { pi j | j in S } gets the value g S *)
Theorem relabel_by_value n pi g S :
  Permutation (seq 0 n) (map pi (seq 0 n)) -> bounded n S ->
  sh_relabel_by n pi g (sh_mask (map pi (players n S))) = g S.
Proof. intros H. exact (sh_relabel_by_image n pi H g S). Qed.
Print Assumptions relabel_by_value.

(* second, independent proof as planned in DESIGN 7 C06 (reflection, each n in 2..7): swapping two neighbouring
   players j, j+1 (sh_swapp on players, sh_swapm = image of a coalition), closed under composition *)
Theorem shapley_relabel_adjacent_by_reflection n j i g :
  (2 <= n <= 7)%nat -> (S j < n)%nat -> (i < n)%nat ->
  sh_player n (sh_swapp j (S j) i) (fun s => g (sh_swapm j (S j) s)) == sh_player n i g.
Proof. exact (sh_relabel_adjacent n j i g). Qed.
Print Assumptions shapley_relabel_adjacent_by_reflection.

Theorem shapley_relabel_products_by_reflection n js i g :
  (2 <= n <= 7)%nat -> Forall (fun j => (S j < n)%nat) js -> (i < n)%nat ->
  sh_player n (sh_actp js i) (sh_relabel js g) == sh_player n i g.
Proof. exact (sh_relabel_products n js i g). Qed.
Print Assumptions shapley_relabel_products_by_reflection.

Theorem relabel_membership js s i : tb (sh_actm js s) (sh_actp js i) = tb s i.
Proof. exact (sh_actm_mem js s i). Qed.
Print Assumptions relabel_membership.
Theorem relabel_value js g s : sh_relabel js g (sh_actm js s) = g s.
Proof. exact (sh_relabel_actm js g s). Qed.
Print Assumptions relabel_value.

(* ---------- null player out / carrier, ALL n (theories/ShapleyCarrierProofs.v) ---------- *)
(* deleting a null LAST player: if player n of the (n+1)-player game g is null (g (T + n) == g T for every T within
   0..n-1), every other player keeps its value in the n-player game (the same function on the ids below 2^n) *)
Theorem C06_null_player_out n i g : (i < n)%nat ->
  (forall T, bounded n T -> g (N.lor T (single n)) == g T) ->
  sh_player (S n) i g == sh_player n i g.
Proof. exact (sh_null_last_out n i g). Qed.
Print Assumptions C06_null_player_out.

(* carrier = the first k players: if the players k..n-1 are all null, the players below k get what they get in the
   k-player game (same function, ids below 2^k) and the players k..n-1 get 0 *)
Theorem C06_carrier n k g : (k <= n)%nat ->
  (forall j, (k <= j < n)%nat -> forall T, bounded n T -> g (N.lor T (single j)) == g T) ->
  (forall i, (i < k)%nat -> sh_player n i g == sh_player k i g) /\
  (forall i, (k <= i < n)%nat -> sh_player n i g == 0).
Proof. exact (sh_carrier_prefix n k g). Qed.
Print Assumptions C06_carrier.

(* ... so the value of a carrier player is the average marginal contribution over the k! orderings of the carrier *)
Theorem C06_carrier_perm_avg n k g : (k <= n)%nat ->
  (forall j, (k <= j < n)%nat -> forall T, bounded n T -> g (N.lor T (single j)) == g T) ->
  forall i, (i < k)%nat -> sh_player n i g == sh_perm_avg k i g.
Proof. exact (sh_carrier_perm_avg n k g). Qed.
Print Assumptions C06_carrier_perm_avg.

(* the whole value vector: the k-player one followed by n-k zeros (entrywise ==) *)
Theorem C06_carrier_all n k g : (k <= n)%nat ->
  (forall j, (k <= j < n)%nat -> forall T, bounded n T -> g (N.lor T (single j)) == g T) ->
  Forall2 Qeq (sh_all n g) (sh_all k g ++ repeat 0 (n - k)).
Proof. exact (sh_carrier_all n k g). Qed.
Print Assumptions C06_carrier_all.

(* ARBITRARY carrier C = { pi 0, ..., pi (k-1) } (pi any permutation of the players; the players pi k .. pi (n-1) are
   null): carrier player pi i gets the average, over the k! orderings of the k carrier positions, of its marginal
   contribution in the carrier sub-game  S |-> v (pi S)  (sh_push n pi S = { pi j | j in S }), the others get 0.
   This is the oracle harness/props/c06.py applies to its carrier games at n = 9..20 (pi j = C[j] for j < k). *)
Theorem C06_carrier_general n pi k v : Permutation (seq 0 n) (map pi (seq 0 n)) -> (k <= n)%nat ->
  (forall j, (k <= j < n)%nat -> forall T, bounded n T -> v (N.lor T (single (pi j))) == v T) ->
  (forall i, (i < k)%nat -> sh_player n (pi i) v == sh_perm_avg k i (fun S => v (sh_push n pi S))) /\
  (forall i, (k <= i < n)%nat -> sh_player n (pi i) v == 0).
Proof. intros H. exact (sh_carrier_general n pi H k v). Qed.
Print Assumptions C06_carrier_general.

(* meaning of sh_push: membership in pi(S) *)
Theorem push_membership n pi S x : Permutation (seq 0 n) (map pi (seq 0 n)) ->
  tb (sh_push n pi S) x = true <-> exists j, (j < n)%nat /\ tb S j = true /\ pi j = x.
Proof. intros _. exact (sh_tb_push n pi S x). Qed.
Print Assumptions push_membership.

(* ---------- concrete, non-trivial instances ---------- *)
(* an asymmetric 3-player game: ids 0..7 = {},{0},{1},{0,1},{2},{0,2},{1,2},{0,1,2} *)
Definition c06_g3 : N -> Q := sh_game_of_list [0; 1; 2; 4; 3; 5; 7; 12].

Example c06_values : map Qred (sh_all 3 c06_g3) = [8 # 3; 25 # 6; 31 # 6].
Proof. vm_compute. reflexivity. Qed.
Example c06_perm_avg_instance :
  (1 < 3)%nat /\ Qred (sh_perm_avg 3 1 c06_g3) = 25 # 6 /\ Qred (sh_player 3 1 c06_g3) = 25 # 6.
Proof. repeat split; try lia; vm_compute; reflexivity. Qed.
Example c06_efficiency_instance : qsum (map (fun i => sh_player 3 i c06_g3) (seq 0 3)) == 12.
Proof. rewrite shapley_efficiency. vm_compute. reflexivity. Qed.

(* player 2 is a null player of this game, the others are not symmetric *)
Definition c06_gnull : N -> Q := sh_game_of_list [0; 1; 2; 5; 0; 1; 2; 5].
Example c06_null_hypothesis :
  forall S, bounded 3 S -> tb S 2 = false -> c06_gnull (N.lor S (single 2)) == c06_gnull S.
Proof.
  intros S HS _. apply in_alln in HS. vm_compute in HS.
  repeat (destruct HS as [<-|HS]; [vm_compute; reflexivity|]). destruct HS.
Qed.
Example c06_null_instance : sh_player 3 2 c06_gnull == 0 /\ Qred (sh_player 3 0 c06_gnull) = 2 # 1.
Proof. split; [apply shapley_null, c06_null_hypothesis| vm_compute; reflexivity]. Qed.

Example c06_entry_points_instance : (1 < 3)%nat /\ nth 1 (sh_all 3 c06_g3) 0 = sh_player 3 1 c06_g3.
Proof. split; [lia| apply shapley_entry_points_agree; lia]. Qed.

(* relabelling by the 3-cycle (0 1) o (1 2): 0 -> 1, 1 -> 2, 2 -> 0 *)
Example c06_relabel_instance :
  (2 <= 3 <= 7)%nat /\ Forall (fun j => (S j < 3)%nat) [0; 1]%nat /\
  map (sh_actp [0; 1]%nat) [0; 1; 2]%nat = [1; 2; 0]%nat /\
  map (fun i => Qred (sh_player 3 i (sh_relabel [0; 1]%nat c06_g3))) [1; 2; 0]%nat = [8 # 3; 25 # 6; 31 # 6].
Proof. repeat split; try lia; try (repeat constructor; lia); vm_compute; reflexivity. Qed.

(* the same 3-cycle as a function on players *)
Definition c06_pi (i : nat) : nat := match i with 0 => 1 | 1 => 2 | _ => 0 end%nat.
Example c06_relabel_by_instance :
  Permutation (seq 0 3) (map c06_pi (seq 0 3)) /\
  map (fun i => Qred (sh_player 3 (c06_pi i) (sh_relabel_by 3 c06_pi c06_g3))) [0; 1; 2]%nat = [8 # 3; 25 # 6; 31 # 6] /\
  map (fun i => Qred (sh_player 3 i (sh_relabel_by 3 c06_pi c06_g3))) [0; 1; 2]%nat = [31 # 6; 8 # 3; 25 # 6].
Proof.
  split; [|split; vm_compute; reflexivity].
  change (Permutation [0; 1; 2]%nat [1; 2; 0]%nat).
  apply (Permutation_cons_app [1; 2]%nat []). apply Permutation_refl.
Qed.

Example c06_perms_3 : sh_perms 3 = [[0; 1; 2]; [1; 0; 2]; [1; 2; 0]; [0; 2; 1]; [2; 0; 1]; [2; 1; 0]]%nat.
Proof. vm_compute. reflexivity. Qed.

(* ---------- carrier games ---------- *)
(* a 5-player game carried by the players 0,1,2: the value of a coalition is the value, in the asymmetric 3-player game
   c06_g3, of its low three bits; players 3 and 4 are null *)
Definition c06_g5 : N -> Q := fun T => c06_g3 (N.land T 7).
Example c06_carrier_hypothesis :
  forall j, (3 <= j < 5)%nat -> forall T, bounded 5 T -> c06_g5 (N.lor T (single j)) == c06_g5 T.
Proof.
  intros j Hj T _. unfold c06_g5.
  replace (N.land (N.lor T (single j)) 7) with (N.land T 7); [reflexivity|].
  apply bits_inj_nat. intro i. change 7%N with (grand 3). rewrite !tb_land, tb_lor, tb_single, tb_grand.
  destruct (Nat.ltb_spec i 3) as [Hi|Hi]; [|rewrite !andb_false_r; reflexivity].
  replace (Nat.eqb j i) with false by (symmetry; apply Nat.eqb_neq; lia). rewrite orb_false_r. reflexivity.
Qed.
Example c06_null_out_instance :
  (1 < 4)%nat /\ (forall T, bounded 4 T -> c06_g5 (N.lor T (single 4)) == c06_g5 T) /\
  Qred (sh_player 5 1 c06_g5) = 25 # 6 /\ Qred (sh_player 4 1 c06_g5) = 25 # 6.
Proof.
  split; [lia|]. split; [|split; vm_compute; reflexivity].
  intros T HT. apply c06_carrier_hypothesis; [lia|]. intros i Hi. apply HT. lia.
Qed.
Example c06_carrier_instance :
  (3 <= 5)%nat /\
  map Qred (sh_all 5 c06_g5) = [8 # 3; 25 # 6; 31 # 6; 0; 0] /\
  map Qred (sh_all 3 c06_g5) = [8 # 3; 25 # 6; 31 # 6] /\
  map (fun i => Qred (sh_perm_avg 3 i c06_g5)) [0; 1; 2]%nat = [8 # 3; 25 # 6; 31 # 6].
Proof. split; [lia|]. repeat split; vm_compute; reflexivity. Qed.
Example c06_carrier_all_instance : Forall2 Qeq (sh_all 5 c06_g5) (sh_all 3 c06_g5 ++ repeat 0 (5 - 3)).
Proof. apply C06_carrier_all; [lia| exact c06_carrier_hypothesis]. Qed.

(* a 5-player game carried by the players 1,3,4 (not a prefix): position 0,1,2 of c06_g3 = player 1,3,4;
   players 0 and 2 are null *)
Definition c06_pi5 (i : nat) : nat := match i with 0 => 1 | 1 => 3 | 2 => 4 | 3 => 0 | _ => 2 end%nat.
Definition c06_v5 : N -> Q := fun T => c06_g3 (N.land (sh_pull 5 c06_pi5 T) 7).
Example c06_carrier_general_hypotheses :
  Permutation (seq 0 5) (map c06_pi5 (seq 0 5)) /\ (3 <= 5)%nat /\
  (forall j, (3 <= j < 5)%nat -> forall T, bounded 5 T -> c06_v5 (N.lor T (single (c06_pi5 j))) == c06_v5 T).
Proof.
  split; [|split; [lia|]].
  - change (Permutation [0; 1; 2; 3; 4]%nat [1; 3; 4; 0; 2]%nat).
    apply (Permutation_cons_app [1; 3; 4]%nat [2]%nat).
    apply (Permutation_cons_app []%nat [3; 4; 2]%nat).
    apply (Permutation_cons_app [3; 4]%nat []%nat). apply Permutation_refl.
  - intros j Hj T HT. apply in_alln in HT.
    assert (Ej : j = 3%nat \/ j = 4%nat) by lia.
    vm_compute in HT.
    destruct Ej as [-> | ->];
      repeat (destruct HT as [<-|HT]; [vm_compute; reflexivity|]); destruct HT.
Qed.
Example c06_carrier_general_instance :
  map Qred (sh_all 5 c06_v5) = [0; 8 # 3; 0; 25 # 6; 31 # 6] /\
  map (fun i => Qred (sh_perm_avg 3 i (fun S => c06_v5 (sh_push 5 c06_pi5 S)))) [0; 1; 2]%nat = [8 # 3; 25 # 6; 31 # 6] /\
  map c06_pi5 [0; 1; 2; 3; 4]%nat = [1; 3; 4; 0; 2]%nat.
Proof. repeat split; vm_compute; reflexivity. Qed.

(* C08 - Bounds depend only on current knowledge: idempotent, order-free, undoable.
   Statements only; proofs in theories/SAKnowledge.v (superadditive computers) and theories/SAMKnowledge.v
   (SAM approximations, every repetition count).  [computer] = CRef | CCached | CSam r covers the whole BOUNDS registry
   (RegistryProps, generated from /repo, maps every registered name to one of these). *)
From ICG Require Import Prelude Bits Table Bounds GameOps FoldLemmas BoundsSpec SASound SAEquiv SAKnowledge SAMKnowledge Checks.
From ICG Require Import SATight SAMSpec PinnedProofs.
From ICG Require Import RegistryTypes gen.Registry gen.RegistryLinkProps.

(* Two tables with the same known rows - unknown rows hold arbitrary stale numbers - give the same result
   (both raise, or both succeed with identical rows for every coalition of the n-player game). Any game class, any computer. *)
Theorem C08_function_of_knowledge :
  forall (c : computer) n t1 t2, same_known_part n t1 t2 -> oteqn n (compute c n t1) (compute c n t2).
Proof. exact compute_function_of_knowledge. Qed.
Print Assumptions C08_function_of_knowledge.

Theorem C08_idempotent :
  forall (c : computer) n t t', compute c n t = Some t' -> oteqn n (compute c n t') (Some t').
Proof. exact compute_idempotent. Qed.
Print Assumptions C08_idempotent.

(* reveal + recompute + un-reveal + recompute restores a fresh state exactly (hence gap, reward, observation) *)
Theorem C08_reveal_unreveal_undo :
  forall (c : computer) n t s x t1,
    fresh c n t -> bounded n s -> Kn t s = false ->
    compute c n (set_value t s x) = Some t1 ->
    oteqn n (compute c n (unset_value t1 s)) (Some t).
Proof. exact reveal_unreveal_undo. Qed.
Print Assumptions C08_reveal_unreveal_undo.

(* any two operation histories on a fresh game object that end in the same knowledge give the same bounds *)
Theorem C08_histories_confluent :
  forall (c : computer) n ops1 ops2,
    same_known_part n (run n ops1 init_table) (run n ops2 init_table) ->
    oteqn n (compute c n (run n ops1 init_table)) (compute c n (run n ops2 init_table)).
Proof. exact histories_confluent. Qed.
Print Assumptions C08_histories_confluent.

(* freshness is what every computed state has *)
Theorem C08_computed_is_fresh :
  forall (c : computer) n t t', compute c n t = Some t' -> fresh c n t'.
Proof. exact computed_is_fresh. Qed.
Print Assumptions C08_computed_is_fresh.

(* "every registered bound computer": the BOUNDS registry of /repo, regenerated into Coq on every run; each key
   denotes one [computer], so the theorems above (stated for all computers) cover it *)
Theorem C08_registry_all_modelled :
  Forall (fun kv => exists c : computer, rl_computer (snd kv) = Some c) bounds_registry.
Proof. exact registry_bounds_modelled. Qed.
Print Assumptions C08_registry_all_modelled.

Definition ex_v : N -> Q := game_of [0; -1; 2; 3; 1#2; 1; 4; 9].
Definition ex_K : N -> bool := known_in [0; 1; 2; 4; 7; 3]%N.
Example C08_hypotheses_satisfiable :
  same_known_part 3 (table_of 3 ex_K ex_v 77) (table_of 3 ex_K ex_v (-5))
  /\ (exists t', compute (CSam 2) 3 (table_of 3 ex_K ex_v 77) = Some t' /\ fresh (CSam 2) 3 t' /\ Kn t' 5 = false).
Proof.
  split.
  - intros s Hb. apply in_alln in Hb. revert s Hb. apply Forall_forall. vm_compute.
    repeat (apply Forall_cons; [split; [reflexivity| intro; try reflexivity; try discriminate]|]). apply Forall_nil.
  - eexists. split; [vm_compute; reflexivity|]. split; [|vm_compute; reflexivity].
    unfold fresh. match goal with |- oteqn _ ?x _ => let y := eval vm_compute in x in change x with y end.
    intros s Hb. apply in_alln in Hb. revert s Hb. apply Forall_forall. vm_compute.
    repeat (apply Forall_cons; [reflexivity|]). apply Forall_nil.
Qed.

(* ------------------------------------------------------------------ *)
(* Revealing a pinned-down coalition (theories/PinnedProofs.v)          *)
(* ------------------------------------------------------------------ *)
(* An unknown coalition S is pinned down when its computed bounds coincide (by soundness both are then v S).
   Superadditive computers: the bounds recomputed after revealing S with its true value are the bounds before the
   reveal on EVERY coalition; only the known flag of S changes.  So an environment step may skip the recomputation
   for a pinned-down S - for CRef / CCached. *)
Theorem C08_reveal_pinned_is_noop_SA :
  forall (c : computer) n K v t r S,
    (c = CRef \/ c = CCached) -> SA n v -> v 0%N == 0 -> MinK n K -> agrees n t K v ->
    bounded n S -> K S = false ->
    compute c n t = Some r -> L r S == U r S ->
    reveal t S (v S) = (set_value t S (v S), Ok)
    /\ exists r', compute c n (set_value t S (v S)) = Some r'
         /\ (forall X, bounded n X -> L r' X == L r X /\ U r' X == U r X)
         /\ (forall X, bounded n X -> Kn r' X = if (X =? S)%N then true else Kn r X)
         /\ L r S == v S.
Proof. exact pn_reveal_pinned_noop_tables. Qed.
Print Assumptions C08_reveal_pinned_is_noop_SA.

(* the same at the level of the bound equations: (l, u) solves them for knowledge K, (l', u') for K + {S}
   (pn_add K S X = (X =? S) || K X) *)
Theorem C08_reveal_pinned_is_noop_SA_equations :
  forall n K v l u l' u' S,
    SA n v -> v 0%N == 0 -> MinK n K -> bounded n S -> K S = false ->
    sa_sol n K v l u -> sa_sol n (pn_add K S) v l' u' -> l S == u S ->
    forall X, bounded n X -> l' X == l X /\ u' X == u X.
Proof. exact pn_reveal_pinned_noop. Qed.
Print Assumptions C08_reveal_pinned_is_noop_SA_equations.

(* Monotone approximations: FALSE.  Witness (CSam 1, budget game v T = - min (3, |T|) on 5 players, known: minimal
   information + {1,4} + {0,1,3}): S = {0,3} is pinned down at -2, yet revealing it moves the upper bound of
   X = {0,2,3} from -1 to -2, because sam_upper_cell also takes the minimum over the KNOWN sub-coalitions. *)
Theorem C08_reveal_pinned_SAM_refuted :
  exists (r : nat) (n : nat) (v : N -> Q) (K : N -> bool) (t a b : table) (S X : N),
    SA n v /\ Mono n v /\ v 0%N == 0 /\ MinK n K /\ agrees n t K v /\
    bounded n S /\ K S = false /\ bounded n X /\
    compute (CSam r) n t = Some a /\ L a S == U a S /\ L a S == v S /\
    reveal t S (v S) = (set_value t S (v S), Ok) /\
    compute (CSam r) n (set_value t S (v S)) = Some b /\
    ~ U b X == U a X.
Proof. exact pn_sam_reveal_pinned_refuted. Qed.
Print Assumptions C08_reveal_pinned_SAM_refuted.

(* non-vacuity: a 4-player superadditive (not additive) game; known: minimal information + {0,1};
   S = {0,1,2} (id 7) is unknown and pinned down at 6 = v{0,1} + v{2} = v(N) - v{3}; other coalitions (e.g. id 13: [4, 6])
   keep a proper interval; for both computers the bounds before and after the reveal are the same rationals *)
Definition ex_pin_v : N -> Q := game_of [0; 1; 2; 5; 1; 2; 3; 6; 2; 3; 4; 7; 3; 4; 5; 8].
Definition ex_pin_K : N -> bool := known_in [0; 1; 2; 4; 8; 15; 3]%N.
Definition ex_pin_t : table := table_of 4 ex_pin_K ex_pin_v 77.
Definition ex_pin_bounds (t : table) : list (Q * Q) := map (fun s => (Qred (L t s), Qred (U t s))) (alln 4).
Example C08_reveal_pinned_example :
  SA 4 ex_pin_v /\ ex_pin_v 0%N == 0 /\ MinK 4 ex_pin_K /\ agrees 4 ex_pin_t ex_pin_K ex_pin_v
  /\ bounded 4 7 /\ ex_pin_K 7%N = false
  /\ forall c, c = CRef \/ c = CCached ->
       exists r r', compute c 4 ex_pin_t = Some r /\ L r 7 == U r 7 /\ L r 13 < U r 13
         /\ compute c 4 (fst (reveal ex_pin_t 7 (ex_pin_v 7))) = Some r'
         /\ ex_pin_bounds r' = ex_pin_bounds r /\ Kn r 7 = false /\ Kn r' 7 = true.
Proof.
  split; [apply sa_check_sound; vm_compute; reflexivity|]. split; [reflexivity|].
  split; [apply mink_check_sound; vm_compute; reflexivity|].
  split; [apply agrees_check_sound; vm_compute; reflexivity|].
  split; [apply in_alln; vm_compute; tauto|]. split; [reflexivity|].
  intros c [->| ->]; eexists; eexists; (split; [vm_compute; reflexivity|]);
    (split; [vm_compute; reflexivity|]); (split; [vm_compute; reflexivity|]); (split; [vm_compute; reflexivity|]);
    (split; [vm_compute; reflexivity|]); split; vm_compute; reflexivity.
Qed.

(* C08 - Bounds depend only on current knowledge: idempotent, order-free, undoable.
   Statements only; proofs in theories/SAKnowledge.v (superadditive computers) and theories/SAMKnowledge.v
   (SAM approximations, every repetition count).  [computer] = CRef | CCached | CSam r covers the whole BOUNDS registry
   (RegistryProps, generated from /repo, maps every registered name to one of these). *)
From ICG Require Import Prelude Bits Table Bounds GameOps FoldLemmas BoundsSpec SASound SAEquiv SAKnowledge SAMKnowledge Checks.
From ICG Require Import RegistryTypes gen.Registry gen.RegistryLinkProps.

(* Two tables with the same known rows - unknown rows hold arbitrary stale numbers - give the same result
   (both raise, or both succeed with identical rows for every coalition of the n-player game). Any game class, any computer. *)
Theorem C08_function_of_knowledge :
  forall (c : computer) n t1 t2, same_known_part n t1 t2 -> oteqn n (compute c n t1) (compute c n t2).
Proof. exact compute_function_of_knowledge. Qed.
Print Assumptions C08_function_of_knowledge.

Theorem C08_idempotent :
  forall (c : computer) n t t', compute c n t = Some t' -> oteqn n (compute c n t') (Some t').
Proof. exact compute_idempotent. Qed.
Print Assumptions C08_idempotent.

(* reveal + recompute + un-reveal + recompute restores a fresh state exactly (hence gap, reward, observation) *)
Theorem C08_reveal_unreveal_undo :
  forall (c : computer) n t s x t1,
    fresh c n t -> bounded n s -> Kn t s = false ->
    compute c n (set_value t s x) = Some t1 ->
    oteqn n (compute c n (unset_value t1 s)) (Some t).
Proof. exact reveal_unreveal_undo. Qed.
Print Assumptions C08_reveal_unreveal_undo.

(* any two operation histories on a fresh game object that end in the same knowledge give the same bounds *)
Theorem C08_histories_confluent :
  forall (c : computer) n ops1 ops2,
    same_known_part n (run n ops1 init_table) (run n ops2 init_table) ->
    oteqn n (compute c n (run n ops1 init_table)) (compute c n (run n ops2 init_table)).
Proof. exact histories_confluent. Qed.
Print Assumptions C08_histories_confluent.

(* freshness is what every computed state has *)
Theorem C08_computed_is_fresh :
  forall (c : computer) n t t', compute c n t = Some t' -> fresh c n t'.
Proof. exact computed_is_fresh. Qed.
Print Assumptions C08_computed_is_fresh.

(* "every registered bound computer": the BOUNDS registry of /repo, regenerated into Coq on every run; each key
   denotes one [computer], so the theorems above (stated for all computers) cover it *)
Theorem C08_registry_all_modelled :
  Forall (fun kv => exists c : computer, rl_computer (snd kv) = Some c) bounds_registry.
Proof. exact registry_bounds_modelled. Qed.
Print Assumptions C08_registry_all_modelled.

Definition ex_v : N -> Q := game_of [0; -1; 2; 3; 1#2; 1; 4; 9].
Definition ex_K : N -> bool := known_in [0; 1; 2; 4; 7; 3]%N.
Example C08_hypotheses_satisfiable :
  same_known_part 3 (table_of 3 ex_K ex_v 77) (table_of 3 ex_K ex_v (-5))
  /\ (exists t', compute (CSam 2) 3 (table_of 3 ex_K ex_v 77) = Some t' /\ fresh (CSam 2) 3 t' /\ Kn t' 5 = false).
Proof.
  split.
  - intros s Hb. apply in_alln in Hb. revert s Hb. apply Forall_forall. vm_compute.
    repeat (apply Forall_cons; [split; [reflexivity| intro; try reflexivity; try discriminate]|]). apply Forall_nil.
  - eexists. split; [vm_compute; reflexivity|]. split; [|vm_compute; reflexivity].
    unfold fresh. match goal with |- oteqn _ ?x _ => let y := eval vm_compute in x in change x with y end.
    intros s Hb. apply in_alln in Hb. revert s Hb. apply Forall_forall. vm_compute.
    repeat (apply Forall_cons; [reflexivity|]). apply Forall_nil.
Qed.

(* C07 - More information never hurts: intervals shrink, every gap is non-increasing.
   Statements only; proofs in theories/SATight.v (knowledge monotonicity) and theories/NormsProofs.v (gap functions). *)
From ICG Require Import Prelude Bits Table Bounds FoldLemmas BoundsSpec SASound SAEquiv SATight Checks Shapley Exploit Norms NormsProofs SAMSpec SAMMono GapsAlongReveals.
From ICG Require Import RegistryTypes gen.Registry gen.RegistryLinkProps Env.
From ICG Require Import ShiftProofs GapCompare ExploitProofs ShapleyProofs.

(* K <= K' pointwise: both superadditive computers give pointwise tighter intervals under K'.
   Holds for any pair of tables holding the two knowledge sets (stale rows arbitrary), hence along any reveal sequence. *)
Theorem C07_sa_monotone_in_knowledge :
  forall (c : computer) n v K K' t t' r r',
    (c = CRef \/ c = CCached) -> SA n v -> MinK n K -> (forall s, K s = true -> K' s = true) ->
    agrees n t K v -> agrees n t' K' v -> compute c n t = Some r -> compute c n t' = Some r' ->
    forall s, bounded n s -> L r s <= L r' s /\ U r' s <= U r s.
Proof. exact sa_monotone_in_knowledge. Qed.
Print Assumptions C07_sa_monotone_in_knowledge.

(* Consequently each offered gap function - l1, l-infinity, squared l2 (the l2 norm is its square root, monotone) and
   exploitability - of the recomputed bounds is non-increasing when knowledge grows, and never negative.
   width t S = upper - lower;  gaps_le n r' r : all four gaps of r' are <= those of r. *)
Theorem C07_sa_gaps_along_reveals :
  forall (c : computer) n v K K' t t' r r',
    (c = CRef \/ c = CCached) -> SA n v -> v 0%N == 0 -> MinK n K -> (forall s, K s = true -> K' s = true) ->
    agrees n t K v -> agrees n t' K' v -> compute c n t = Some r -> compute c n t' = Some r' ->
    gaps_le n r' r /\ gaps_nonneg n r' /\ gaps_nonneg n r.
Proof. exact sa_gaps_along_reveals. Qed.
Print Assumptions C07_sa_gaps_along_reveals.

(* ... and zero once every value is revealed *)
Theorem C07_sa_gaps_zero_when_full :
  forall (c : computer) n v K t r,
    (c = CRef \/ c = CCached) -> SA n v -> v 0%N == 0 -> MinK n K -> (forall s, bounded n s -> K s = true) ->
    agrees n t K v -> compute c n t = Some r -> gaps_zero n r.
Proof. exact sa_gaps_zero_when_full. Qed.
Print Assumptions C07_sa_gaps_zero_when_full.

(* the same for the approximate superadditive-monotone computer, for EVERY repetition count r *)
Theorem C07_sam_monotone_in_knowledge :
  forall n r v K K' t t' a b,
    SA n v -> Mono n v -> v 0%N == 0 -> MinK n K -> (forall s, K s = true -> K' s = true) ->
    agrees n t K v -> agrees n t' K' v -> compute_sam n r t = Some a -> compute_sam n r t' = Some b ->
    forall s, bounded n s -> L a s <= L b s /\ U b s <= U a s.
Proof. exact sam_monotone_in_knowledge. Qed.
Print Assumptions C07_sam_monotone_in_knowledge.

Theorem C07_sam_gaps_along_reveals :
  forall n r v K K' t t' a b,
    SA n v -> Mono n v -> v 0%N == 0 -> MinK n K -> (forall s, K s = true -> K' s = true) ->
    agrees n t K v -> agrees n t' K' v -> compute_sam n r t = Some a -> compute_sam n r t' = Some b ->
    gaps_le n b a /\ gaps_nonneg n b /\ gaps_nonneg n a.
Proof. exact sam_gaps_along_reveals. Qed.
Print Assumptions C07_sam_gaps_along_reveals.

(* the gap functions themselves: monotone in the vector of interval widths, non-negative, zero on zero widths *)
Theorem C07_gaps_monotone :
  forall n w w', (forall S, bounded n S -> 0 <= w' S /\ w' S <= w S) ->
    nm_l1 n w' <= nm_l1 n w /\ nm_linf n w' <= nm_linf n w /\ nm_l2sq n w' <= nm_l2sq n w /\ ex_wgap n w' <= ex_wgap n w.
Proof. exact gaps_monotone. Qed.
Print Assumptions C07_gaps_monotone.

(* for the SAM approximations: any sound table (C04) has non-negative gaps *)
Theorem C07_sound_table_gaps_nonneg :
  forall n K v t t', v 0%N == 0 -> K 0%N = true -> (forall s, bounded n s -> sound_at n K v t t' s) -> gaps_nonneg n t'.
Proof. exact sound_table_gaps_nonneg. Qed.
Print Assumptions C07_sound_table_gaps_nonneg.

(* the four registered gap functions of /repo (regenerated on every run) are the four modelled ones *)
Theorem C07_registry_gaps_modelled :
  Forall (fun kv => exists g : gapfn, rl_gap (snd kv) = Some g) gap_registry.
Proof. exact registry_gaps_modelled. Qed.
Print Assumptions C07_registry_gaps_modelled.

Definition ex_v : N -> Q := game_of [0; -1; 2; 3; 1#2; 1; 4; 9].
Definition ex_K : N -> bool := known_in [0; 1; 2; 4; 7]%N.
Definition ex_K' : N -> bool := known_in [0; 1; 2; 4; 7; 3]%N.
Example C07_hypotheses_satisfiable :
  SA 3 ex_v /\ MinK 3 ex_K /\ (forall s, ex_K s = true -> ex_K' s = true)
  /\ agrees 3 (table_of 3 ex_K ex_v 77) ex_K ex_v /\ agrees 3 (table_of 3 ex_K' ex_v 5) ex_K' ex_v
  /\ exists r r', compute CCached 3 (table_of 3 ex_K ex_v 77) = Some r /\ compute CCached 3 (table_of 3 ex_K' ex_v 5) = Some r'
                  /\ U r' 3 < U r 3.
Proof.
  split; [apply sa_check_sound; vm_compute; reflexivity|].
  split; [apply mink_check_sound; vm_compute; reflexivity|].
  split.
  { intros s. unfold ex_K, ex_K', known_in. simpl. rewrite !orb_false_r.
    intro H. repeat (apply orb_true_iff in H; destruct H as [H|H]); rewrite H; repeat (rewrite ?orb_true_r, ?orb_true_l); reflexivity. }
  split; [apply agrees_check_sound; vm_compute; reflexivity|].
  split; [apply agrees_check_sound; vm_compute; reflexivity|].
  eexists. eexists. split; [vm_compute; reflexivity|]. split; vm_compute; reflexivity.
Qed.

(* The four offered gap functions measure the same width vector and are comparable for every n (GapCompare.v):
   linf <= l1, exploitability <= l1, linf^2 <= l2^2 <= linf * l1, linf <= C * exploitability for any C bounding the
   binomial coefficients of n. (l2 is carried as its square, as everywhere in this development.) *)
Theorem C07_gap_functions_comparable :
  forall n (w : N -> Q), (forall S, bounded n S -> 0 <= w S) ->
    nm_linf n w <= nm_l1 n w
    /\ ex_wgap n w <= nm_l1 n w
    /\ nm_linf n w * nm_linf n w <= nm_l2sq n w
    /\ nm_l2sq n w <= nm_linf n w * nm_l1 n w
    /\ (forall C, (forall S, bounded n S -> inject_Z (sh_binom n (size n S)) <= C) -> nm_linf n w <= C * ex_wgap n w).
Proof.
  intros n w H. split; [apply gc_linf_le_l1|]. split; [apply gc_wgap_le_l1; exact H|].
  split; [apply gc_linfsq_le_l2sq|]. split; [apply gc_l2sq_le_linf_l1|].
  intros C HC. apply gc_linf_le_wgap; assumption.
Qed.
Print Assumptions C07_gap_functions_comparable.

(* ... hence they vanish together: on a table with lower <= upper everywhere, any one gap function is zero iff every
   interval is a point - "the gap reached zero" (end of a reveal sequence, the environment's done flag) does not depend
   on the gap function selected. *)
Theorem C07_gap_functions_vanish_together :
  forall n t, (forall S, bounded n S -> lo (get t S) <= hi (get t S)) ->
    let pinned := forall S, bounded n S -> lo (get t S) == hi (get t S) in
    (nm_l1 n (nm_width_tab t) == 0 <-> pinned) /\ (nm_linf n (nm_width_tab t) == 0 <-> pinned) /\
    (nm_l2sq n (nm_width_tab t) == 0 <-> pinned) /\ (ex_wgap n (nm_width_tab t) == 0 <-> pinned).
Proof. exact gc_tab_zero_together. Qed.
Print Assumptions C07_gap_functions_vanish_together.

(* non-vacuity: the widths (0,1,2,0,3,0,0,0) of a 3-player table: linf 3, l1 6, l2^2 14, weighted gap 1/3+2/3+3/3 = 2;
   every binomial coefficient of 3 is at most 3 *)
Definition ex_gc_w (S : N) : Q := nth (N.to_nat S) [0; 1; 2; 0; 3; 0; 0; 0] 0.
Example C07_gap_compare_example :
  Qred (nm_linf 3 ex_gc_w) = 3 /\ Qred (nm_l1 3 ex_gc_w) = 6 /\ Qred (nm_l2sq 3 ex_gc_w) = 14
  /\ Qred (ex_wgap 3 ex_gc_w) = 2
  /\ forallb (fun S => Qle_bool 0 (ex_gc_w S) && Qle_bool (inject_Z (sh_binom 3 (size 3 S))) 3) (alln 3) = true.
Proof. repeat split; vm_compute; reflexivity. Qed.

(* ------------------------------------------------------------------ *)
(* The gaps do not see a translation of the game by an additive game   *)
(* (theories/ShiftProofs.v)                                            *)
(* ------------------------------------------------------------------ *)
(* tr_rel a n t t': on every coalition S of the n players t' has the flag of t and both bounds moved by
   tr_add a n S = sum of the weights a i of the members of S.  Then the interval widths are equal, the four gap
   functions of the environment return the SAME value (ev_gap stores Qred-canonical rationals, so = and not only ==;
   None = exploitability raises because the grand coalition is unknown, on both tables), and so do the underlying
   exploitability / l1 / l-infinity / squared l2 functions. *)
Theorem C07_gaps_shift_invariant :
  forall (a : nat -> Q) (n : nat) (t t' : table),
    tr_rel a n t t' ->
    (forall S, bounded n S -> hi (get t' S) - lo (get t' S) == hi (get t S) - lo (get t S))
    /\ (forall g, ev_gap g n t' = ev_gap g n t)
    /\ (ex_exploit n (ex_lo t') (ex_hi t') == ex_exploit n (ex_lo t) (ex_hi t)
        /\ nm_l1 n (nm_width_tab t') == nm_l1 n (nm_width_tab t)
        /\ nm_linf n (nm_width_tab t') == nm_linf n (nm_width_tab t)
        /\ nm_l2sq n (nm_width_tab t') == nm_l2sq n (nm_width_tab t)).
Proof. exact tr_width_invariant. Qed.
Print Assumptions C07_gaps_shift_invariant.

(* ... hence the gaps of the bounds COMPUTED from translated knowledge are those computed from the original knowledge,
   for both superadditive computers (tr_sa_computer: CRef, CCached) *)
Theorem C07_computed_gaps_shift_invariant :
  forall (a : nat -> Q) (comp : computer) (n : nat) (t t' : table),
    tr_sa_computer comp = true -> tr_rel a n t t' ->
    forall g, match compute comp n t' with Some r => ev_gap g n r | None => None end
            = match compute comp n t with Some r => ev_gap g n r | None => None end.
Proof. exact tr_computed_gap_invariant. Qed.
Print Assumptions C07_computed_gaps_shift_invariant.

(* the knowledge table of the first example (unknown rows: stale 77 / -77) translated by the weights (2; -1; 1/2) *)
Definition ex_sh_a : nat -> Q := tr_vec [2; -(1); 1#2].
Definition ex_sh_t : table := table_of 3 ex_K ex_v 77.
Definition ex_sh_t' : table := tr_shift ex_sh_a 3 ex_sh_t.
Definition ex_sh_gaps (o : option table) : list (option Q) :=
  map (fun g => match o with Some r => ev_gap g 3 r | None => None end) [GExploit; GL1; GL2; GLinf].
Example C07_shift_example :
  tr_rel ex_sh_a 3 ex_sh_t ex_sh_t'
  /\ map (fun s => Qred (lo (get ex_sh_t' s) - lo (get ex_sh_t s))) (alln 3) = [0; 2; -(1); 1; 1#2; 5#2; -(1#2); 3#2]
  /\ ex_sh_gaps (Some ex_sh_t) = [Some (-(154)); Some 462; Some 71148; Some 154]
  /\ ex_sh_gaps (Some ex_sh_t') = ex_sh_gaps (Some ex_sh_t)
  /\ ex_sh_gaps (compute CRef 3 ex_sh_t) = [Some (15#2); Some (45#2); Some (675#4); Some (15#2)]
  /\ ex_sh_gaps (compute CRef 3 ex_sh_t') = ex_sh_gaps (compute CRef 3 ex_sh_t)
  /\ ex_sh_gaps (compute CCached 3 ex_sh_t') = ex_sh_gaps (compute CRef 3 ex_sh_t).
Proof.
  split; [apply tr_shift_rel|]. split; [vm_compute; reflexivity|]. split; [vm_compute; reflexivity|].
  split; [vm_compute; reflexivity|]. split; [vm_compute; reflexivity|]. split; vm_compute; reflexivity.
Qed.

(* ------------------------------------------------------------------ *)
(* Multiplicative factors (multiplicative/multiplicative_factor.py;    *)
(* theories/MulFactor.v, theories/MulFactorProofs.v)                   *)
(* ------------------------------------------------------------------ *)
From ICG Require Import MulFactor MulFactorProofs.

(* each of the four functions is mf_factor n num den.  It returns a number iff no assert fires (and n > 0: np.max of an
   empty array raises); the number bounds every ratio num S / den S over the non-empty coalitions and is attained. *)
Theorem C07_mulfactor_spec :
  forall n num den,
    ((exists a, mf_factor n num den = Some a) <-> ((0 < n)%nat /\ mf_guards n num den))
    /\ (forall a, mf_factor n num den = Some a -> mf_is_max n num den a).
Proof. exact mf_factor_spec. Qed.
Print Assumptions C07_mulfactor_spec.

(* a table that is sound for v with positive lower bounds: no assert fires, 1 <= v/lower factor <= upper/lower factor *)
Theorem C07_mulfactor_sound_table :
  forall n v t, (0 < n)%nat -> mf_sound n v t ->
    exists a b, mf_to_lower_bound n v t = Some a /\ mf_lower_upper_bound n t = Some b /\ 1 <= a /\ a <= b.
Proof. exact mf_sound_factors. Qed.
Print Assumptions C07_mulfactor_sound_table.

(* ... in particular the bounds computed by either superadditive computer (C01), when the lower bounds are positive *)
Theorem C07_mulfactor_sa_sound :
  forall (c : computer) n K v t t',
    (c = CRef \/ c = CCached) -> SA n v -> MinK n K -> agrees n t K v -> compute c n t = Some t' ->
    (0 < n)%nat -> (forall s, bounded n s -> s <> 0%N -> 0 < L t' s) ->
    exists a b, mf_to_lower_bound n v t' = Some a /\ mf_lower_upper_bound n t' = Some b /\ 1 <= a /\ a <= b.
Proof. exact mf_sa_factors. Qed.
Print Assumptions C07_mulfactor_sa_sound.

(* tighter intervals give smaller factors *)
Theorem C07_mulfactor_monotone :
  forall n v t1 t2,
    mf_inside n t2 t1 ->
    (forall b1 b2, mf_lower_upper_bound n t1 = Some b1 -> mf_lower_upper_bound n t2 = Some b2 -> b2 <= b1)
    /\ (forall a1 a2, mf_to_lower_bound n v t1 = Some a1 -> mf_to_lower_bound n v t2 = Some a2 -> a2 <= a1).
Proof.
  exact (fun n v t1 t2 I => conj (fun b1 b2 => mf_lower_upper_monotone n t1 t2 b1 b2 I)
                                 (fun a1 a2 => mf_to_lower_monotone n v t1 t2 a1 a2 I)).
Qed.
Print Assumptions C07_mulfactor_monotone.

(* along any growth of knowledge K <= K' (C07_sa_monotone_in_knowledge + C01): all four calls are defined and ordered *)
Theorem C07_mulfactor_sa_along_reveals :
  forall (c : computer) n v K K' t t' r r',
    (c = CRef \/ c = CCached) -> SA n v -> MinK n K -> (forall s, K s = true -> K' s = true) ->
    agrees n t K v -> agrees n t' K' v -> compute c n t = Some r -> compute c n t' = Some r' ->
    (0 < n)%nat -> (forall s, bounded n s -> s <> 0%N -> 0 < L r s) ->
    exists a1 b1 a2 b2,
      mf_to_lower_bound n v r = Some a1 /\ mf_lower_upper_bound n r = Some b1
      /\ mf_to_lower_bound n v r' = Some a2 /\ mf_lower_upper_bound n r' = Some b2
      /\ 1 <= a2 /\ a2 <= a1 /\ a2 <= b2 /\ b2 <= b1 /\ a1 <= b1.
Proof. exact mf_sa_along_reveals. Qed.
Print Assumptions C07_mulfactor_sa_along_reveals.

(* multiplying the game, the approximation and both bound columns by c > 0 changes none of the four results
   (equal as canonical rationals, and equally None) *)
Theorem C07_mulfactor_scale_invariant :
  forall n c v v' a a' t t',
    0 < c -> mf_scaled c n v v' -> mf_scaled c n a a' ->
    mf_scaled c n (mf_lo t) (mf_lo t') -> mf_scaled c n (mf_hi t) (mf_hi t') ->
    mf_to_approximation n v' a' = mf_to_approximation n v a
    /\ mf_upper_to_approximation n a' t' = mf_upper_to_approximation n a t
    /\ mf_to_lower_bound n v' t' = mf_to_lower_bound n v t
    /\ mf_lower_upper_bound n t' = mf_lower_upper_bound n t.
Proof. exact mf_scale_invariant. Qed.
Print Assumptions C07_mulfactor_scale_invariant.

(* a positive superadditive 3-player game, minimal knowledge, then {0,2} revealed: the factors are 5/3 and 7/2, then 5/3 and 8/3 *)
Definition ex_mf_v : N -> Q := game_of [0; 1; 2; 5; 1; 3; 4; 9].
Definition ex_mf_K : N -> bool := known_in [0; 1; 2; 4; 7]%N.
Definition ex_mf_K' : N -> bool := known_in [0; 1; 2; 4; 7; 5]%N.
Example C07_mulfactor_example :
  SA 3 ex_mf_v /\ MinK 3 ex_mf_K /\ (forall s, ex_mf_K s = true -> ex_mf_K' s = true)
  /\ agrees 3 (table_of 3 ex_mf_K ex_mf_v 77) ex_mf_K ex_mf_v /\ agrees 3 (table_of 3 ex_mf_K' ex_mf_v 5) ex_mf_K' ex_mf_v
  /\ exists r r', compute CRef 3 (table_of 3 ex_mf_K ex_mf_v 77) = Some r
                  /\ compute CRef 3 (table_of 3 ex_mf_K' ex_mf_v 5) = Some r'
                  /\ (forall s, bounded 3 s -> s <> 0%N -> 0 < L r s)
                  /\ mf_to_lower_bound 3 ex_mf_v r = Some (5#3) /\ mf_lower_upper_bound 3 r = Some (7#2)
                  /\ mf_to_lower_bound 3 ex_mf_v r' = Some (5#3) /\ mf_lower_upper_bound 3 r' = Some (8#3)
                  /\ mf_upper_to_approximation 3 ex_mf_v r = Some (7#3)
                  /\ mf_to_approximation 3 ex_mf_v (mf_lo r) = Some (5#3)
                  /\ mf_lower_upper_bound 3 (table_of 3 ex_mf_K ex_mf_v 77) = None.
Proof.
  split; [apply sa_check_sound; vm_compute; reflexivity|].
  split; [apply mink_check_sound; vm_compute; reflexivity|].
  split.
  { intros s. unfold ex_mf_K, ex_mf_K', known_in. simpl. rewrite !orb_false_r.
    intro H. repeat (apply orb_true_iff in H; destruct H as [H|H]); rewrite H; repeat (rewrite ?orb_true_r, ?orb_true_l); reflexivity. }
  split; [apply agrees_check_sound; vm_compute; reflexivity|].
  split; [apply agrees_check_sound; vm_compute; reflexivity|].
  eexists. eexists. split; [vm_compute; reflexivity|]. split; [vm_compute; reflexivity|].
  split.
  { intros s Hb Hs. apply in_alln in Hb. vm_compute in Hb.
    repeat (destruct Hb as [Hb|Hb]; [subst s; try congruence; vm_compute; reflexivity|]). contradiction. }
  repeat split; vm_compute; reflexivity.
Qed.

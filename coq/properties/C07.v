(* C07 - More information never hurts: intervals shrink, every gap is non-increasing.
   Statements only; proofs in theories/SATight.v (knowledge monotonicity) and theories/NormsProofs.v (gap functions). *)
From ICG Require Import Prelude Bits Table Bounds FoldLemmas BoundsSpec SASound SAEquiv SATight Checks.

(* K <= K' pointwise: both superadditive computers give pointwise tighter intervals under K'.
   Holds for any pair of tables holding the two knowledge sets (stale rows arbitrary), hence along any reveal sequence. *)
Theorem C07_sa_monotone_in_knowledge :
  forall (c : computer) n v K K' t t' r r',
    (c = CRef \/ c = CCached) -> SA n v -> MinK n K -> (forall s, K s = true -> K' s = true) ->
    agrees n t K v -> agrees n t' K' v -> compute c n t = Some r -> compute c n t' = Some r' ->
    forall s, bounded n s -> L r s <= L r' s /\ U r' s <= U r s.
Proof. exact sa_monotone_in_knowledge. Qed.
Print Assumptions C07_sa_monotone_in_knowledge.

Definition ex_v : N -> Q := game_of [0; -1; 2; 3; 1#2; 1; 4; 9].
Definition ex_K : N -> bool := known_in [0; 1; 2; 4; 7]%N.
Definition ex_K' : N -> bool := known_in [0; 1; 2; 4; 7; 3]%N.
Example C07_hypotheses_satisfiable :
  SA 3 ex_v /\ MinK 3 ex_K /\ (forall s, ex_K s = true -> ex_K' s = true)
  /\ agrees 3 (table_of 3 ex_K ex_v 77) ex_K ex_v /\ agrees 3 (table_of 3 ex_K' ex_v 5) ex_K' ex_v
  /\ exists r r', compute CCached 3 (table_of 3 ex_K ex_v 77) = Some r /\ compute CCached 3 (table_of 3 ex_K' ex_v 5) = Some r'
                  /\ U r' 3 < U r 3.
Proof.
  split; [apply sa_check_sound; vm_compute; reflexivity|].
  split; [apply mink_check_sound; vm_compute; reflexivity|].
  split.
  { intros s. unfold ex_K, ex_K', known_in. simpl. rewrite !orb_false_r.
    intro H. repeat (apply orb_true_iff in H; destruct H as [H|H]); rewrite H; repeat (rewrite ?orb_true_r, ?orb_true_l); reflexivity. }
  split; [apply agrees_check_sound; vm_compute; reflexivity|].
  split; [apply agrees_check_sound; vm_compute; reflexivity|].
  eexists. eexists. split; [vm_compute; reflexivity|]. split; vm_compute; reflexivity.
Qed.

(* C11 - Exhaustive search evaluates each reveal set once, correctly; finds the optimum.
   Statements only; proofs in theories/SearchProofs.v (and CombsProofs.v for itertools.combinations). *)
From ICG Require Import Prelude Bits Table Bounds GameOps SAKnowledge Shapley Exploit Norms Env Combs CombsProofs Search SearchProofs SASound SAMSpec SearchMono SearchCurve.
From ICG Require Import Greedy GreedyInst ScaleProofs.

(* the enumeration: every set of at most m still-unknown coalitions exactly once, by increasing size *)
Theorem C11_sequences :
  forall n t m, let acts := sr_actions n t in
  NoDup acts /\ NoDup (sr_sequences n t (Some m))
  /\ (forall s, In s (sr_sequences n t (Some m)) <-> cb_sublist s acts /\ (length s <= m)%nat)
  /\ sr_sequences n t (Some m) = concat (map (fun k => cb_combs k acts) (seq 0 (S m)))
  /\ (forall k s, In s (cb_combs k acts) -> length s = k).
Proof. exact sr_sequences_spec. Qed.
Print Assumptions C11_sequences.

(* the reported gap depends only on the SET starting knowledge + sequence (not on order or repetitions) ... *)
Theorem C11_value_depends_on_set :
  forall c g n t v known seq1 seq2,
    (forall s, ev_mem s (seq1 ++ known) = ev_mem s (seq2 ++ known)) ->
    sr_value c g n t v known seq1 = sr_value c g n t v known seq2.
Proof. exact sr_value_depends_on_set. Qed.
Print Assumptions C11_value_depends_on_set.

(* ... it is the gap of the game in which exactly that set is known with the hidden game's values ... *)
Theorem C11_applied_table :
  forall t v ids s, get (sr_apply t v ids) s = if ev_mem s ids then krow (ev_val v s) else get init_table s.
Proof. exact sr_apply_get. Qed.
Print Assumptions C11_applied_table.

(* ... and does not depend on the state the shared game object was left in by an earlier task *)
Theorem C11_value_ignores_incoming_state :
  forall c g n t1 t2 v known seq, sr_value c g n t1 v known seq = sr_value c g n t2 v known seq.
Proof. exact sr_value_ignores_incoming_state. Qed.
Print Assumptions C11_value_ignores_incoming_state.

(* any distribution of the task list over worker processes (each chunk threading its own copy of the game object)
   returns the values of the sequential map, in input order *)
Theorem C11_parallel_eq_sequential :
  forall c g n v known t0 (chunks : list (list (list N))),
    sr_starmap _ _ (sr_task c g n v known) t0 chunks
    = map (fun seq => (seq, sr_value c g n t0 v known seq)) (concat chunks).
Proof. exact sr_search_parallel_eq_sequential. Qed.
Print Assumptions C11_parallel_eq_sequential.

Theorem C11_meta_same_quantity :
  forall c g n t v inner, sr_meta_value c g n t v inner = sr_value c g n t v (sr_minimal n) inner.
Proof. exact sr_meta_same_quantity. Qed.
Print Assumptions C11_meta_same_quantity.

(* best-states: for every size, the recorded entry is a candidate of that size whose mean over the sampled games is
   minimal (placeholder if there is none); -1 is the code's placeholder, no real mean may equal it (gaps are >= 0) *)
Theorem C11_best_states_min :
  forall max_steps reps cands k, (k <= max_steps)%nat ->
    (forall c, In c cands -> ~ sr_mean (snd c) == -1) -> sr_mean (repeat (-1) reps) == -1 ->
    match nth_error (sr_best_states max_steps reps cands) k with
    | None => False
    | Some b =>
      match sr_cands_of_size k cands with
      | [] => b = sr_placeholder reps
      | _ => In (sb_seq b, sb_col b) (sr_cands_of_size k cands)
             /\ forall c, In c (sr_cands_of_size k cands) -> sr_mean (sb_col b) <= sr_mean (snd c)
      end
    end.
Proof. exact sr_best_states_min. Qed.
Print Assumptions C11_best_states_min.

(* for games of the assumed class the reported gap never increases when one more coalition is added to the set, so the
   per-size optimum (best-states curve) is non-increasing: any optimal k-set extended by a further coalition is a
   (k+1)-set that is at least as good *)
Theorem C11_value_monotone_sa :
  forall (c : computer) g n t v known seq a x x',
    (c = CRef \/ c = CCached) -> SA n (ev_val v) -> ev_val v 0%N == 0 ->
    MinK n (fun s => ev_mem s (seq ++ known)) ->
    sr_value c g n t v known seq = Some x -> sr_value c g n t v known (seq ++ [a]) = Some x' -> x' <= x.
Proof. exact sr_value_monotone_sa. Qed.
Print Assumptions C11_value_monotone_sa.
Theorem C11_value_monotone_sam :
  forall r g n t v known seq a x x',
    SA n (ev_val v) -> Mono n (ev_val v) -> ev_val v 0%N == 0 ->
    MinK n (fun s => ev_mem s (seq ++ known)) ->
    sr_value (CSam r) g n t v known seq = Some x -> sr_value (CSam r) g n t v known (seq ++ [a]) = Some x' -> x' <= x.
Proof. exact sr_value_monotone_sam. Qed.
Print Assumptions C11_value_monotone_sam.
Theorem C11_mean_monotone : forall c1 c2, Forall2 Qle c1 c2 -> sr_mean c1 <= sr_mean c2.
Proof. exact sr_mean_le. Qed.
Print Assumptions C11_mean_monotone.

(* hence the best-states curve is non-increasing: with candidates = all reveal sets of size <= max_steps (the enumeration
   of C11_sequences) and value = gap column over the sampled games, the recorded per-size optimum of size k+1 is at most
   that of size k, whenever the value depends on the set only and one more coalition never increases the mean gap *)
Theorem C11_best_curve_nonincreasing :
  forall (value : list N -> list Q) (acts : list N), NoDup acts ->
    (forall s1 s2, (forall x, In x s1 <-> In x s2) -> value s1 = value s2) ->
    (forall s a, sr_mean (value (s ++ [a])) <= sr_mean (value s)) ->
    (forall s, ~ sr_mean (value s) == -1) ->
    forall reps, sr_mean (repeat (-1) reps) == -1 ->
    forall max_steps k bk bk1, (S k <= max_steps)%nat -> (S k <= length acts)%nat ->
      nth_error (sr_best_states max_steps reps (sc_cands value acts max_steps)) k = Some bk ->
      nth_error (sr_best_states max_steps reps (sc_cands value acts max_steps)) (S k) = Some bk1 ->
      sr_mean (sb_col bk1) <= sr_mean (sb_col bk).
Proof. exact sr_best_curve_nonincreasing. Qed.
Print Assumptions C11_best_curve_nonincreasing.

Example C11_nontrivial :
  let v := [0; 1; 1; 3; 1; 2; 4; 9] in
  let t := sr_apply init_table v (sr_minimal 3) in
  sr_sequences 3 t (Some 2%nat) = [[]; [3]; [5]; [6]; [3; 5]; [3; 6]; [5; 6]]%N
  /\ sr_value CCached GExploit 3 t v (sr_minimal 3) [5; 3]%N = sr_value CRef GExploit 3 init_table v (sr_minimal 3) [3; 5; 3]%N
  /\ sr_value CCached GExploit 3 t v (sr_minimal 3) [3]%N = Some 4.
Proof. vm_compute. auto. Qed.

(* ---------- scale-freeness (positive homogeneity), theories/ScaleProofs.v ----------
   sc_rel c t t' : every row of t' has the flag of the row of t and both bounds == c times its bounds.
   sc_opt_rel / sc_optq_rel : both sides raise, or both return and the results are related / the second value is
   the factor times the first.  sc_gfac g c = c for exploitability, l1, l-infinity and c*c for the squared l2 norm. *)

(* every computer (any number of SAM rounds), every n, c >= 0, no hypothesis on which coalitions are known:
   the computed tables are related; the four gaps of related tables (hence of the computed ones) are homogeneous *)
Theorem C11_scale_free_bounds_and_gaps :
  forall (c : Q) (comp : computer) (n : nat) (t t' : table),
    0 <= c -> sc_rel c t t' ->
    sc_opt_rel c (compute comp n t) (compute comp n t')
    /\ (forall g, sc_optq_rel (sc_gfac g c) (ev_gap g n t) (ev_gap g n t'))
    /\ (forall g, sc_optq_rel (sc_gfac g c)
                    (match compute comp n t with Some t1 => ev_gap g n t1 | None => None end)
                    (match compute comp n t' with Some t1 => ev_gap g n t1 | None => None end))
    /\ (sc_optq_rel c (ex_exploit_tab n t) (ex_exploit_tab n t')
        /\ nm_l1 n (nm_width_tab t') == c * nm_l1 n (nm_width_tab t)
        /\ nm_linf n (nm_width_tab t') == c * nm_linf n (nm_width_tab t)
        /\ nm_l2sq n (nm_width_tab t') == c * c * nm_l2sq n (nm_width_tab t)).
Proof. exact sc_scale_free. Qed.
Print Assumptions C11_scale_free_bounds_and_gaps.

(* the value the searches report for a reveal set on a game multiplied by c (sc_vals c v v': v' reads as c * v) *)
Theorem C11_value_scale_free :
  forall c comp g n t1 t2 v v' kn seq, 0 <= c -> sc_vals c v v' ->
    sc_optq_rel (sc_gfac g c) (sr_value comp g n t1 v kn seq) (sr_value comp g n t2 v' kn seq).
Proof. exact sc_sr_value. Qed.
Print Assumptions C11_value_scale_free.

(* best states, column level: all candidate gap columns multiplied by c > 0 (no candidate mean equal to the placeholder
   -1 on either side): every recorded entry has the same sequence and its column is multiplied by c
   (or is the untouched placeholder on both sides) *)
Theorem C11_best_states_scale_free :
  forall (c : Q) (max_steps reps : nat) (cands cands' : list (list N * list Q)),
    0 < c -> Forall2 (sc_cand_rel c) cands cands' ->
    (forall x, In x cands -> ~ sr_mean (snd x) == -1 /\ ~ c * sr_mean (snd x) == -1) ->
    Forall2 (sc_best_rel c) (sr_best_states max_steps reps cands) (sr_best_states max_steps reps cands').
Proof. exact sc_best_states_scale. Qed.
Print Assumptions C11_best_states_scale_free.

(* what that means for the report: same sequences, mean curve multiplied by c (placeholders stay at -1) *)
Theorem C11_best_states_scale_free_report :
  forall c R R', Forall2 (sc_best_rel c) R R' ->
    map sb_seq R' = map sb_seq R
    /\ Forall2 (fun b b' => (sr_mean (sb_col b) == -1 /\ sr_mean (sb_col b') == -1)
                            \/ sr_mean (sb_col b') == c * sr_mean (sb_col b)) R R'.
Proof. exact sc_best_states_report. Qed.
Print Assumptions C11_best_states_scale_free_report.

(* game level: every sampled game multiplied by the same c > 0, candidates = reveal sets with their gap columns *)
Theorem C11_best_states_scale_free_games :
  forall c comp g n games games' kn max_steps reps (seqs : list (list N)),
    0 < c -> Forall2 (sc_vals c) games games' ->
    (forall s, In s seqs -> 0 <= sr_mean (eg_value comp g n games kn s)) ->
    Forall2 (sc_best_rel (sc_gfac g c))
      (sr_best_states max_steps reps (map (fun s => (s, eg_value comp g n games kn s)) seqs))
      (sr_best_states max_steps reps (map (fun s => (s, eg_value comp g n games' kn s)) seqs)).
Proof. exact sc_best_states_games. Qed.
Print Assumptions C11_best_states_scale_free_games.

(* a 3-player game and the same game multiplied by 2^-10: related input tables, both sides of the computed bounds
   (lower, upper in id order), of the four gaps, and of the best-states report over two sampled games *)
Example C11_scale_free_nontrivial :
  let c := 1 # 1024 in
  let v := [0; 1; 1; 3; 1; 2; 4; 9] in let w := [0; 2; 1; 3; 2; 5; 3; 10] in
  let v' := map (Qmult c) v in let w' := map (Qmult c) w in
  let t := sr_apply init_table v (sr_minimal 3) in
  let t' := sr_apply init_table v' (sr_minimal 3) in
  let show o := match o with
                | Some t1 => map (fun s => (Qred (lo (get t1 s)), Qred (hi (get t1 s)))) (alln 3)
                | None => [] end in
  let gaps G := map (fun g => match compute CCached 3 G with Some t1 => ev_gap g 3 t1 | None => None end)
                    [GExploit; GL1; GL2; GLinf] in
  let cands G := map (fun s => (s, eg_value CRef GL1 3 G (sr_minimal 3) s)) (sr_sequences 3 t (Some 2%nat)) in
  sc_rel c t t' /\ Forall2 (sc_vals c) [v; w] [v'; w']
  /\ show (compute CRef 3 t) = [(0, 0); (1, 1); (1, 1); (2, 8); (1, 1); (2, 8); (2, 8); (9, 9)]
  /\ show (compute CRef 3 t') = [(0, 0); (1 # 1024, 1 # 1024); (1 # 1024, 1 # 1024); (1 # 512, 1 # 128);
                                 (1 # 1024, 1 # 1024); (1 # 512, 1 # 128); (1 # 512, 1 # 128); (9 # 1024, 9 # 1024)]
  /\ show (compute (CSam 1) 3 t) = [(0, 0); (1, 1); (1, 1); (9, 1); (1, 1); (9, 1); (9, 1); (9, 9)]
  /\ show (compute (CSam 1) 3 t') = [(0, 0); (1 # 1024, 1 # 1024); (1 # 1024, 1 # 1024); (9 # 1024, 1 # 1024);
                                     (1 # 1024, 1 # 1024); (9 # 1024, 1 # 1024); (9 # 1024, 1 # 1024); (9 # 1024, 9 # 1024)]
  /\ gaps t = [Some 6; Some 18; Some 108; Some 6]
  /\ gaps t' = [Some (3 # 512); Some (9 # 512); Some (27 # 262144); Some (3 # 512)]   (* 6/2^10, 18/2^10, 108/2^20, 6/2^10 *)
  /\ map (fun b => (sb_seq b, sb_col b)) (sr_best_states 3 2 (cands [v; w]))
     = [([], [18; 15]); ([3%N], [12; 10]); ([3%N; 5%N], [6; 5]); ([], [-1; -1])]
  /\ map (fun b => (sb_seq b, sb_col b)) (sr_best_states 3 2 (cands [v'; w']))
     = [([], [9 # 512; 15 # 1024]); ([3%N], [3 # 256; 5 # 512]); ([3%N; 5%N], [3 # 512; 5 # 1024]); ([], [-1; -1])].
Proof.
  split; [apply sc_sr_apply; apply sc_vals_map|]. split; [apply (sc_games_map (1 # 1024) [_; _])|].
  vm_compute. repeat split; reflexivity.
Qed.

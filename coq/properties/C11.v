(* C11 - Exhaustive search evaluates each reveal set once, correctly; finds the optimum.
   Statements only; proofs in theories/SearchProofs.v (and CombsProofs.v for itertools.combinations). *)
From ICG Require Import Prelude Bits Table Bounds GameOps SAKnowledge Shapley Exploit Norms Env Combs CombsProofs Search SearchProofs SASound SAMSpec SearchMono SearchCurve.

(* the enumeration: every set of at most m still-unknown coalitions exactly once, by increasing size *)
Theorem C11_sequences :
  forall n t m, let acts := sr_actions n t in
  NoDup acts /\ NoDup (sr_sequences n t (Some m))
  /\ (forall s, In s (sr_sequences n t (Some m)) <-> cb_sublist s acts /\ (length s <= m)%nat)
  /\ sr_sequences n t (Some m) = concat (map (fun k => cb_combs k acts) (seq 0 (S m)))
  /\ (forall k s, In s (cb_combs k acts) -> length s = k).
Proof. exact sr_sequences_spec. Qed.
Print Assumptions C11_sequences.

(* the reported gap depends only on the SET starting knowledge + sequence (not on order or repetitions) ... *)
Theorem C11_value_depends_on_set :
  forall c g n t v known seq1 seq2,
    (forall s, ev_mem s (seq1 ++ known) = ev_mem s (seq2 ++ known)) ->
    sr_value c g n t v known seq1 = sr_value c g n t v known seq2.
Proof. exact sr_value_depends_on_set. Qed.
Print Assumptions C11_value_depends_on_set.

(* ... it is the gap of the game in which exactly that set is known with the hidden game's values ... *)
Theorem C11_applied_table :
  forall t v ids s, get (sr_apply t v ids) s = if ev_mem s ids then krow (ev_val v s) else get init_table s.
Proof. exact sr_apply_get. Qed.
Print Assumptions C11_applied_table.

(* ... and does not depend on the state the shared game object was left in by an earlier task *)
Theorem C11_value_ignores_incoming_state :
  forall c g n t1 t2 v known seq, sr_value c g n t1 v known seq = sr_value c g n t2 v known seq.
Proof. exact sr_value_ignores_incoming_state. Qed.
Print Assumptions C11_value_ignores_incoming_state.

(* any distribution of the task list over worker processes (each chunk threading its own copy of the game object)
   returns the values of the sequential map, in input order *)
Theorem C11_parallel_eq_sequential :
  forall c g n v known t0 (chunks : list (list (list N))),
    sr_starmap _ _ (sr_task c g n v known) t0 chunks
    = map (fun seq => (seq, sr_value c g n t0 v known seq)) (concat chunks).
Proof. exact sr_search_parallel_eq_sequential. Qed.
Print Assumptions C11_parallel_eq_sequential.

Theorem C11_meta_same_quantity :
  forall c g n t v inner, sr_meta_value c g n t v inner = sr_value c g n t v (sr_minimal n) inner.
Proof. exact sr_meta_same_quantity. Qed.
Print Assumptions C11_meta_same_quantity.

(* best-states: for every size, the recorded entry is a candidate of that size whose mean over the sampled games is
   minimal (placeholder if there is none); -1 is the code's placeholder, no real mean may equal it (gaps are >= 0) *)
Theorem C11_best_states_min :
  forall max_steps reps cands k, (k <= max_steps)%nat ->
    (forall c, In c cands -> ~ sr_mean (snd c) == -1) -> sr_mean (repeat (-1) reps) == -1 ->
    match nth_error (sr_best_states max_steps reps cands) k with
    | None => False
    | Some b =>
      match sr_cands_of_size k cands with
      | [] => b = sr_placeholder reps
      | _ => In (sb_seq b, sb_col b) (sr_cands_of_size k cands)
             /\ forall c, In c (sr_cands_of_size k cands) -> sr_mean (sb_col b) <= sr_mean (snd c)
      end
    end.
Proof. exact sr_best_states_min. Qed.
Print Assumptions C11_best_states_min.

(* for games of the assumed class the reported gap never increases when one more coalition is added to the set, so the
   per-size optimum (best-states curve) is non-increasing: any optimal k-set extended by a further coalition is a
   (k+1)-set that is at least as good *)
Theorem C11_value_monotone_sa :
  forall (c : computer) g n t v known seq a x x',
    (c = CRef \/ c = CCached) -> SA n (ev_val v) -> ev_val v 0%N == 0 ->
    MinK n (fun s => ev_mem s (seq ++ known)) ->
    sr_value c g n t v known seq = Some x -> sr_value c g n t v known (seq ++ [a]) = Some x' -> x' <= x.
Proof. exact sr_value_monotone_sa. Qed.
Print Assumptions C11_value_monotone_sa.
Theorem C11_value_monotone_sam :
  forall r g n t v known seq a x x',
    SA n (ev_val v) -> Mono n (ev_val v) -> ev_val v 0%N == 0 ->
    MinK n (fun s => ev_mem s (seq ++ known)) ->
    sr_value (CSam r) g n t v known seq = Some x -> sr_value (CSam r) g n t v known (seq ++ [a]) = Some x' -> x' <= x.
Proof. exact sr_value_monotone_sam. Qed.
Print Assumptions C11_value_monotone_sam.
Theorem C11_mean_monotone : forall c1 c2, Forall2 Qle c1 c2 -> sr_mean c1 <= sr_mean c2.
Proof. exact sr_mean_le. Qed.
Print Assumptions C11_mean_monotone.

(* hence the best-states curve is non-increasing: with candidates = all reveal sets of size <= max_steps (the enumeration
   of C11_sequences) and value = gap column over the sampled games, the recorded per-size optimum of size k+1 is at most
   that of size k, whenever the value depends on the set only and one more coalition never increases the mean gap *)
Theorem C11_best_curve_nonincreasing :
  forall (value : list N -> list Q) (acts : list N), NoDup acts ->
    (forall s1 s2, (forall x, In x s1 <-> In x s2) -> value s1 = value s2) ->
    (forall s a, sr_mean (value (s ++ [a])) <= sr_mean (value s)) ->
    (forall s, ~ sr_mean (value s) == -1) ->
    forall reps, sr_mean (repeat (-1) reps) == -1 ->
    forall max_steps k bk bk1, (S k <= max_steps)%nat -> (S k <= length acts)%nat ->
      nth_error (sr_best_states max_steps reps (sc_cands value acts max_steps)) k = Some bk ->
      nth_error (sr_best_states max_steps reps (sc_cands value acts max_steps)) (S k) = Some bk1 ->
      sr_mean (sb_col bk1) <= sr_mean (sb_col bk).
Proof. exact sr_best_curve_nonincreasing. Qed.
Print Assumptions C11_best_curve_nonincreasing.

Example C11_nontrivial :
  let v := [0; 1; 1; 3; 1; 2; 4; 9] in
  let t := sr_apply init_table v (sr_minimal 3) in
  sr_sequences 3 t (Some 2%nat) = [[]; [3]; [5]; [6]; [3; 5]; [3; 6]; [5; 6]]%N
  /\ sr_value CCached GExploit 3 t v (sr_minimal 3) [5; 3]%N = sr_value CRef GExploit 3 init_table v (sr_minimal 3) [3; 5; 3]%N
  /\ sr_value CCached GExploit 3 t v (sr_minimal 3) [3]%N = Some 4.
Proof. vm_compute. auto. Qed.

(* C15 - Normalisation maps superadditive games into [0,1] and is invertible.
   Model: theories/Normalize.v (loop-for-loop model of incomplete_cooperative/normalize.py on the
   (known, lower, upper) table, and of the graph-game branch); proofs: theories/NormalizeProofs.v.
   All statements are over Q (exact arithmetic; every float64 input is a rational).
   nz_game n t g : t is a full table (every coalition of the n players known, lower == upper == g c).
   nz_SA n g     : forall disjoint A B of the n players, g A + g B <= g (A u B). *)
From ICG Require Import Prelude Bits Table Bounds GameOps Normalize NormalizeProofs.
From ICG Require Import FoldLemmas SASound Checks Env ShiftProofs.
From ICG Require Import ScaleProofs NormalInvProofs.

(* norm_formula: for every n and every full table (superadditive or not) the player loop succeeds and, just
   before the division, coalition c holds g c - sum of the ORIGINAL singleton values of its players. *)
Theorem norm_formula : forall n t g, nz_game n t g ->
  exists t1, nz_subtract n t = Some t1 /\ nz_game n t1 (fun c => g c - nz_ssum g n c).
Proof. exact nz_norm_formula. Qed.
Print Assumptions norm_formula.

(* what normalize_game returns and leaves behind, for every full table:
   norm info = (grand - sum of singletons, singleton values), computed before;
   table = excess, divided by the surplus unless that is == 0 (both columns). *)
Theorem normalize_spec : forall n t g, nz_game n t g ->
  exists t' s sv, nz_normalize_icg n t = Some (t', (s, sv)) /\
    s == nz_surplus n g /\ length sv = n /\ (forall i, (i < n)%nat -> nth i sv 0 == g (single i)) /\
    nz_game n t' (nz_normal n g).
Proof. exact nz_normalize_spec. Qed.
Print Assumptions normalize_spec.

(* norm_range: a superadditive zero-normalised game is mapped to singletons 0, all values in [0,1] (lower = upper,
   still known), grand coalition 1 when the surplus is not 0, identically 0 when it is. *)
Theorem norm_range : forall n t g, nz_game n t g -> nz_SA n g -> g 0%N == 0 ->
  exists t' s sv, nz_normalize_icg n t = Some (t', (s, sv)) /\
    (forall c, bounded n c -> known (get t' c) = true /\ hi (get t' c) == lo (get t' c)) /\
    (forall i, (i < n)%nat -> lo (get t' (single i)) == 0) /\
    (forall c, bounded n c -> 0 <= lo (get t' c) <= 1) /\
    (~ s == 0 -> lo (get t' (grand n)) == 1) /\
    (s == 0 -> forall c, bounded n c -> lo (get t' c) == 0).
Proof. exact nz_norm_range. Qed.
Print Assumptions norm_range.

(* norm_additive_iff: for superadditive games the surplus vanishes exactly on the additive games. *)
Theorem norm_additive_iff : forall n g, nz_SA n g -> g 0%N == 0 ->
  (nz_surplus n g == 0 <-> forall c, bounded n c -> g c == nz_ssum g n c).
Proof. exact nz_norm_additive_iff. Qed.
Print Assumptions norm_additive_iff.

(* norm_preserves_SA: the normalised game is again superadditive. *)
Theorem norm_preserves_SA : forall n t g, nz_game n t g -> nz_SA n g -> g 0%N == 0 ->
  exists t' info, nz_normalize_icg n t = Some (t', info) /\ nz_SA n (fun c => lo (get t' c)).
Proof. exact nz_norm_preserves_SA. Qed.
Print Assumptions norm_preserves_SA.

(* denorm_norm: de-normalising with the returned information restores the game (pointwise ==, both columns),
   for superadditive zero-normalised games, and for ANY full game whose surplus is not 0. *)
Theorem denorm_norm : forall n t g, nz_game n t g ->
  (~ nz_surplus n g == 0 \/ (nz_SA n g /\ g 0%N == 0)) ->
  exists t' info t2, nz_normalize_icg n t = Some (t', info) /\ nz_denormalize n t' info = Some t2 /\
    nz_game n t2 g.
Proof. exact nz_denorm_norm. Qed.
Print Assumptions denorm_norm.

(* graph_commutes: normalising the tabulated form of a graph game gives the tabulated form of the normalised
   graph game, and the same surplus - for EVERY weight matrix (no sign condition is needed). *)
Theorem graph_commutes : forall n W,
  exists t' info, nz_normalize_icg n (nz_table_of n (nz_tabulate n W)) = Some (t', info) /\
    fst info == fst (nz_graph_norminfo n W) /\
    forall c, bounded n c -> known (get t' c) = true /\
                             lo (get t' c) == nz_tabulate n (nz_normalize_graph n W) c /\
                             hi (get t' c) == nz_tabulate n (nz_normalize_graph n W) c.
Proof. exact nz_graph_commutes. Qed.
Print Assumptions graph_commutes.

(* graph games with non-negative weights are superadditive, so the range statement holds for them too *)
Theorem graph_SA : forall n W, (forall i j, 0 <= nz_w W i j) -> nz_SA n (nz_tabulate n W).
Proof. exact nz_graph_SA. Qed.
Print Assumptions graph_SA.

Theorem graph_norm_range : forall n W, (forall i j, 0 <= nz_w W i j) ->
  let W' := nz_normalize_graph n W in
  (forall i, (i < n)%nat -> nz_tabulate n W' (single i) == 0) /\
  (forall c, bounded n c -> 0 <= nz_tabulate n W' c <= 1) /\
  (~ nz_tabulate n W (grand n) == 0 -> nz_tabulate n W' (grand n) == 1) /\
  (nz_tabulate n W (grand n) == 0 -> forall c, bounded n c -> nz_tabulate n W' c == 0) /\
  nz_SA n (nz_tabulate n W').
Proof. exact nz_graph_norm_range. Qed.
Print Assumptions graph_norm_range.

(* graph_denorm_norm: the graph round trip restores every coalition value *)
Theorem graph_denorm_norm : forall n W,
  (~ nz_tabulate n W (grand n) == 0 \/ forall i j, 0 <= nz_w W i j) ->
  forall c, nz_tabulate n (nz_denormalize_graph n (nz_normalize_graph n W) (nz_graph_norminfo n W)) c
            == nz_tabulate n W c.
Proof. exact nz_graph_denorm_norm. Qed.
Print Assumptions graph_denorm_norm.

(* ------------------------------------------------------------------ *)
(* Examples: the hypotheses are satisfiable by concrete, non-trivial instances *)
(* ------------------------------------------------------------------ *)
(* v(S) = |S|^2 on 3 players (the game of tests/test_normalize.py, there with 6 players) *)
Definition ex_sq (c : N) : Q := inject_Z (Z.of_nat (size 3 c * size 3 c)).
Definition ex_vals (t : table) : list Q := map (fun c => lo (get t c)) (alln 3).

Example ex_sq_game : nz_game 3 (nz_table_of 3 ex_sq) ex_sq.
Proof. apply nz_table_of_game. Qed.
Example ex_sq_SA : nz_SA 3 ex_sq /\ ex_sq 0%N == 0.
Proof. split; [apply nz_SAb_sound; vm_compute; reflexivity| reflexivity]. Qed.
Example ex_sq_normalised :
  option_map (fun r => (ex_vals (fst r), snd r)) (nz_normalize_icg 3 (nz_table_of 3 ex_sq))
  = Some ([0; 0; 0; 1#3; 0; 1#3; 1#3; 1], (6, [1; 1; 1])).
Proof. vm_compute. reflexivity. Qed.
Example ex_sq_roundtrip :
  match nz_normalize_icg 3 (nz_table_of 3 ex_sq) with
  | Some (t', info) => option_map ex_vals (nz_denormalize 3 t' info)
  | None => None
  end = Some [0; 1; 1; 4; 1; 4; 4; 9].
Proof. vm_compute. reflexivity. Qed.

(* an additive game with weights 1, -2, 1/2: surplus 0, the guard fires, the result is identically 0 *)
Definition ex_add (c : N) : Q := qsum (map (fun i => nth i [1; -(2); 1#2] 0) (players 3 c)).
Example ex_add_SA : nz_SA 3 ex_add /\ ex_add 0%N == 0 /\ nz_surplus 3 ex_add == 0.
Proof. split; [apply nz_SAb_sound; vm_compute; reflexivity| split; vm_compute; reflexivity]. Qed.
Example ex_add_normalised :
  option_map (fun r => (ex_vals (fst r), snd r)) (nz_normalize_icg 3 (nz_table_of 3 ex_add))
  = Some ([0; 0; 0; 0; 0; 0; 0; 0], (0, [1; -(2); 1#2])).
Proof. vm_compute. reflexivity. Qed.

(* a partially known table: the Python raises ValueError, the model returns None *)
Example ex_unknown_raises : nz_normalize_icg 2 (set (nz_table_of 2 ex_sq) 3%N row0) = None.
Proof. vm_compute. reflexivity. Qed.

(* the SA hypothesis of denorm_norm cannot be dropped when the surplus is 0:
   singletons 0, v{0,1} = 1, v(N) = 0 (not superadditive): v{0,1} comes back as 0 *)
Definition ex_bad (c : N) : Q := if N.eqb c 3 then 1 else 0.
Example denorm_norm_without_SA_refuted :
  nz_game 3 (nz_table_of 3 ex_bad) ex_bad /\ nz_surplus 3 ex_bad == 0 /\
  match nz_normalize_icg 3 (nz_table_of 3 ex_bad) with
  | Some (t', info) => option_map (fun t2 => lo (get t2 3%N)) (nz_denormalize 3 t' info)
  | None => None
  end = Some 0 /\ ~ ex_bad 3%N == 0.
Proof.
  split; [apply nz_table_of_game|]. split; [vm_compute; reflexivity|]. split; [vm_compute; reflexivity|].
  vm_compute. discriminate.
Qed.

(* graph games: weights 2, 3, 6 on the three edges *)
Definition ex_W : nz_mat := [[0; 2; 3]; [0; 0; 6]; [0; 0; 0]].
Example ex_graph_nonneg : forall i j, 0 <= nz_w ex_W i j.
Proof. apply nz_w_nonneg. repeat constructor; vm_compute; discriminate. Qed.
Example ex_graph_normalised :
  map (fun c => Qred (nz_tabulate 3 (nz_normalize_graph 3 ex_W) c)) (alln 3) = [0; 0; 0; 2#11; 0; 3#11; 6#11; 1]
  /\ nz_graph_norminfo 3 ex_W = (11, [0; 0; 0]).
Proof. split; vm_compute; reflexivity. Qed.
(* the sign condition of graph_denorm_norm cannot be dropped when the grand value is 0:
   weights +1 and -1: nothing is divided, the surplus is 0, de-normalising multiplies everything by 0 *)
Definition ex_Wbad : nz_mat := [[0; 1; -(1)]; [0; 0; 0]; [0; 0; 0]].
Example graph_denorm_zero_value_refuted :
  nz_tabulate 3 ex_Wbad (grand 3) == 0 /\ nz_tabulate 3 ex_Wbad 3%N == 1 /\
  nz_tabulate 3 (nz_denormalize_graph 3 (nz_normalize_graph 3 ex_Wbad) (nz_graph_norminfo 3 ex_Wbad)) 3%N == 0.
Proof. repeat split; vm_compute; reflexivity. Qed.

(* Why the float defect exists (KNOWN FINDING C15:normalize:float-additive-residue).  The theorems need EXACT
   superadditivity.  The float64 game produced by generators.additive(3, numpy.random.default_rng(2)) is additive only up to
   rounding: it is superadditive up to 2^-53, its exact surplus is 2^-53 instead of 0, and the faithful model - like the
   code, whose exact-zero guard `if not grand_coalition_value` does not fire - divides rounding residues by a rounding
   residue: coalition {0,2} gets the value -1.  So norm_range does NOT extend to "superadditive within a tolerance";
   the implementation has to decide additivity with a tolerance (DESIGN.md Appendix B). *)
Definition ex_float_additive : list Q :=
  [0; 2356392620641643 # 9007199254740992; 1344284602253239 # 4503599627370496; 5044961825148121 # 9007199254740992;
   3666946741935867 # 4503599627370496; 302821440766043 # 281474976710656; 2505615672094553 # 2251799813685248;
   773678456813741 # 562949953421312].
Definition ex_fa (c : N) : Q := nth (N.to_nat c) ex_float_additive 0.
Example norm_range_tolerant_SA_refuted :
  nz_SA_tol 3 (1 # 9007199254740992) ex_fa /\ ex_fa 0%N == 0 /\ nz_surplus 3 ex_fa == 1 # 9007199254740992 /\
  exists t' info, nz_normalize_icg 3 (nz_table_of 3 ex_fa) = Some (t', info) /\ lo (get t' 5%N) == -(1).
Proof.
  split; [apply nz_SAb_tol_sound; vm_compute; reflexivity|]. split; [reflexivity|]. split; [vm_compute; reflexivity|].
  destruct (nz_normalize_icg 3 (nz_table_of 3 ex_fa)) as [[t' info]|] eqn:E; [|vm_compute in E; discriminate].
  exists t', info. split; [reflexivity|].
  assert (H : option_map (fun r => lo (get (fst r) 5%N)) (nz_normalize_icg 3 (nz_table_of 3 ex_fa)) = Some (-(1))) by (vm_compute; reflexivity).
  rewrite E in H. cbn [option_map fst] in H. injection H as ->. reflexivity.
Qed.

(* ------------------------------------------------------------------ *)
(* Shift covariance of the bounds; bounds commute with normalisation   *)
(* (theories/ShiftProofs.v, with the homogeneity of ScaleProofs.v)     *)
(* ------------------------------------------------------------------ *)
(* tr_add a n S   : the additive game of the weights a, sum of a i over the members i < n of S.
   tr_rel a n t t': on every coalition S of the n players t' has the flag of t and both bounds moved by tr_add a n S.
   tr_opt_rel     : both computers raise, or both return and the results are tr_rel-related.
   tr_sa_computer : CRef and CCached (true), CSam r (false). *)
Theorem C15_bounds_shift_covariant :
  forall (a : nat -> Q) (comp : computer) (n : nat) (t t' : table),
    tr_sa_computer comp = true -> tr_rel a n t t' ->
    tr_opt_rel a n (compute comp n t) (compute comp n t').
Proof. exact tr_compute_shift. Qed.
Print Assumptions C15_bounds_shift_covariant.

(* the additive game is additive over disjoint unions and vanishes on the empty coalition *)
Theorem C15_shift_game_additive :
  forall a n A B, disjb A B = true -> tr_add a n (N.lor A B) == tr_add a n A + tr_add a n B.
Proof. exact tr_add_lor. Qed.
Print Assumptions C15_shift_game_additive.

(* the monotone approximation is NOT shift covariant (its closure step compares different coalitions) *)
Theorem C15_sam_shift_refuted :
  exists (a : nat -> Q) (n r : nat) (t t' : table),
    tr_rel a n t t' /\ ~ tr_opt_rel a n (compute (CSam r) n t) (compute (CSam r) n t').
Proof. exact tr_sam_shift_refuted. Qed.
Print Assumptions C15_sam_shift_refuted.

(* every positive affine change  t' == c * (t + additive game)  commutes with both superadditive computers *)
Theorem C15_bounds_affine_covariant :
  forall (c : Q) (a : nat -> Q) (comp : computer) (n : nat) (t t' : table),
    0 <= c -> tr_sa_computer comp = true -> tr_aff_rel c a n t t' ->
    tr_opt (tr_aff_rel c a n) (compute comp n t) (compute comp n t').
Proof. exact tr_compute_affine. Qed.
Print Assumptions C15_bounds_affine_covariant.

(* tr_nz_rel n g t t': same flags, every bound b of S in t is (b - nz_ssum g n S) / nz_surplus n g in t'
   (normalize.py's map of the game g applied to both columns of every row).
   Bounds: the bounds of the normalised table are the normalised bounds (or both computers raise);
   gaps: divided by the surplus (tr_gdiv: by its square for the squared l2 norm), before and after computing. *)
Theorem C15_bounds_commute_with_normalisation :
  forall (comp : computer) (n : nat) (g : N -> Q) (t t' : table),
    tr_sa_computer comp = true -> 0 < nz_surplus n g -> tr_nz_rel n g t t' ->
    tr_opt (tr_nz_rel n g) (compute comp n t) (compute comp n t')
    /\ (forall gf, tr_optq_div (tr_gdiv gf (nz_surplus n g)) (ev_gap gf n t) (ev_gap gf n t'))
    /\ (forall gf, tr_optq_div (tr_gdiv gf (nz_surplus n g))
                     (match compute comp n t with Some r => ev_gap gf n r | None => None end)
                     (match compute comp n t' with Some r => ev_gap gf n r | None => None end)).
Proof. exact tr_bounds_commute_with_normalisation. Qed.
Print Assumptions C15_bounds_commute_with_normalisation.

(* a row of t holding the value g S is, in t', a row holding the normalised value nz_normal n g S *)
Theorem C15_normalised_rows :
  forall n g t t' S, 0 < nz_surplus n g -> tr_nz_rel n g t t' -> bounded n S ->
    (lo (get t S) == g S -> lo (get t' S) == nz_normal n g S)
    /\ (hi (get t S) == g S -> hi (get t' S) == nz_normal n g S).
Proof. exact tr_nz_rel_normal. Qed.
Print Assumptions C15_normalised_rows.

(* knowledge form: t holds the knowledge K of g, t' the same knowledge of the normalised game; unknown rows arbitrary.
   tr_nz_out n g r r': on every coalition of the n players same flag, L r' == (L r - nz_ssum g n S) / nz_surplus n g,
   U r' likewise. *)
Theorem C15_normalised_knowledge :
  forall (comp : computer) (n : nat) (g : N -> Q) (K : N -> bool) (t t' : table),
    tr_sa_computer comp = true -> 0 < nz_surplus n g ->
    agrees n t K g -> agrees n t' K (nz_normal n g) ->
    tr_opt (tr_nz_out n g) (compute comp n t) (compute comp n t').
Proof. exact tr_normalised_knowledge. Qed.
Print Assumptions C15_normalised_knowledge.

(* Examples: 3 players, v = (0; -1; 2; 3; 1/2; 1; 4; 9) in id order, known: empty, singletons, {0,1}, grand;
   stale numbers in the unknown rows; shifted by the weights a = (2; -1; 1/2) *)
Definition ex_sh_a : nat -> Q := tr_vec [2; -(1); 1#2].
Definition ex_sh_v : N -> Q := game_of [0; -(1); 2; 3; 1#2; 1; 4; 9].
Definition ex_sh_K : N -> bool := known_in [0; 1; 2; 4; 7; 3]%N.
Definition ex_sh_t : table := table_of 3 ex_sh_K ex_sh_v 77.
Definition ex_sh_t' : table := tr_shift ex_sh_a 3 ex_sh_t.
Definition ex_sh_show (o : option table) : option (list (Q * Q)) :=
  option_map (fun r => map (fun s => (Qred (lo (get r s)), Qred (hi (get r s)))) (alln 3)) o.

Example ex_shift_covariant :
  tr_rel ex_sh_a 3 ex_sh_t ex_sh_t'
  /\ map (fun s => Qred (tr_add ex_sh_a 3 s)) (alln 3) = [0; 2; -(1); 1; 1#2; 5#2; -(1#2); 3#2]
  /\ ex_sh_show (compute CRef 3 ex_sh_t)
     = Some [(0, 0); (-(1), -(1)); (2, 2); (3, 3); (1#2, 1#2); (-(1#2), 7); (5#2, 10); (9, 9)]
  /\ ex_sh_show (compute CRef 3 ex_sh_t')
     = Some [(0, 0); (1, 1); (1, 1); (4, 4); (1, 1); (2, 19#2); (2, 19#2); (21#2, 21#2)]
  /\ ex_sh_show (compute CCached 3 ex_sh_t') = ex_sh_show (compute CRef 3 ex_sh_t').
Proof.
  split; [apply tr_shift_rel|]. split; [vm_compute; reflexivity|]. split; [vm_compute; reflexivity|].
  split; vm_compute; reflexivity.
Qed.

(* the same tables through sam_apx_1: {0,2} gets the lower bound 21/2 instead of 9 + 5/2, the upper bound 1 instead of
   -1 + 5/2 (and this computer's "bounds" of the unknown pairs are crossed on both tables) *)
Example ex_sam_not_shift_covariant :
  ex_sh_show (compute (CSam 1) 3 ex_sh_t)
  = Some [(0, 0); (-(1), -(1)); (2, 2); (3, 3); (1#2, 1#2); (9, -(1)); (9, 1#2); (9, 9)]
  /\ ex_sh_show (compute (CSam 1) 3 ex_sh_t')
     = Some [(0, 0); (1, 1); (1, 1); (4, 4); (1, 1); (21#2, 1); (21#2, 1); (21#2, 21#2)].
Proof. split; vm_compute; reflexivity. Qed.

(* normalisation: surplus 15/2, member singleton sums (0; -1; 2; 1; 1/2; -1/2; 5/2; 3/2); the table of the normalised
   game's knowledge (other stale numbers) gets the normalised bounds, e.g. {0,2}: [-1/2, 7] -> [0, 1] *)
Definition ex_sh_tn : table := table_of 3 ex_sh_K (nz_normal 3 ex_sh_v) 5.
Example ex_normalised_bounds :
  0 < nz_surplus 3 ex_sh_v /\ Qred (nz_surplus 3 ex_sh_v) = 15#2
  /\ map (fun s => Qred (nz_ssum ex_sh_v 3 s)) (alln 3) = [0; -(1); 2; 1; 1#2; -(1#2); 5#2; 3#2]
  /\ agrees 3 ex_sh_t ex_sh_K ex_sh_v /\ agrees 3 ex_sh_tn ex_sh_K (nz_normal 3 ex_sh_v)
  /\ ex_sh_show (compute CRef 3 ex_sh_tn)
     = Some [(0, 0); (0, 0); (0, 0); (4#15, 4#15); (0, 0); (0, 1); (0, 1); (1, 1)]
  /\ ex_sh_show (compute CCached 3 ex_sh_tn) = ex_sh_show (compute CRef 3 ex_sh_tn)
  /\ map (fun gf => match compute CRef 3 ex_sh_t with Some r => ev_gap gf 3 r | None => None end) [GExploit; GL1; GL2; GLinf]
     = [Some 5; Some 15; Some (225#2); Some (15#2)]
  /\ map (fun gf => match compute CRef 3 ex_sh_tn with Some r => ev_gap gf 3 r | None => None end) [GExploit; GL1; GL2; GLinf]
     = [Some (2#3); Some 2; Some 2; Some 1].
Proof.
  split; [vm_compute; reflexivity|]. split; [vm_compute; reflexivity|]. split; [vm_compute; reflexivity|].
  split; [apply agrees_check_sound; vm_compute; reflexivity|].
  split; [apply agrees_check_sound; vm_compute; reflexivity|].
  split; [vm_compute; reflexivity|]. split; [vm_compute; reflexivity|]. split; vm_compute; reflexivity.
Qed.

(* ---------- Affine invariance of the normalised game (theories/NormalInvProofs.v) ----------
   ni_affine n c a g g'  : forall T, bounded n T -> g' T == c * (g T + tr_add a n T)   (tr_add: the additive game of a)
   ni_regular n g        : ~ nz_surplus n g == 0 \/ (nz_SA n g /\ g 0 == 0)            (the proviso of denorm_norm above) *)

(* the game that normalize_game leaves behind (normalize_spec: nz_normal) does not depend on the scale (c > 0) or on
   additive shifts of the game: positive affine images have the same normalised values on every coalition *)
Theorem C15_normalisation_affine_invariant :
  forall n c a g g', 0 < c -> ni_regular n g -> ni_affine n c a g g' ->
    forall X, bounded n X -> nz_normal n g' X == nz_normal n g X.
Proof. exact ni_normal_affine. Qed.
Print Assumptions C15_normalisation_affine_invariant.

Theorem C15_normalisation_scale_invariant :
  forall n c g, 0 < c -> ni_regular n g ->
    forall X, bounded n X -> nz_normal n (fun T => c * g T) X == nz_normal n g X.
Proof. exact ni_normal_scale. Qed.
Print Assumptions C15_normalisation_scale_invariant.

(* shifts: every game, no proviso; the surplus does not move, and scales with the game *)
Theorem C15_normalisation_shift_invariant :
  forall n a g X, bounded n X -> nz_normal n (fun T => g T + tr_add a n T) X == nz_normal n g X.
Proof. exact ni_normal_shift. Qed.
Print Assumptions C15_normalisation_shift_invariant.

Theorem C15_surplus_affine :
  (forall n c g, nz_surplus n (fun T => c * g T) == c * nz_surplus n g)
  /\ (forall n a g, nz_surplus n (fun T => g T + tr_add a n T) == nz_surplus n g)
  /\ (forall n c a g g', ni_affine n c a g g' -> nz_surplus n g' == c * nz_surplus n g).
Proof. exact (conj ni_surplus_scale (conj ni_surplus_shift ni_surplus_affine)). Qed.
Print Assumptions C15_surplus_affine.

(* the full statement "for EVERY game g and c > 0: nz_normal n (c * g) == nz_normal n g" is false in the faithful model:
   when the surplus is 0 _normalize_icg returns before the division and leaves the excesses, which a game that is not
   superadditive can have non-zero; they are multiplied by c.  Witness: 3 players, v{0,1} = 1, everything else 0, c = 2. *)
Theorem C15_normalisation_scale_invariant_without_proviso_refuted :
  exists (n : nat) (c : Q) (g : N -> Q) (X : N),
    0 < c /\ bounded n X /\ ~ nz_normal n (fun T => c * g T) X == nz_normal n g X.
Proof. exact ni_normal_scale_refuted. Qed.
Print Assumptions C15_normalisation_scale_invariant_without_proviso_refuted.

(* Example: 3 players, v = (0; 1; 1; 3; 1; 2; 4; 9) in id order (surplus 6), its image under c = 1/1024 and the weights
   a = (2; -1; 1/2) (surplus 6/1024): the same normalised game (0; 0; 0; 1/6; 0; 0; 1/3; 1) *)
Definition ex_ni_v : list Q := [0; 1; 1; 3; 1; 2; 4; 9].
Definition ex_ni_a : nat -> Q := tr_vec [2; -(1); 1#2].
Definition ex_ni_v' : list Q := ni_image_list 3 (1#1024) ex_ni_a ex_ni_v.

Example ex_normalisation_affine_invariant :
  0 < 1#1024 /\ ni_regular 3 (ev_val ex_ni_v) /\ ni_affine 3 (1#1024) ex_ni_a (ev_val ex_ni_v) (ev_val ex_ni_v')
  /\ ex_ni_v' = [0; 3#1024; 0; 1#256; 3#2048; 9#2048; 7#2048; 21#2048]
  /\ Qred (nz_surplus 3 (ev_val ex_ni_v)) = 6 /\ Qred (nz_surplus 3 (ev_val ex_ni_v')) = 3#512
  /\ ni_normal_list 3 ex_ni_v = [0; 0; 0; 1#6; 0; 0; 1#3; 1]
  /\ ni_normal_list 3 ex_ni_v' = ni_normal_list 3 ex_ni_v.
Proof.
  split; [reflexivity|]. split; [left; vm_compute; intro H; discriminate H|].
  split; [apply ni_affine_vals_check_sound; vm_compute; reflexivity|].
  split; [vm_compute; reflexivity|]. split; [vm_compute; reflexivity|]. split; [vm_compute; reflexivity|].
  split; vm_compute; reflexivity.
Qed.

From ICG Require Import Prelude Normalize.
Theorem nz_stub : True. Proof. exact I. Qed.
Print Assumptions nz_stub.

(* Greedy: the expected-greedy search of run/greedy.py (get_greedy_rewards) (C13). Prefix eg_.
   [value seq] is the column of gaps, one per sampled game, after revealing the coalitions of [seq]
   (get_stacked_exploitabilities_of_action_sequences); candidates are visited in the order of [possible]. *)
From ICG Require Import Prelude Bits Search.

(* np.argmin: first index of the minimum *)
Fixpoint eg_argmin_from (best : Q) (besti i : nat) (xs : list Q) : nat :=
  match xs with
  | [] => besti
  | x :: r => if Qle_bool best x then eg_argmin_from best besti (S i) r else eg_argmin_from x i (S i) r
  end.
Definition eg_argmin (xs : list Q) : option nat :=
  match xs with [] => None | x :: r => Some (eg_argmin_from x 0 1 r) end.

Fixpoint eg_remove_nth {A} (i : nat) (l : list A) : list A :=
  match l, i with
  | [], _ => []
  | _ :: r, O => r
  | x :: r, S j => x :: eg_remove_nth j r
  end.

Section EG.
  Variable value : list N -> list Q.

  Fixpoint eg_loop (k : nat) (seq possible : list N) (rows : list (list Q)) : option (list N * list (list Q)) :=
    match k with
    | O => Some (seq, rows)
    | S k' =>
      match eg_argmin (map (fun a => sr_mean (value (seq ++ [a]))) possible) with
      | None => None                       (* no coalition left: numpy raises on the empty candidate array *)
      | Some i =>
        match nth_error possible i with
        | None => None
        | Some a => eg_loop k' (seq ++ [a]) (eg_remove_nth i possible) (rows ++ [value (seq ++ [a])])
        end
      end
    end.

  (* best_exploitabilities[0] is the gap at the starting knowledge; then max_steps greedy extensions *)
  Definition eg_run (max_steps : nat) (possible : list N) : option (list N * list (list Q)) :=
    eg_loop max_steps [] possible [value []].
End EG.

(* SAPartition: the lower bound of a coalition is the best total of a partition of it into known coalitions (C02). *)
From ICG Require Import Prelude Bits Table Bounds FoldLemmas BoundsSpec SASound SAEquiv SATight.

(* ps is a list of non-empty, known, pairwise disjoint coalitions of the n-player game whose union is S *)
Fixpoint punion (ps : list N) : N := match ps with [] => 0%N | p :: r => N.lor p (punion r) end.
Fixpoint pdisjoint (ps : list N) : Prop :=
  match ps with [] => True | p :: r => (forall q, In q r -> disjb p q = true) /\ pdisjoint r end.
Definition Part (n : nat) (K : N -> bool) (S : N) (ps : list N) : Prop :=
  (forall p, In p ps -> bounded n p /\ K p = true /\ p <> 0%N) /\ pdisjoint ps /\ punion ps = S.

Lemma punion_bounded n ps : (forall p, In p ps -> bounded n p) -> bounded n (punion ps).
Proof.
  induction ps as [|p r IH]; intros H; simpl; [apply bounded_0|].
  apply bounded_lor; [apply H; left; reflexivity| apply IH; intros q Hq; apply H; right; exact Hq].
Qed.

Lemma disjb_punion p r : (forall q, In q r -> disjb p q = true) -> disjb p (punion r) = true.
Proof.
  induction r as [|q r IH]; intros H; simpl.
  - apply disjb_spec. intros i _. apply tb_0.
  - apply disjb_spec. intros i Hi. rewrite tb_lor.
    pose proof (H q (or_introl eq_refl)) as H1. rewrite disjb_spec in H1. rewrite (H1 i Hi). simpl.
    assert (H2 : disjb p (punion r) = true) by (apply IH; intros x Hx; apply H; right; exact Hx).
    rewrite disjb_spec in H2. apply H2. exact Hi.
Qed.

Lemma punion_app a b : punion (a ++ b) = N.lor (punion a) (punion b).
Proof. induction a as [|p a IH]; cbn [app punion]; [rewrite N.lor_0_l; reflexivity| rewrite IH, N.lor_assoc; reflexivity]. Qed.

Lemma sub_punion ps p : In p ps -> sub p (punion ps) = true.
Proof.
  induction ps as [|q r IH]; [intros []|]. intros [->|H]; simpl; [apply sub_lor_l|].
  eapply sub_trans; [apply IH; exact H| apply sub_lor_r].
Qed.

Lemma disjb_sub_l a a' b : sub a' a = true -> disjb a b = true -> disjb a' b = true.
Proof.
  rewrite sub_spec, !disjb_spec. intros Hs Hd i Hi. apply Hd. apply Hs. exact Hi.
Qed.

Lemma pdisjoint_app a b : pdisjoint a -> pdisjoint b -> disjb (punion a) (punion b) = true -> pdisjoint (a ++ b).
Proof.
  induction a as [|p a IH]; intros Ha Hb Hd; simpl; [exact Hb|].
  destruct Ha as [Ha1 Ha2]. simpl in Hd. split.
  - intros q Hq. apply in_app_or in Hq. destruct Hq as [Hq|Hq]; [apply Ha1; exact Hq|].
    apply (disjb_sub_l (N.lor p (punion a)) p q); [apply sub_lor_l|].
    rewrite disjb_sym. apply (disjb_sub_l (punion b) q); [apply sub_punion; exact Hq| rewrite disjb_sym; exact Hd].
  - apply IH; auto. apply (disjb_sub_l (N.lor p (punion a))); [apply sub_lor_r| exact Hd].
Qed.

Section Partition.
  Variable n : nat.
  Variable K : N -> bool.
  Variable v l u : N -> Q.
  Hypothesis HSA : SA n v.
  Hypothesis Hv0 : v 0%N == 0.
  Hypothesis HM : MinK n K.
  Hypothesis Hsol : sa_sol n K v l u.

  (* no partition into known coalitions beats the lower bound *)
  Theorem partition_le_lower S ps : Part n K S ps -> qsum (map v ps) <= l S.
  Proof.
    intros [Hps [Hd <-]].
    pose proof (l_superadditive n K v l u HSA Hv0 HM Hsol) as lSA.
    induction ps as [|p r IH]; simpl.
    - rewrite (l_zero n K v l u Hv0 HM Hsol). apply Qle_refl.
    - destruct Hd as [Hd1 Hd2]. destruct (Hps p (or_introl eq_refl)) as [Hbp [Hkp _]].
      assert (Hr : forall q, In q r -> bounded n q /\ K q = true /\ q <> 0%N) by (intros q Hq; apply Hps; right; exact Hq).
      specialize (IH Hr Hd2).
      assert (Hbr : bounded n (punion r)) by (apply punion_bounded; intros q Hq; apply Hr; exact Hq).
      pose proof (lSA p (punion r) Hbp Hbr (disjb_punion p r Hd1)) as H1.
      rewrite <- (sol_kl _ _ _ _ _ Hsol p Hbp Hkp). lra.
  Qed.

  (* ... and some partition attains it *)
  Theorem partition_attains_lower : forall S, bounded n S -> exists ps, Part n K S ps /\ qsum (map v ps) == l S.
  Proof.
    intros S. remember (size n S) as m eqn:Hm. revert S Hm.
    induction m as [m IH] using lt_wf_ind. intros S Hm Hb.
    destruct (K S) eqn:Hk.
    - destruct (N.eq_dec S 0) as [->|Hne].
      + exists []. split; [split; [intros p []| split; [exact Logic.I| reflexivity]]|].
        simpl. rewrite (l_zero n K v l u Hv0 HM Hsol). reflexivity.
      + exists [S]. split.
        * split; [intros p [<-|[]]; auto|]. split; [simpl; split; [intros q []| exact Logic.I]| simpl; apply N.lor_0_r].
        * simpl. rewrite (sol_kl _ _ _ _ _ Hsol S Hb Hk). ring.
    - pose proof (sol_lo _ _ _ _ _ Hsol S Hb Hk) as E. unfold lowerF in E.
      destruct (qmaxl_in (map (fun a => l a + l (N.lxor S a)) (splits n S))) as [y [Hy Ey]].
      { apply map_neq_nil. eapply MinK_splits_nonempty; eauto. }
      apply in_map_iff in Hy. destruct Hy as [a [<- Ha]].
      destruct (in_splits_size n a S Hb Ha) as [S1 [S2 [B1 [B2 [Hsub [Hne Ex]]]]]].
      destruct (IH (size n a) ltac:(lia) a eq_refl B1) as [pa [[Pa1 [Pa2 Pa3]] Ea]].
      destruct (IH (size n (N.lxor S a)) ltac:(lia) _ eq_refl B2) as [pb [[Pb1 [Pb2 Pb3]] Eb]].
      exists (pa ++ pb). split.
      + split; [intros p Hp; apply in_app_or in Hp; destruct Hp; auto|]. split.
        * apply pdisjoint_app; auto. rewrite Pa3, Pb3, Ex. apply disjb_ldiff.
        * rewrite punion_app, Pa3, Pb3, Ex. apply lor_ldiff. exact Hsub.
      + rewrite map_app, qsum_app, Ea, Eb, E, Ey. reflexivity.
  Qed.
End Partition.

(* table level *)
Theorem sa_lower_best_partition (c : computer) n K v t t' :
  (c = CRef \/ c = CCached) -> SA n v -> v 0%N == 0 -> MinK n K -> agrees n t K v -> compute c n t = Some t' ->
  forall S, bounded n S ->
    (forall ps, Part n K S ps -> qsum (map v ps) <= L t' S)
    /\ exists ps, Part n K S ps /\ qsum (map v ps) == L t' S.
Proof.
  intros Hc HSA Hv0 HM Hag Hcomp S Hb.
  pose proof (sa_sol_of_compute c n K v t t' Hc HM Hag Hcomp) as Sol.
  split.
  - intros ps Hps. eapply partition_le_lower; eauto.
  - eapply partition_attains_lower; eauto.
Qed.

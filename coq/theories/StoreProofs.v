(* StoreProofs: theorems about Store.v (C19). *)
From Coq Require Import List NArith QArith Bool Arith Lia.
From ICG Require Import Store.
Import ListNotations.

(* ---------- strings ---------- *)
Lemma st_str_eqb_refl s : st_str_eqb s s = true.
Proof. induction s as [|x s IH]; cbn; [reflexivity|]. rewrite N.eqb_refl, IH. reflexivity. Qed.

Lemma st_str_eqb_eq a b : st_str_eqb a b = true <-> a = b.
Proof.
  split.
  - revert b. induction a as [|x a IH]; intros [|y b] H; cbn in H; try discriminate; [reflexivity|].
    apply andb_true_iff in H. destruct H as [H1 H2]. apply N.eqb_eq in H1. subst. f_equal. apply IH. exact H2.
  - intros ->. apply st_str_eqb_refl.
Qed.

Lemma st_str_eqb_neq a b : st_str_eqb a b = false <-> a <> b.
Proof.
  split.
  - intros H E. subst. rewrite st_str_eqb_refl in H. discriminate.
  - intro H. destruct (st_str_eqb a b) eqn:E; [|reflexivity]. apply st_str_eqb_eq in E. contradiction.
Qed.

Lemma st_str_eqb_sym a b : st_str_eqb a b = st_str_eqb b a.
Proof.
  destruct (st_str_eqb a b) eqn:E.
  - apply st_str_eqb_eq in E. subst. symmetry. apply st_str_eqb_refl.
  - symmetry. apply st_str_eqb_neq. apply st_str_eqb_neq in E. congruence.
Qed.

(* ---------- association lists ---------- *)
Section Assoc.
  Context {A : Type}.
  Implicit Types (l : list (st_str * A)) (k : st_str).

  Lemma st_lookup_app l1 l2 k :
    st_lookup k (l1 ++ l2) = match st_lookup k l1 with Some v => Some v | None => st_lookup k l2 end.
  Proof.
    induction l1 as [|[k' v] l1 IH]; cbn; [reflexivity|]. destruct (st_str_eqb k k'); [reflexivity| exact IH].
  Qed.

  Lemma st_lookup_single k k' (v : A) : st_lookup k [(k', v)] = if st_str_eqb k k' then Some v else None.
  Proof. reflexivity. Qed.

  Lemma st_mem_true l k : st_mem k l = true <-> exists v, st_lookup k l = Some v.
  Proof.
    unfold st_mem. destruct (st_lookup k l) as [v|]; split; intro H; try discriminate; eauto.
    destruct H as [v H]. discriminate.
  Qed.

  Lemma st_mem_false l k : st_mem k l = false <-> st_lookup k l = None.
  Proof. unfold st_mem. destruct (st_lookup k l); split; intro H; congruence. Qed.

  Lemma st_lookup_in l k v : st_lookup k l = Some v -> In (k, v) l.
  Proof.
    induction l as [|[k' v'] l IH]; cbn; [discriminate|]. destruct (st_str_eqb k k') eqn:E.
    - intro H. injection H as ->. apply st_str_eqb_eq in E. subst. left. reflexivity.
    - intro H. right. apply IH. exact H.
  Qed.

  Lemma st_lookup_none_keys l k : st_lookup k l = None <-> ~ In k (map fst l).
  Proof.
    induction l as [|[k' v'] l IH]; cbn; [tauto|]. destruct (st_str_eqb k k') eqn:E.
    - apply st_str_eqb_eq in E. subst. split; [discriminate| intro H; exfalso; apply H; left; reflexivity].
    - apply st_str_eqb_neq in E. rewrite IH. split; intro H; [intros [H1|H1]; [congruence| tauto]| tauto].
  Qed.

  (* d[k] = v when d[k] already is v changes nothing *)
  Lemma st_set_key_same l k v : st_lookup k l = Some v -> st_set_key k v l = l.
  Proof.
    induction l as [|[k' v'] l IH]; cbn; [discriminate|]. destruct (st_str_eqb k k') eqn:E.
    - intro H. injection H as ->. reflexivity.
    - intro H. rewrite IH by exact H. reflexivity.
  Qed.

  Lemma st_lookup_set_key l k v k' :
    st_lookup k' (st_set_key k v l) = if st_str_eqb k' k then Some v else st_lookup k' l.
  Proof.
    induction l as [|[k2 v2] l IH]; cbn.
    - destruct (st_str_eqb k' k); reflexivity.
    - destruct (st_str_eqb k k2) eqn:E; cbn.
      + apply st_str_eqb_eq in E. subst k2. destruct (st_str_eqb k' k); reflexivity.
      + destruct (st_str_eqb k' k2) eqn:E2; [|exact IH].
        apply st_str_eqb_eq in E2. subst k2. rewrite st_str_eqb_sym, E. reflexivity.
  Qed.

  Lemma st_remove_absent l k : st_lookup k l = None -> st_remove k l = l.
  Proof.
    induction l as [|[k' v'] l IH]; cbn; [reflexivity|]. destruct (st_str_eqb k k'); [discriminate|].
    intro H. rewrite IH by exact H. reflexivity.
  Qed.

  Lemma st_lookup_remove l k k' : st_lookup k' (st_remove k l) = if st_str_eqb k' k then None else st_lookup k' l.
  Proof.
    induction l as [|[k2 v2] l IH]; cbn.
    - destruct (st_str_eqb k' k); reflexivity.
    - destruct (st_str_eqb k k2) eqn:E; cbn.
      + rewrite IH. apply st_str_eqb_eq in E. subst k2. destruct (st_str_eqb k' k); reflexivity.
      + destruct (st_str_eqb k' k2) eqn:E2; [|exact IH].
        apply st_str_eqb_eq in E2. subst k2. rewrite st_str_eqb_sym, E. reflexivity.
  Qed.

  (* pop(k) after an assignment d[k] = v on a dict without k gives the dict back *)
  Lemma st_remove_set_key_absent l k v : st_lookup k l = None -> st_remove k (st_set_key k v l) = l.
  Proof.
    induction l as [|[k' v'] l IH]; cbn.
    - rewrite st_str_eqb_refl. reflexivity.
    - destruct (st_str_eqb k k') eqn:E; [discriminate|]. intro H. cbn. rewrite E, IH by exact H. reflexivity.
  Qed.
End Assoc.

(* ---------- the store ---------- *)
Section StoreLaws.
  Context {A : Type}.
  Implicit Types (s : list (st_str * A)) (name : st_str) (e : A).

  (* saving under an existing name changes nothing *)
  Lemma st_save_existing_noop s name e : st_mem name s = true -> st_save s name e = s.
  Proof. unfold st_save. intros ->. reflexivity. Qed.

  (* saving under a new name: the new entry is there, the old part of the file is literally a prefix,
     every other name reads as before *)
  Lemma st_save_new_adds s name e :
    st_mem name s = false ->
    st_save s name e = s ++ [(name, e)] /\
    st_lookup name (st_save s name e) = Some e /\
    (forall other, other <> name -> st_lookup other (st_save s name e) = st_lookup other s).
  Proof.
    intro H. unfold st_save. rewrite H. split; [reflexivity|]. split.
    - rewrite st_lookup_app. apply st_mem_false in H. rewrite H. cbn. rewrite st_str_eqb_refl. reflexivity.
    - intros other Hne. rewrite st_lookup_app. destruct (st_lookup other s); [reflexivity|].
      cbn. apply st_str_eqb_neq in Hne. rewrite Hne. reflexivity.
  Qed.

  (* one save never changes what an already present name reads as *)
  Lemma st_save_preserves s name e name' e' :
    st_lookup name s = Some e -> st_lookup name (st_save s name' e') = Some e.
  Proof.
    intro H. unfold st_save. destruct (st_mem name' s); [exact H|]. rewrite st_lookup_app, H. reflexivity.
  Qed.

  Lemma st_run_from_app s h1 h2 : st_run_from s (h1 ++ h2) = st_run_from (st_run_from s h1) h2.
  Proof. unfold st_run_from. apply fold_left_app. Qed.

  Lemma st_run_from_preserves more : forall s name e,
    st_lookup name s = Some e -> st_lookup name (st_run_from s more) = Some e.
  Proof.
    induction more as [|[n' e'] more IH]; intros s name e H; [exact H|].
    cbn. apply IH. apply st_save_preserves. exact H.
  Qed.

  (* for ALL histories: once a name reads as e it reads as e after any further saves *)
  Lemma st_saves_preserve hist name e :
    st_lookup name (st_run hist) = Some e -> forall more, st_lookup name (st_run (hist ++ more)) = Some e.
  Proof.
    intros H more. unfold st_run. rewrite st_run_from_app. apply st_run_from_preserves. exact H.
  Qed.

  (* the prefix form: the file after more saves starts with the file before them *)
  Lemma st_run_from_prefix more : forall s, exists added, st_run_from s more = s ++ added.
  Proof.
    induction more as [|[n' e'] more IH]; intro s.
    - exists []. cbn. rewrite app_nil_r. reflexivity.
    - cbn. destruct (IH (st_save s n' e')) as [added Ha]. unfold st_run_from in Ha. rewrite Ha. unfold st_save.
      destruct (st_mem n' s).
      + exists added. reflexivity.
      + exists ((n', e') :: added). rewrite <- app_assoc. reflexivity.
  Qed.

  Lemma st_run_from_lookup (hist : list (st_str * A)) : forall s name,
    st_lookup name (st_run_from s hist) =
    match st_lookup name s with Some e => Some e | None => st_first name hist end.
  Proof.
    induction hist as [|[n' e'] hist IH]; intros s name.
    - cbn. destruct (st_lookup name s); reflexivity.
    - cbn [st_run_from fold_left fst snd]. fold (st_run_from (st_save s n' e') hist). rewrite IH.
      unfold st_save, st_first. cbn [st_lookup]. destruct (st_mem n' s) eqn:M.
      + destruct (st_lookup name s) eqn:L; [reflexivity|].
        destruct (st_str_eqb name n') eqn:E; [|reflexivity].
        apply st_str_eqb_eq in E. subst n'. apply st_mem_true in M. destruct M as [v M]. congruence.
      + rewrite st_lookup_app. destruct (st_lookup name s) eqn:L; [reflexivity|].
        cbn. destruct (st_str_eqb name n'); reflexivity.
  Qed.

  (* for ALL histories: a name reads as the first entry ever saved under it *)
  Lemma st_first_write_wins (hist : list (st_str * A)) name : st_lookup name (st_run hist) = st_first name hist.
  Proof. unfold st_run. rewrite st_run_from_lookup. reflexivity. Qed.

  (* keys of the store are duplicate free (json.loads of the file gives back the same dictionary) *)
  Lemma st_save_nodup s name e : NoDup (map fst s) -> NoDup (map fst (st_save s name e)).
  Proof.
    intro H. unfold st_save. destruct (st_mem name s) eqn:M; [exact H|].
    rewrite map_app. cbn. apply st_mem_false in M. apply st_lookup_none_keys in M.
    revert H M. generalize (map fst s). intros l H M. induction l as [|x l IH]; cbn.
    - constructor; [intros []| constructor].
    - inversion H; subst. constructor.
      + rewrite in_app_iff. intros [Hx|[Hx|[]]]; [contradiction|]. subst. apply M. left. reflexivity.
      + apply IH; [assumption|]. intro Hn. apply M. right. exact Hn.
  Qed.

  Lemma st_run_from_nodup (hist : list (st_str * A)) : forall s, NoDup (map fst s) -> NoDup (map fst (st_run_from s hist)).
  Proof.
    induction hist as [|[n e] hist IH]; intros s H; [exact H|]. cbn. apply IH. apply st_save_nodup. exact H.
  Qed.

  Lemma st_run_nodup (hist : list (st_str * A)) : NoDup (map fst (st_run hist)).
  Proof. apply st_run_from_nodup. constructor. Qed.
End StoreLaws.

(* ---------- arrays: tolist / np.array ---------- *)
Lemma st_shape_eqb_refl s : st_shape_eqb s s = true.
Proof. induction s as [|x s IH]; cbn; [reflexivity|]. rewrite Nat.eqb_refl, IH. reflexivity. Qed.

Lemma st_sequence_map_some {A B} (f : A -> option B) (g : A -> B) l :
  (forall x, In x l -> f x = Some (g x)) -> st_sequence (map f l) = Some (map g l).
Proof.
  induction l as [|x l IH]; intro H; cbn; [reflexivity|].
  rewrite (H x (or_introl eq_refl)), IH; [reflexivity|]. intros y Hy. apply H. right. exact Hy.
Qed.

Lemma st_chunks_length {A} d m (l : list A) : length (st_chunks d m l) = d.
Proof. revert l. induction d as [|d IH]; intro l; cbn; [reflexivity|]. rewrite IH. reflexivity. Qed.

Lemma st_chunks_each {A} d m : forall (l : list A), length l = (d * m)%nat ->
  forall c, In c (st_chunks d m l) -> length c = m.
Proof.
  induction d as [|d IH]; intros l Hl c Hc; cbn in Hc; [contradiction|]. destruct Hc as [<-|Hc].
  - rewrite firstn_length. cbn in Hl. lia.
  - apply (IH (skipn m l)); [|exact Hc]. rewrite skipn_length. cbn in Hl. lia.
Qed.

Lemma st_chunks_concat {A} d m : forall (l : list A), length l = (d * m)%nat -> concat (st_chunks d m l) = l.
Proof.
  induction d as [|d IH]; intros l Hl; cbn.
  - cbn in Hl. destruct l; [reflexivity| discriminate].
  - rewrite IH; [apply firstn_skipn|]. rewrite skipn_length. cbn in Hl. lia.
Qed.

Lemma st_prod_cons d ds : st_prod (d :: ds) = (d * st_prod ds)%nat.
Proof. reflexivity. Qed.

(* the round trip on the flat representation, any rank *)
Lemma st_tolist_aux_roundtrip sh : forall data,
  Forall (fun d => 1 <= d)%nat sh -> length data = st_prod sh ->
  st_of_list (st_tolist_aux sh data) = Some (st_mkarr sh data).
Proof.
  induction sh as [|d ds IH]; intros data Hsh Hlen.
  - cbn in Hlen. destruct data as [|c [|c' data]]; try discriminate. cbn. destruct c; reflexivity.
  - inversion Hsh as [|? ? Hd Hds]; subst. rewrite st_prod_cons in Hlen.
    cbn [st_tolist_aux st_of_list]. rewrite map_map.
    set (ch := st_chunks d (st_prod ds) data).
    assert (Hseq : st_sequence (map (fun x => st_of_list (st_tolist_aux ds x)) ch) = Some (map (st_mkarr ds) ch)).
    { apply st_sequence_map_some. intros c Hc. apply IH; [exact Hds|]. apply (st_chunks_each d _ data Hlen c Hc). }
    unfold st_stack. rewrite Hseq.
    assert (Hlench : length ch = d) by apply st_chunks_length.
    destruct ch as [|c0 rest] eqn:Ech; [cbn in Hlench; lia|].
    cbn [map]. cbn [st_shape].
    assert (Hall : forallb (fun b => st_shape_eqb ds (st_shape b)) (map (st_mkarr ds) rest) = true).
    { apply forallb_forall. intros b Hb. apply in_map_iff in Hb. destruct Hb as [c [<- _]]. cbn. apply st_shape_eqb_refl. }
    rewrite Hall. f_equal. f_equal.
    + rewrite map_length. cbn in Hlench. f_equal. lia.
    + change (st_mkarr ds c0 :: map (st_mkarr ds) rest) with (map (st_mkarr ds) (c0 :: rest)).
      rewrite map_map. cbn [st_data]. rewrite map_id. rewrite <- Ech. apply st_chunks_concat. exact Hlen.
Qed.

Lemma st_tolist_roundtrip a :
  st_wf a -> Forall (fun d => 1 <= d)%nat (st_shape a) -> st_of_list (st_tolist a) = Some a.
Proof.
  destruct a as [sh data]. unfold st_wf, st_tolist. cbn. intros Hwf Hsh. apply st_tolist_aux_roundtrip; assumption.
Qed.

(* a zero-length leading dimension forgets the other dimensions: (0, 3) reads back as (0,) *)
Lemma st_tolist_roundtrip_needs_nonempty :
  exists a, st_wf a /\ In O (st_shape a) /\ st_of_list (st_tolist a) <> Some a.
Proof.
  exists (st_mkarr [0; 3]%nat []). split; [reflexivity|]. split; [left; reflexivity|]. cbn. discriminate.
Qed.

(* ---------- metadata and entries ---------- *)
Lemma st_metadata_jv_lookup_run_type args m :
  st_metadata_jv args = Some m ->
  exists rt, st_lookup st_s_run_type m = Some (St_JStr rt) /\ (rt = st_s_eval \/ rt = st_s_learn).
Proof.
  unfold st_metadata_jv. destruct (st_lookup st_s_func args) as [f|]; [|discriminate].
  intro H. injection H as <-.
  exists (if st_contains st_s_eval (st_repr_chars f) then st_s_eval else st_s_learn). split.
  - rewrite st_lookup_set_key, st_str_eqb_refl. reflexivity.
  - destruct (st_contains st_s_eval (st_repr_chars f)); [left| right]; reflexivity.
Qed.

Lemma st_metadata_jv_no_func args m : st_metadata_jv args = Some m -> st_lookup st_s_func m = None.
Proof.
  unfold st_metadata_jv. destruct (st_lookup st_s_func args) as [f|]; [|discriminate].
  intro H. injection H as <-. rewrite st_lookup_set_key.
  replace (st_str_eqb st_s_func st_s_run_type) with false by reflexivity.
  rewrite st_lookup_remove, st_str_eqb_refl. reflexivity.
Qed.

(* Output.metadata of a loaded Output is the metadata that was saved:
   loading sets func := run_type, .metadata pops it again and recomputes the same run_type *)
Lemma st_metadata_reload args m rt :
  st_metadata_jv args = Some m -> st_lookup st_s_run_type m = Some rt ->
  st_metadata_jv (st_set_key st_s_func rt m) = Some m.
Proof.
  intros Hm Hrt. pose proof (st_metadata_jv_no_func _ _ Hm) as Hnf.
  destruct (st_metadata_jv_lookup_run_type _ _ Hm) as [r [Hr Hcase]].
  rewrite Hrt in Hr. injection Hr as ->.
  unfold st_metadata_jv. rewrite st_lookup_set_key, st_str_eqb_refl.
  rewrite st_remove_set_key_absent by exact Hnf. f_equal.
  apply st_set_key_same. rewrite Hrt. f_equal. f_equal.
  destruct Hcase as [-> | ->]; reflexivity.
Qed.

(* what a saved Output reads back as: the two matrices exactly, the metadata stringified *)
Lemma st_entry_roundtrip o j :
  st_wf (st_o_data o) -> st_wf (st_o_actions o) ->
  Forall (fun d => 1 <= d)%nat (st_shape (st_o_data o)) -> Forall (fun d => 1 <= d)%nat (st_shape (st_o_actions o)) ->
  st_entry_json o = Some j ->
  exists l, st_from_json j = Some l /\
            st_l_data l = st_o_data o /\ st_l_actions l = st_o_actions o /\
            st_metadata_jv (st_l_args l) = st_metadata (st_o_args o).
Proof.
  intros Wd Wa Sd Sa. unfold st_entry_json. destruct (st_metadata (st_o_args o)) as [m|] eqn:Hm; [|discriminate].
  intro H. injection H as <-.
  destruct (st_metadata_jv_lookup_run_type _ _ Hm) as [rt [Hrt _]].
  unfold st_from_json.
  replace (st_lookup st_s_metadata [(st_s_data, st_tolist (st_o_data o)); (st_s_actions, st_tolist (st_o_actions o)); (st_s_metadata, St_JObj m)])
    with (Some (St_JObj m)) by reflexivity.
  replace (st_lookup st_s_data [(st_s_data, st_tolist (st_o_data o)); (st_s_actions, st_tolist (st_o_actions o)); (st_s_metadata, St_JObj m)])
    with (Some (st_tolist (st_o_data o))) by reflexivity.
  replace (st_lookup st_s_actions [(st_s_data, st_tolist (st_o_data o)); (st_s_actions, st_tolist (st_o_actions o)); (st_s_metadata, St_JObj m)])
    with (Some (st_tolist (st_o_actions o))) by reflexivity.
  rewrite Hrt, (st_tolist_roundtrip _ Wd Sd), (st_tolist_roundtrip _ Wa Sa). cbn [length Nat.eqb].
  eexists. split; [reflexivity|]. cbn. repeat split.
  apply (st_metadata_reload _ _ _ Hm Hrt).
Qed.

(* a save history of Outputs is the value-level store history of their JSON forms *)
Lemma st_run_outputs_spec hist : forall store js,
  Forall2 (fun no nj => fst no = fst nj /\ st_entry_json (snd no) = Some (snd nj)) hist js ->
  st_run_outputs store hist = Some (st_run_from store js).
Proof.
  induction hist as [|[name o] hist IH]; intros store js H; inversion H as [|? [n j] ? js' [Hn Hj] Hrest]; subst; cbn.
  - reflexivity.
  - cbn in Hn, Hj. subst n. unfold st_save. cbn. destruct (st_mem name store).
    + apply IH. exact Hrest.
    + rewrite Hj. apply IH. exact Hrest.
Qed.

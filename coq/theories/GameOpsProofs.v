(* GameOpsProofs: the game object is a faithful map coalition -> (known?, lower, upper) (C17). *)
From ICG Require Import Prelude Bits Table Bounds GameOps FoldLemmas BoundsSpec SASound SAEquiv SAKnowledge SAMSpec SAMSound SAMKnowledge.

(* ---------- frame of every computer, for all ids ---------- *)
Lemma compute_frame (c : computer) n t t' :
  compute c n t = Some t' -> forall s, Kn t' s = Kn t s /\ (Kn t s = true -> get t' s = get t s).
Proof.
  destruct c as [| |r]; simpl; intros Hc s.
  - unfold compute_sa_ref in Hc. destruct (min_known n t); [|discriminate]. injection Hc as <-.
    pose proof (sa_ref_run_post n t) as P. split; [apply (rpost_Kn _ _ _ P)|].
    intros Hk. apply (rpost_frame _ _ _ P). rewrite Hk. intros [_ ?]. discriminate.
  - unfold compute_sa_cached in Hc. destruct (cached_ok n t); [|discriminate]. injection Hc as <-.
    pose proof (sa_cached_run_post n t) as P. split; [apply (post_Kn _ _ _ P)|].
    intros Hk. apply (post_frame _ _ _ P). rewrite Hk. intros [_ ?]. discriminate.
  - unfold compute_sam in Hc. destruct (sam_ok n t); [|discriminate]. injection Hc as <-.
    destruct (sam_run_frame n r t) as [F1 F2]. split; [apply F1|].
    intros Hk. apply F2. rewrite in_unknown_sorted. intros [_ ?]. congruence.
Qed.

(* ---------- bulk assignment ---------- *)
Lemma last_assigned_acc sx s acc :
  fold_left (fun acc p => if N.eqb (fst p) s then Some (snd p) else acc) sx acc
  = match last_assigned sx s with Some x => Some x | None => acc end.
Proof.
  unfold last_assigned. revert acc. induction sx as [|p sx IH]; intros acc; simpl; [reflexivity|].
  rewrite IH. rewrite (IH (if (fst p =? s)%N then Some (snd p) else None)).
  destruct (fold_left _ sx None); [reflexivity|]. destruct (fst p =? s)%N; reflexivity.
Qed.

Lemma assign_values_get t sx s :
  get (assign_values t sx) s = match last_assigned sx s with Some x => krow x | None => get t s end.
Proof.
  unfold assign_values. revert t. induction sx as [|p sx IH]; intros t; simpl; [reflexivity|].
  rewrite IH. unfold last_assigned at 2. simpl. rewrite last_assigned_acc.
  destruct (last_assigned sx s); [reflexivity|]. unfold set_value. rewrite get_set.
  rewrite N.eqb_sym. destruct (fst p =? s)%N; reflexivity.
Qed.

(* ---------- the abstract specification: a partial map coalition -> value ---------- *)
Definition amap := N -> option Q.
Definition a_init : amap := fun s => if N.eqb s 0 then Some 0 else None.
Definition a_set (m : amap) (s : N) (x : Q) : amap := fun a => if N.eqb a s then Some x else m a.
Definition a_unset (m : amap) (s : N) : amap := fun a => if N.eqb a s then None else m a.
Definition a_assign (m : amap) (sx : list (N * Q)) : amap :=
  fun a => match last_assigned sx a with Some x => Some x | None => m a end.
Definition isSome {A} (o : option A) : bool := match o with Some _ => true | None => false end.

Definition a_step (n : nat) (m : amap) (o : op) : amap :=
  match o with
  | OSet s x => a_set m s x
  | OUnset s => a_unset m s
  | OReveal s x => if isSome (m s) then m else a_set m s x
  | OUnreveal s => if isSome (m s) then a_unset m s else m
  | OSetValuesAll xs => if (length xs =? 2 ^ n)%nat then a_assign m (combine (alln n) xs) else m
  | OSetValuesSome ss xs => if (length ss <? length xs)%nat then m else a_assign m (combine (firstn (length xs) ss) xs)
  | OSetKnownAll xs => if (length xs =? 2 ^ n)%nat then a_assign a_init (combine (alln n) xs) else a_init
  | OSetKnownSome ss xs => if (length ss <? length xs)%nat then a_init else a_assign a_init (combine (firstn (length xs) ss) xs)
  | _ => m      (* bound setters and bound computations never change what is known *)
  end.
Definition known_spec (n : nat) (ops : list op) : amap := fold_left (a_step n) ops a_init.

(* the table refines the abstract map *)
Definition refines (t : table) (m : amap) : Prop :=
  forall s, Kn t s = isSome (m s) /\ (forall x, m s = Some x -> L t s = x /\ U t s = x).

Lemma refines_init : refines init_table a_init.
Proof.
  intros s. unfold init_table, a_init, Kn, L, U. rewrite get_set.
  destruct (N.eqb_spec s 0); simpl.
  - split; [reflexivity|]. intros x [= <-]. auto.
  - rewrite get_empty. simpl. split; [reflexivity|]. discriminate.
Qed.

Lemma refines_set t m s x : refines t m -> refines (set_value t s x) (a_set m s x).
Proof.
  intros H a. unfold set_value, a_set, Kn, L, U. rewrite get_set. destruct (N.eqb_spec a s); simpl.
  - split; [reflexivity|]. intros y [= <-]. auto.
  - apply H.
Qed.
Lemma refines_unset t m s : refines t m -> refines (unset_value t s) (a_unset m s).
Proof.
  intros H a. unfold unset_value, a_unset, Kn, L, U. rewrite get_set. destruct (N.eqb_spec a s); simpl.
  - split; [reflexivity|]. discriminate.
  - apply H.
Qed.
Lemma refines_assign t m sx : refines t m -> refines (assign_values t sx) (a_assign m sx).
Proof.
  intros H a. unfold a_assign, Kn, L, U. rewrite assign_values_get. destruct (last_assigned sx a); simpl.
  - split; [reflexivity|]. intros y [= <-]. auto.
  - apply H.
Qed.

(* writes to the bound columns of rows that are unknown *)
Lemma refines_set_lo t m s x : Kn t s = false -> refines t m -> refines (set_lo t s x) m.
Proof.
  intros Hk H a. destruct (H a) as [H1 H2]. unfold Kn, L, U. rewrite known_set_lo, lo_set_lo, hi_set_lo.
  split; [exact H1|]. intros y Hy. destruct (N.eqb_spec a s) as [->|]; [|apply H2; exact Hy].
  exfalso. destruct (H s) as [E _]. rewrite Hy in E. simpl in E. congruence.
Qed.
Lemma refines_set_hi t m s x : Kn t s = false -> refines t m -> refines (set_hi t s x) m.
Proof.
  intros Hk H a. destruct (H a) as [H1 H2]. unfold Kn, L, U. rewrite known_set_hi, lo_set_hi, hi_set_hi.
  split; [exact H1|]. intros y Hy. destruct (N.eqb_spec a s) as [->|]; [|apply H2; exact Hy].
  exfalso. destruct (H s) as [E _]. rewrite Hy in E. simpl in E. congruence.
Qed.

Lemma refines_bounds_fold {A} (upper : bool) (t : table) (m : amap) (items : list A) (key : A -> N)
      (val : A -> option Q) :
  refines t m ->
  refines (fold_left (fun t' it => match val it with
                                   | Some x => if known (get t (key it)) then t'
                                               else if upper then set_hi t' (key it) x else set_lo t' (key it) x
                                   | None => t' end) items t) m
  /\ forall s, Kn (fold_left (fun t' it => match val it with
                                   | Some x => if known (get t (key it)) then t'
                                               else if upper then set_hi t' (key it) x else set_lo t' (key it) x
                                   | None => t' end) items t) s = Kn t s.
Proof.
  intros H.
  assert (G : forall t', refines t' m -> (forall s, Kn t' s = Kn t s) ->
     refines (fold_left (fun t' it => match val it with
                                   | Some x => if known (get t (key it)) then t'
                                               else if upper then set_hi t' (key it) x else set_lo t' (key it) x
                                   | None => t' end) items t') m
     /\ forall s, Kn (fold_left (fun t' it => match val it with
                                   | Some x => if known (get t (key it)) then t'
                                               else if upper then set_hi t' (key it) x else set_lo t' (key it) x
                                   | None => t' end) items t') s = Kn t s).
  { induction items as [|it items IH]; intros t' Hr Hk; simpl; [auto|].
    destruct (val it) as [x|]; [|apply IH; auto].
    destruct (known (get t (key it))) eqn:Ek; [apply IH; auto|].
    destruct upper; apply IH.
    - apply refines_set_hi; auto. rewrite Hk. exact Ek.
    - intros s. unfold Kn. rewrite known_set_hi. apply Hk.
    - apply refines_set_lo; auto. rewrite Hk. exact Ek.
    - intros s. unfold Kn. rewrite known_set_lo. apply Hk. }
  apply G; auto.
Qed.

Lemma refines_set_bounds_some upper n t m ss xs :
  refines t m -> refines (fst (set_bounds_some upper n t ss xs)) m.
Proof.
  intros H. unfold set_bounds_some. destruct (length ss <? length xs)%nat; simpl; [exact H|].
  apply (refines_bounds_fold upper t m (alln n) (fun s => s)
           (fun s => last_assigned (combine (firstn (length xs) ss) xs) s) H).
Qed.

Lemma refines_set_bounds_all upper n t m xs :
  refines t m -> refines (fst (set_bounds_all upper n t xs)) m.
Proof.
  intros H. unfold set_bounds_all. destruct (length xs =? 2 ^ n)%nat; simpl; [|exact H].
  apply (refines_bounds_fold upper t m (combine (alln n) xs) fst (fun p => Some (snd p)) H).
Qed.

Lemma refines_compute c n t t' m : compute c n t = Some t' -> refines t m -> refines t' m.
Proof.
  intros Hc H s. destruct (compute_frame c n t t' Hc s) as [F1 F2]. destruct (H s) as [H1 H2].
  split; [rewrite F1; exact H1|]. intros x Hx.
  assert (Hk : Kn t s = true) by (rewrite H1, Hx; reflexivity).
  unfold L, U. rewrite (F2 Hk). apply H2. exact Hx.
Qed.

Theorem step_refines n t m o : public_op o = true -> refines t m -> refines (fst (step n t o)) (a_step n m o).
Proof.
  intros Hp H. destruct o; simpl in *; try discriminate.
  - apply refines_set; exact H.
  - apply refines_unset; exact H.
  - unfold reveal. destruct (H s) as [E _]. unfold Kn in E. rewrite E.
    destruct (isSome (m s)); simpl; [exact H| apply refines_set; exact H].
  - unfold unreveal. destruct (H s) as [E _]. unfold Kn in E. rewrite E.
    destruct (isSome (m s)); simpl; [apply refines_unset; exact H| exact H].
  - unfold set_values_all. destruct (length xs =? 2 ^ n)%nat; simpl; [apply refines_assign; exact H| exact H].
  - unfold set_values_some. destruct (length ss <? length xs)%nat; simpl; [exact H| apply refines_assign; exact H].
  - unfold set_known_all, set_values_all. destruct (length xs =? 2 ^ n)%nat; simpl;
      [apply refines_assign; apply refines_init| apply refines_init].
  - unfold set_known_some, set_values_some. destruct (length ss <? length xs)%nat; simpl;
      [apply refines_init| apply refines_assign; apply refines_init].
  - apply refines_set_bounds_all; exact H.
  - apply refines_set_bounds_some; exact H.
  - apply refines_set_bounds_all; exact H.
  - apply refines_set_bounds_some; exact H.
  - destruct (compute c n t) as [t'|] eqn:Hc; simpl; [eapply refines_compute; eauto| exact H].
Qed.

(* C17: after any sequence of public operations the object refines the abstract map *)
Theorem ops_refine_spec n ops :
  forallb public_op ops = true -> refines (run n ops init_table) (known_spec n ops).
Proof.
  unfold run, known_spec.
  assert (G : forall t m, refines t m -> forallb public_op ops = true ->
                          refines (fold_left (fun t o => fst (step n t o)) ops t) (fold_left (a_step n) ops m)).
  { induction ops as [|o ops IH]; intros t m H Hp; simpl; [exact H|].
    simpl in Hp. apply andb_true_iff in Hp. destruct Hp as [Hp1 Hp2].
    apply IH; [apply step_refines; assumption| exact Hp2]. }
  intros Hp. apply G; [apply refines_init| exact Hp].
Qed.

(* a known coalition has lower = upper = its value (Leibniz) *)
Definition wf (t : table) : Prop := forall s, Kn t s = true -> L t s = U t s.

Corollary wf_invariant n ops : forallb public_op ops = true -> wf (run n ops init_table).
Proof.
  intros Hp s Hk. destruct (ops_refine_spec n ops Hp s) as [E H].
  rewrite Hk in E. destruct (known_spec n ops s) as [x|]; [|discriminate].
  destruct (H x eq_refl) as [-> ->]. reflexivity.
Qed.

(* bulk bound setters never alter a known row *)
Lemma bounds_fold_frame {A} (upper : bool) (t : table) (items : list A) (key : A -> N) (val : A -> option Q) s :
  Kn t s = true ->
  forall t', get t' s = get t s ->
  get (fold_left (fun t' it => match val it with
                               | Some x => if known (get t (key it)) then t'
                                           else if upper then set_hi t' (key it) x else set_lo t' (key it) x
                               | None => t' end) items t') s = get t s.
Proof.
  intros Hk. induction items as [|it items IH]; intros t' E; simpl; [exact E|].
  destruct (val it) as [x|]; [|apply IH; exact E].
  destruct (known (get t (key it))) eqn:Ek; [apply IH; exact E|].
  assert (Hne : s <> key it) by (intro; subst; unfold Kn in Hk; congruence).
  destruct upper; apply IH; unfold set_hi, set_lo; rewrite gso by exact Hne; exact E.
Qed.

Theorem bulk_bounds_skip_known upper n t s :
  Kn t s = true ->
  (forall ss xs, get (fst (set_bounds_some upper n t ss xs)) s = get t s) /\
  (forall xs, get (fst (set_bounds_all upper n t xs)) s = get t s).
Proof.
  intros Hk. split.
  - intros ss xs. unfold set_bounds_some. destruct (length ss <? length xs)%nat; simpl; [reflexivity|].
    apply (bounds_fold_frame upper t (alln n) (fun s => s) _ s Hk). reflexivity.
  - intros xs. unfold set_bounds_all. destruct (length xs =? 2 ^ n)%nat; simpl; [|reflexivity].
    apply (bounds_fold_frame upper t (combine (alln n) xs) fst (fun p => Some (snd p)) s Hk). reflexivity.
Qed.

(* the value of an unknown coalition is never returned as a value *)
Theorem unknown_never_a_value t s :
  Kn t s = false ->
  get_value t s = None /\ get_known_value t s = None /\ get_known_values_of t [s] = [None]
  /\ forall ss, In s ss -> get_values_of t ss = None.
Proof.
  intros Hk. unfold get_value, get_known_value, get_known_values_of, get_values_of, Kn in *. simpl. rewrite Hk.
  repeat split. intros ss Hin.
  destruct (forallb (fun s0 => known (get t s0)) ss) eqn:E; [|reflexivity].
  rewrite forallb_forall in E. rewrite (E s Hin) in Hk. discriminate.
Qed.

Theorem known_value_returned t s : Kn t s = true ->
  get_value t s = Some (L t s) /\ get_known_value t s = Some (L t s) /\ get_known_values_of t [s] = [Some (U t s)].
Proof. intros Hk. unfold get_value, get_known_value, get_known_values_of, Kn, L, U in *. simpl. rewrite Hk. auto. Qed.

Theorem init_empty_known :
  Kn init_table 0%N = true /\ L init_table 0%N = 0 /\ U init_table 0%N = 0 /\ forall s, s <> 0%N -> get init_table s = row0.
Proof.
  unfold init_table, Kn, L, U. rewrite gss. simpl. repeat split.
  intros s Hs. rewrite gso by exact Hs. apply get_empty.
Qed.

(* negation swaps and negates the bounds, keeps knowledge, and is an involution *)
Lemma neg_fold_get t (ids : list N) t0 s : NoDup ids ->
  get (fold_left (fun t' a => let r := get t a in set t' a (mkrow (known r) (- hi r) (- lo r))) ids t0) s
  = if in_dec N.eq_dec s ids then mkrow (known (get t s)) (- hi (get t s)) (- lo (get t s)) else get t0 s.
Proof.
  revert t0. induction ids as [|x ids IH]; intros t0 Hnd; simpl; [reflexivity|].
  inversion Hnd as [|? ? Hx Hnd']; subst. rewrite IH by exact Hnd'.
  destruct (in_dec N.eq_dec s ids) as [Hin|Hnin].
  - destruct (N.eq_dec x s); reflexivity.
  - destruct (N.eq_dec x s) as [->|Hne]; [apply gss| apply gso; congruence].
Qed.

Theorem neg_spec n t s : bounded n s ->
  get (neg_table n t) s = mkrow (known (get t s)) (- hi (get t s)) (- lo (get t s)).
Proof.
  intros Hb. unfold neg_table. etransitivity; [apply (neg_fold_get t (alln n) t s (NoDup_alln n))|].
  destruct (in_dec N.eq_dec s (alln n)) as [_|Hn]; [reflexivity|]. exfalso. apply Hn. apply in_alln. exact Hb.
Qed.

Lemma Qopp_opp_eq (x : Q) : - - x = x.
Proof. destruct x as [a b]. unfold Qopp. simpl. rewrite Z.opp_involutive. reflexivity. Qed.

Theorem neg_involution n t s : bounded n s -> get (neg_table n (neg_table n t)) s = get t s.
Proof.
  intros Hb. rewrite neg_spec by exact Hb. rewrite !neg_spec by exact Hb. simpl.
  rewrite !Qopp_opp_eq. destruct (get t s); reflexivity.
Qed.

Theorem neg_keeps_wf n t : (forall s, bounded n s -> Kn t s = true -> L t s = U t s) ->
  forall s, bounded n s -> Kn (neg_table n t) s = true -> L (neg_table n t) s = U (neg_table n t) s.
Proof.
  intros H s Hb. unfold Kn, L, U. rewrite neg_spec by exact Hb. simpl. intros Hk.
  specialize (H s Hb Hk). unfold L, U in H. rewrite H. reflexivity.
Qed.

(* GreedyProofs: the expected-greedy search extends its sequence by a coalition minimising the mean gap, never repeats a
   coalition, records the gaps of its prefixes; its curve is non-increasing when revealing never hurts, never below any
   lower bound of all same-size sets, and optimal for zero and one reveal (C13). *)
From ICG Require Import Prelude Bits Search Greedy.

Lemma eg_argmin_from_spec best besti i xs (all : list Q) :
  (besti < i)%nat -> nth_error all besti = Some best -> i = (length all - length xs)%nat ->
  (forall j y, (j < i)%nat -> nth_error all j = Some y -> best <= y /\ ((j < besti)%nat -> best < y)) ->
  (forall j, nth_error xs j = nth_error all (i + j)) ->
  let r := eg_argmin_from best besti i xs in
  exists m, nth_error all r = Some m /\ (forall j y, nth_error all j = Some y -> m <= y /\ ((j < r)%nat -> m < y)).
Proof.
  revert best besti i. induction xs as [|x xs IH]; intros best besti i Hlt Hb Hi Hinv Hxs; simpl.
  - exists best. split; [exact Hb|]. intros j y Hy. apply Hinv; [|exact Hy].
    assert (j < length all)%nat by (apply nth_error_Some; congruence). simpl in Hi. lia.
  - assert (Hx : nth_error all i = Some x) by (rewrite <- (Nat.add_0_r i), <- Hxs; reflexivity).
    assert (Hlen : (i < length all)%nat) by (apply nth_error_Some; congruence).
    destruct (Qle_bool best x) eqn:E.
    + apply Qle_bool_iff in E. apply IH; auto; [simpl in Hi; lia| |].
      * intros j y Hj Hy. destruct (Nat.eq_dec j i) as [->|Hne].
        -- rewrite Hx in Hy. injection Hy as <-. split; [exact E| intros; lia].
        -- apply Hinv; [lia| exact Hy].
      * intros j. replace (S i + j)%nat with (i + S j)%nat by lia. apply (Hxs (S j)).
    + assert (Hlt' : x < best) by (apply Qnot_le_lt; intro Hle; apply Qle_bool_iff in Hle; congruence).
      apply IH; auto; [simpl in Hi; lia| |].
      * intros j y Hj Hy. destruct (Nat.eq_dec j i) as [->|Hne].
        -- rewrite Hx in Hy. injection Hy as <-. split; [apply Qle_refl| intros; lia].
        -- destruct (Hinv j y ltac:(lia) Hy) as [A _]. split; [lra| intros _; lra].
      * intros j. replace (S i + j)%nat with (i + S j)%nat by lia. apply (Hxs (S j)).
Qed.

(* first index of the minimum *)
Theorem eg_argmin_spec xs r : eg_argmin xs = Some r ->
  exists m, nth_error xs r = Some m /\ (forall j y, nth_error xs j = Some y -> m <= y /\ ((j < r)%nat -> m < y)).
Proof.
  destruct xs as [|x xs]; [discriminate|]. simpl. intros [= <-].
  apply (eg_argmin_from_spec x 0 1 xs (x :: xs)).
  - lia.
  - reflexivity.
  - cbn [length]. lia.
  - intros j y Hj Hy. assert (j = 0)%nat by lia. subst. simpl in Hy. injection Hy as <-. split; [apply Qle_refl| lia].
  - intros j. reflexivity.
Qed.

Lemma eg_remove_nth_in {A} i (l : list A) a x : nth_error l i = Some a -> In x (eg_remove_nth i l) -> In x l.
Proof.
  revert i. induction l as [|y l IH]; intros [|i] Ha Hx; simpl in *; try discriminate; auto.
  destruct Hx as [->|Hx]; [left; reflexivity| right; eapply IH; eauto].
Qed.

Lemma eg_remove_nth_nodup {A} i (l : list A) a : NoDup l -> nth_error l i = Some a ->
  NoDup (eg_remove_nth i l) /\ ~ In a (eg_remove_nth i l).
Proof.
  revert i. induction l as [|y l IH]; intros [|i] Hnd Ha; simpl in *; try discriminate.
  - injection Ha as ->. inversion Hnd; subst. auto.
  - inversion Hnd as [|? ? Hy Hl]; subst. destruct (IH i Hl Ha) as [HA HB]. split.
    + constructor; [intro Hin; apply Hy; eapply eg_remove_nth_in; eauto| exact HA].
    + intros [->|Hin]; [apply Hy; eapply nth_error_In; eauto| contradiction].
Qed.

Section EGProofs.
  Variable value : list N -> list Q.
  Let curve_at (s : list N) := sr_mean (value s).

  (* invariant of the loop *)
  Lemma eg_loop_spec k sq0 possible rows seq' rows' :
    NoDup possible -> (forall a, In a possible -> ~ In a sq0) -> NoDup sq0 ->
    eg_loop value k sq0 possible rows = Some (seq', rows') ->
    exists ext, seq' = sq0 ++ ext /\ length ext = k /\ NoDup seq' /\ (forall a, In a ext -> In a possible)
      /\ rows' = rows ++ map (fun j => value (sq0 ++ firstn (S j) ext)) (List.seq 0 k)
      /\ (forall j a, nth_error ext j = Some a ->
            forall b, In b possible -> ~ In b (firstn j ext) ->
              curve_at (sq0 ++ firstn j ext ++ [a]) <= curve_at (sq0 ++ firstn j ext ++ [b])).
  Proof.
    revert sq0 possible rows. induction k as [|k IH]; intros sq possible rows Hnd Hdis Hsq H; simpl in H.
    - injection H as <- <-. exists []. rewrite app_nil_r. simpl. rewrite app_nil_r.
      repeat split; auto. + intros a []. + intros [|j] a Hj; discriminate.
    - destruct (eg_argmin _) as [i|] eqn:Ei; [|discriminate].
      destruct (nth_error possible i) as [a|] eqn:Ha; [|discriminate].
      destruct (eg_remove_nth_nodup i possible a Hnd Ha) as [Hnd' Hna].
      assert (Hain : In a possible) by (eapply nth_error_In; eauto).
      destruct (IH (sq ++ [a]) (eg_remove_nth i possible) (rows ++ [value (sq ++ [a])]) Hnd') as [ext [E1 [E2 [E3 [E4 [E5 E6]]]]]]; auto.
      { intros b Hb Hin. apply in_app_or in Hin. destruct Hin as [Hin|[<-|[]]]; [|contradiction].
        apply (Hdis b); [eapply eg_remove_nth_in; eauto| exact Hin]. }
      { apply NoDup_app_intro; [exact Hsq| constructor; [intros []| constructor]|].
        intros x Hx [E|[]]. subst x. apply (Hdis a Hain Hx). }
      exists (a :: ext). split; [rewrite E1, <- app_assoc; reflexivity|]. split; [simpl; lia|]. split; [exact E3|].
      split; [intros b [<-|Hb]; [exact Hain| eapply eg_remove_nth_in; eauto]|]. split.
      + rewrite E5, <- app_assoc. f_equal. simpl. f_equal.
        rewrite <- seq_shift, map_map. apply map_ext. intros j. rewrite <- app_assoc. reflexivity.
      + intros [|j] c Hj b Hb Hnb; simpl in *.
        * injection Hj as <-. destruct (eg_argmin_spec _ _ Ei) as [m [Hm Hmin]].
          rewrite nth_error_map, Ha in Hm. simpl in Hm. injection Hm as <-.
          destruct (In_nth_error _ _ Hb) as [jb Hjb].
          destruct (Hmin jb (sr_mean (value (sq ++ [b])))) as [Hle _]; [rewrite nth_error_map, Hjb; reflexivity|].
          exact Hle.
        * assert (Hb' : In b (eg_remove_nth i possible)).
          { (* b is possible and differs from a *)
            assert (Hne : b <> a) by (intro; subst; apply Hnb; left; reflexivity).
            clear -Hb Ha Hne. revert i Ha. induction possible as [|y l IHl]; intros [|i] Ha; simpl in *; try discriminate.
            - injection Ha as ->. destruct Hb as [->|Hb]; [congruence| exact Hb].
            - destruct Hb as [->|Hb]; [left; reflexivity| right; apply (IHl Hb i Ha)]. }
          assert (Hnb' : ~ In b (firstn j ext)) by (intro Hin; apply Hnb; right; exact Hin).
          pose proof (E6 j c Hj b Hb' Hnb') as H6. unfold curve_at in *. rewrite <- !app_assoc in H6. exact H6.
  Qed.

  (* C13: the result of the search *)
  Theorem eg_run_spec max_steps possible seq rows :
    NoDup possible -> eg_run value max_steps possible = Some (seq, rows) ->
    length seq = max_steps /\ NoDup seq /\ (forall a, In a seq -> In a possible)
    /\ rows = map (fun k => value (firstn k seq)) (List.seq 0 (S max_steps))
    /\ (forall j a, nth_error seq j = Some a ->
          forall b, In b possible -> ~ In b (firstn j seq) ->
            curve_at (firstn j seq ++ [a]) <= curve_at (firstn j seq ++ [b])).
  Proof.
    intros Hnd H. unfold eg_run in H.
    destruct (eg_loop_spec max_steps [] possible [value []] seq rows Hnd) as [ext [E1 [E2 [E3 [E4 [E5 E6]]]]]]; auto.
    { constructor. }
    simpl in E1. subst ext. split; [exact E2|]. split; [exact E3|]. split; [exact E4|]. split.
    - rewrite E5. simpl. f_equal. rewrite <- seq_shift, map_map. reflexivity.
    - intros j a Hj b Hb Hnb. apply (E6 j a Hj b Hb Hnb).
  Qed.

  (* the curve: mean gap after the first k chosen coalitions *)
  Definition eg_curve (seq : list N) (k : nat) : Q := curve_at (firstn k seq).

  Lemma firstn_S_nth {A} (l : list A) j a : nth_error l j = Some a -> firstn (S j) l = firstn j l ++ [a].
  Proof.
    revert j. induction l as [|x l IH]; intros [|j] H; simpl in *; try discriminate.
    - injection H as ->. reflexivity.
    - f_equal. apply IH. exact H.
  Qed.

  (* non-increasing when one more revealed coalition never increases the mean gap (C07 for games of the assumed class) *)
  Theorem eg_curve_nonincreasing max_steps possible seq rows :
    (forall s a, curve_at (s ++ [a]) <= curve_at s) ->
    NoDup possible -> eg_run value max_steps possible = Some (seq, rows) ->
    forall k, (k < max_steps)%nat -> eg_curve seq (S k) <= eg_curve seq k.
  Proof.
    intros Hmono Hnd H k Hk. destruct (eg_run_spec _ _ _ _ Hnd H) as [Hlen _].
    destruct (nth_error seq k) as [a|] eqn:Ha; [|apply nth_error_None in Ha; lia].
    unfold eg_curve. rewrite (firstn_S_nth seq k a Ha). apply Hmono.
  Qed.

  (* optimal for zero and one reveal; in general the chosen set of size k is one of the size-k sets, so the curve is
     never below a lower bound of all of them *)
  Theorem eg_first_step_optimal max_steps possible seq rows a :
    NoDup possible -> eg_run value max_steps possible = Some (seq, rows) -> nth_error seq 0 = Some a ->
    forall b, In b possible -> eg_curve seq 1 <= curve_at [b].
  Proof.
    intros Hnd H Ha b Hb. destruct (eg_run_spec _ _ _ _ Hnd H) as [_ [_ [_ [_ Hch]]]].
    unfold eg_curve. rewrite (firstn_S_nth seq 0 a Ha). simpl. apply (Hch 0%nat a Ha b Hb). simpl. auto.
  Qed.

  Theorem eg_never_below_optimum max_steps possible seq rows k bound :
    NoDup possible -> eg_run value max_steps possible = Some (seq, rows) -> (k <= max_steps)%nat ->
    (forall s, NoDup s -> (forall a, In a s -> In a possible) -> length s = k -> bound <= curve_at s) ->
    bound <= eg_curve seq k.
  Proof.
    intros Hnd H Hk Hb. destruct (eg_run_spec _ _ _ _ Hnd H) as [Hlen [Hnds [Hin _]]].
    apply Hb.
    - clear -Hnds. revert k. induction seq as [|x l IH]; intros [|k]; simpl; try constructor.
      + inversion Hnds; subst. intro Hx. apply H1. clear -Hx. revert k Hx. induction l as [|y l IHl]; intros [|k] Hx; simpl in *; try contradiction.
        destruct Hx as [->|Hx]; [left; reflexivity| right; eapply IHl; eauto].
      + inversion Hnds; subst. apply IH. assumption.
    - intros a Ha. apply Hin. clear -Ha. revert k Ha. induction seq as [|x l IH]; intros [|k] Ha; simpl in *; try contradiction.
      destruct Ha as [->|Ha]; [left; reflexivity| right; eapply IH; eauto].
    - rewrite firstn_length. lia.
  Qed.
End EGProofs.
